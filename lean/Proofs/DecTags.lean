/-
  Proofs.DecTags — the guided decoder in "tag list" normal form: decoding against a type is
  peeling the type's tags from the outside in (explicit wrappers hold exactly one element), then
  decoding the body of the base type.  This is the bridge between `decTy` (recursion on the type)
  and the encoder's header loop (recursion on `tagSet.superTags`).
-/
import Asn1.Decoder
import Asn1.Typing

namespace Asn1

def sameTag (a b : Tag) : Bool := a.cls = b.cls ∧ a.num = b.num

/-- decode by tag list; `os` = the type's tags, outermost first; `chk` = whether the outermost tag
    is compared (it is not when an IMPLICIT tag has replaced it) -/
def decG (cfg : DecCfg) (base : Ty) : Bool → List Tag → TLV → Res Val
  | chk, [], x => if chk then decTy cfg base x else decBody cfg base x
  | chk, [b], x => if chk && !sameTag x.tag b then .error .malformed else decBody cfg base x
  | chk, o :: o' :: rest, x =>
    match x with
    | .cons _ tg _ [child] =>
      if chk && !sameTag tg o then .error .malformed else decG cfg base true (o' :: rest) child
    | _ => .error .malformed

/-- the head of the tag list only matters through the comparison -/
theorem decG_head (cfg : DecCfg) (base : Ty) (a a' : Tag) (rest : List Tag) (x : TLV) :
    decG cfg base true (a :: rest) x
      = if sameTag x.tag a then decG cfg base false (a' :: rest) x else .error .malformed := by
  cases rest with
  | nil =>
    simp only [decG, Bool.true_and, Bool.false_and, Bool.false_eq_true, if_false]
    by_cases h : sameTag x.tag a <;> simp [h]
  | cons o' rest' =>
    cases x with
    | prim h tg c => simp [decG]
    | cons h tg i cs =>
      match cs with
      | [] => simp [decG]
      | [child] =>
        simp only [decG, Bool.true_and, Bool.false_and, Bool.false_eq_true, if_false, TLV.tag]
        by_cases hs : sameTag tg a <;> simp [hs]
      | _ :: _ :: _ => simp [decG]

theorem tagImplicitly_reverse_nil (cls : TagClass) (fmt : Bool) (num : Nat) :
    (TagSet.tagImplicitly [] cls fmt num).reverse = [⟨cls, fmt, num⟩] := by
  simp [TagSet.tagImplicitly]

theorem tagImplicitly_reverse_cons (ts : TagSet) (o : Tag) (rest : List Tag) (cls : TagClass)
    (fmt : Bool) (num : Nat) (h : ts.reverse = o :: rest) :
    (TagSet.tagImplicitly ts cls fmt num).reverse = ⟨cls, o.constructed, num⟩ :: rest := by
  have hts : ts = rest.reverse ++ [o] := by
    have := congrArg List.reverse h
    simpa using this
  subst hts
  simp [TagSet.tagImplicitly]


theorem decTy_explicit_one (cfg : DecCfg) (cls : TagClass) (num : Nat) (t : Ty) (h : Bytes) (tg : Tag)
    (i : Bool) (child : TLV) :
    decTy cfg (.tagged true cls num t) (.cons h tg i [child])
      = if tg.cls = cls ∧ tg.num = num then decTy cfg t child else .error .malformed := by
  rw [decTy]

theorem decTy_explicit_prim (cfg : DecCfg) (cls : TagClass) (num : Nat) (t : Ty) (h : Bytes) (tg : Tag)
    (c : Bytes) : decTy cfg (.tagged true cls num t) (.prim h tg c) = .error .malformed := by
  rw [decTy]; intros; simp_all

theorem decTy_explicit_many (cfg : DecCfg) (cls : TagClass) (num : Nat) (t : Ty) (h : Bytes) (tg : Tag)
    (i : Bool) (cs : List TLV) (hl : cs.length ≠ 1) :
    decTy cfg (.tagged true cls num t) (.cons h tg i cs) = .error .malformed := by
  rw [decTy]; intro _ _ _ child hh
  simp only [TLV.cons.injEq] at hh
  rw [hh.2.2.2] at hl; simp at hl

theorem decBody_explicit_one (cfg : DecCfg) (cls : TagClass) (num : Nat) (t : Ty) (h : Bytes) (tg : Tag)
    (i : Bool) (child : TLV) :
    decBody cfg (.tagged true cls num t) (.cons h tg i [child]) = decTy cfg t child := by
  rw [decBody]

theorem decBody_explicit_prim (cfg : DecCfg) (cls : TagClass) (num : Nat) (t : Ty) (h : Bytes) (tg : Tag)
    (c : Bytes) : decBody cfg (.tagged true cls num t) (.prim h tg c) = .error .malformed := by
  rw [decBody]; intros; simp_all

theorem decBody_explicit_many (cfg : DecCfg) (cls : TagClass) (num : Nat) (t : Ty) (h : Bytes) (tg : Tag)
    (i : Bool) (cs : List TLV) (hl : cs.length ≠ 1) :
    decBody cfg (.tagged true cls num t) (.cons h tg i cs) = .error .malformed := by
  rw [decBody]; intro _ _ _ child hh
  simp only [TLV.cons.injEq] at hh
  rw [hh.2.2.2] at hl; simp at hl

/-- `ANY` under any number of taggings -/
def isAnyBase : Ty → Bool
  | .any => true
  | .tagged _ _ _ t => isAnyBase t
  | _ => false

mutual
theorem decTy_decG (cfg : DecCfg) : ∀ (t : Ty) (x : TLV), isAnyBase t = false →
    decTy cfg t x = decG cfg t.base true t.tags.reverse x
  | .prim p, x, _ => by
      simp only [Ty.tags, Ty.base, List.reverse_cons, List.reverse_nil, List.nil_append, decG,
        Bool.true_and, decTy, decBody, sameTag]
      by_cases h : x.tag.cls = .universal ∧ x.tag.num = p.univNum <;> simp [h]
  | .seq fs, x, _ => by
      simp only [Ty.tags, Ty.base, List.reverse_cons, List.reverse_nil, List.nil_append, decG,
        Bool.true_and, decTy, sameTag]
      by_cases h : x.tag.cls = .universal ∧ x.tag.num = 16 <;> simp [h]
  | .seqOf t, x, _ => by
      simp only [Ty.tags, Ty.base, List.reverse_cons, List.reverse_nil, List.nil_append, decG,
        Bool.true_and, decTy, sameTag]
      by_cases h : x.tag.cls = .universal ∧ x.tag.num = 16 <;> simp [h]
  | .set fs, x, _ => by
      simp only [Ty.tags, Ty.base, List.reverse_cons, List.reverse_nil, List.nil_append, decG,
        Bool.true_and, decTy, sameTag]
      by_cases h : x.tag.cls = .universal ∧ x.tag.num = 17 <;> simp [h]
  | .setOf t, x, _ => by
      simp only [Ty.tags, Ty.base, List.reverse_cons, List.reverse_nil, List.nil_append, decG,
        Bool.true_and, decTy, sameTag]
      by_cases h : x.tag.cls = .universal ∧ x.tag.num = 17 <;> simp [h]
  | .choice fs, x, _ => by simp [Ty.tags, Ty.base, decG]
  | .any, x, h => by simp [isAnyBase] at h
  | .tagged true cls num t, x, ha => by
      have ha' : isAnyBase t = false := by simpa [isAnyBase] using ha
      simp only [Ty.tags, Ty.base, List.reverse_append, List.reverse_cons, List.reverse_nil,
        List.nil_append, List.singleton_append]
      cases hr : t.tags.reverse with
      | nil =>
        -- `t` is an untagged CHOICE: the wrapper holds the alternative
        have htags : t.tags = [] := by simpa using congrArg List.reverse hr
        have ih := decTy_decG cfg t
        simp only [hr, decG, if_true] at ih
        simp only [decG, Bool.true_and, sameTag]
        cases x with
        | prim h tg c =>
          rw [decTy_explicit_prim, decBody_prim_choice cfg t h tg c ha' htags]
          simp
        | cons h tg i cs =>
          match cs with
          | [] =>
            rw [decTy_explicit_many _ _ _ _ _ _ _ _ (by simp), decBody_cons_choice cfg t h tg i [] ha' htags (by simp)]
            simp
          | [child] =>
            rw [decTy_explicit_one, decBody_single_choice cfg t h tg i child ha' htags, ih child ha']
            simp only [TLV.tag]
            by_cases hs : tg.cls = cls ∧ tg.num = num <;> simp [hs]
          | a :: b :: r =>
            rw [decTy_explicit_many _ _ _ _ _ _ _ _ (by simp),
              decBody_cons_choice cfg t h tg i (a :: b :: r) ha' htags (by simp)]
            simp
      | cons o rest =>
        have ih := decTy_decG cfg t
        simp only [hr] at ih
        simp only [decG, Bool.true_and, sameTag]
        cases x with
        | prim h tg c => rw [decTy_explicit_prim]
        | cons h tg i cs =>
          match cs with
          | [] => rw [decTy_explicit_many _ _ _ _ _ _ _ _ (by simp)]
          | [child] =>
            rw [decTy_explicit_one, ih child ha']
            by_cases hs : tg.cls = cls ∧ tg.num = num <;> simp [hs]
          | a :: b :: r => rw [decTy_explicit_many _ _ _ _ _ _ _ _ (by simp)]
  | .tagged false cls num t, x, ha => by
      have ha' : isAnyBase t = false := by simpa [isAnyBase] using ha
      simp only [Ty.tags, Ty.base, decTy]
      cases hr : t.tags.reverse with
      | nil =>
        have htags : t.tags = [] := by simpa using congrArg List.reverse hr
        rw [htags, tagImplicitly_reverse_nil]
        have ih := decBody_decG cfg t x ha'
        simp only [hr, decG, Bool.false_eq_true, if_false] at ih
        simp only [decG, Bool.true_and, sameTag]
        by_cases hs : x.tag.cls = cls ∧ x.tag.num = num <;> simp [hs, ih]
      | cons o rest =>
        rw [tagImplicitly_reverse_cons _ o rest cls false num hr]
        rw [decG_head cfg t.base _ o rest x]
        have ih := decBody_decG cfg t x ha'
        simp only [hr] at ih
        simp only [sameTag]
        by_cases hs : x.tag.cls = cls ∧ x.tag.num = num <;> simp [hs, ih]
theorem decBody_decG (cfg : DecCfg) : ∀ (t : Ty) (x : TLV), isAnyBase t = false →
    decBody cfg t x = decG cfg t.base false t.tags.reverse x
  | .prim p, x, _ => by simp [Ty.tags, Ty.base, decG]
  | .seq fs, x, _ => by simp [Ty.tags, Ty.base, decG]
  | .seqOf t, x, _ => by simp [Ty.tags, Ty.base, decG]
  | .set fs, x, _ => by simp [Ty.tags, Ty.base, decG]
  | .setOf t, x, _ => by simp [Ty.tags, Ty.base, decG]
  | .choice fs, x, _ => by simp [Ty.tags, Ty.base, decG]
  | .any, x, h => by simp [isAnyBase] at h
  | .tagged true cls num t, x, ha => by
      have ha' : isAnyBase t = false := by simpa [isAnyBase] using ha
      simp only [Ty.tags, Ty.base, List.reverse_append, List.reverse_cons, List.reverse_nil,
        List.nil_append, List.singleton_append]
      cases hr : t.tags.reverse with
      | nil =>
        have htags : t.tags = [] := by simpa using congrArg List.reverse hr
        have ih := decTy_decG cfg t
        simp only [hr, decG, if_true] at ih
        simp only [decG, Bool.false_and, Bool.false_eq_true, if_false]
        cases x with
        | prim h tg c => rw [decBody_explicit_prim, decBody_prim_choice cfg t h tg c ha' htags]
        | cons h tg i cs =>
          match cs with
          | [] => rw [decBody_explicit_many _ _ _ _ _ _ _ _ (by simp), decBody_cons_choice cfg t h tg i [] ha' htags (by simp)]
          | [child] => rw [decBody_explicit_one, decBody_single_choice cfg t h tg i child ha' htags, ih child ha']
          | a :: b :: r =>
            rw [decBody_explicit_many _ _ _ _ _ _ _ _ (by simp),
              decBody_cons_choice cfg t h tg i (a :: b :: r) ha' htags (by simp)]
      | cons o rest =>
        have ih := decTy_decG cfg t
        simp only [hr] at ih
        simp only [decG, Bool.false_and, Bool.false_eq_true, if_false]
        cases x with
        | prim h tg c => rw [decBody_explicit_prim]
        | cons h tg i cs =>
          match cs with
          | [] => rw [decBody_explicit_many _ _ _ _ _ _ _ _ (by simp)]
          | [child] => rw [decBody_explicit_one, ih child ha']
          | a :: b :: r => rw [decBody_explicit_many _ _ _ _ _ _ _ _ (by simp)]
  | .tagged false cls num t, x, ha => by
      have ha' : isAnyBase t = false := by simpa [isAnyBase] using ha
      simp only [Ty.tags, Ty.base, decBody]
      have ih := decBody_decG cfg t x ha'
      cases hr : t.tags.reverse with
      | nil =>
        have htags : t.tags = [] := by simpa using congrArg List.reverse hr
        rw [htags, tagImplicitly_reverse_nil]
        simp only [hr, decG, Bool.false_eq_true, if_false] at ih
        simp [decG, ih]
      | cons o rest =>
        rw [tagImplicitly_reverse_cons _ o rest cls false num hr]
        simp only [hr] at ih
        rw [ih]
        cases rest with
        | nil => simp [decG]
        | cons o' rest' =>
          cases x with
          | prim h tg c => simp [decG]
          | cons h tg i cs =>
            match cs with
            | [] => simp [decG]
            | [child] => simp [decG]
            | _ :: _ :: _ => simp [decG]
/-- an untagged type with empty tag set is an (untagged) CHOICE: its body on a primitive element fails -/
theorem decBody_prim_choice (cfg : DecCfg) : ∀ (t : Ty) (h : Bytes) (tg : Tag) (c : Bytes),
    isAnyBase t = false → t.tags = [] → decBody cfg t.base (.prim h tg c) = .error .malformed
  | .choice fs, h, tg, c, _, _ => by simp [Ty.base, decBody]
  | .any, _, _, _, ha, _ => by simp [isAnyBase] at ha
  | .prim p, _, _, _, _, ht => by simp [Ty.tags] at ht
  | .seq _, _, _, _, _, ht => by simp [Ty.tags] at ht
  | .seqOf _, _, _, _, _, ht => by simp [Ty.tags] at ht
  | .set _, _, _, _, _, ht => by simp [Ty.tags] at ht
  | .setOf _, _, _, _, _, ht => by simp [Ty.tags] at ht
  | .tagged true _ _ t, _, _, _, _, ht => by simp [Ty.tags] at ht
  | .tagged false cls num t, _, _, _, _, ht => by
      simp only [Ty.tags, TagSet.tagImplicitly] at ht
      split at ht <;> simp at ht
theorem decBody_cons_choice (cfg : DecCfg) : ∀ (t : Ty) (h : Bytes) (tg : Tag) (i : Bool) (cs : List TLV),
    isAnyBase t = false → t.tags = [] → cs.length ≠ 1 →
    decBody cfg t.base (.cons h tg i cs) = .error .malformed
  | .choice fs, h, tg, i, cs, _, _, hl => by
      match cs, hl with
      | [], _ => simp [Ty.base, decBody]
      | [_], hl => simp at hl
      | _ :: _ :: _, _ => simp [Ty.base, decBody]
  | .any, _, _, _, _, ha, _, _ => by simp [isAnyBase] at ha
  | .prim p, _, _, _, _, _, ht, _ => by simp [Ty.tags] at ht
  | .seq _, _, _, _, _, _, ht, _ => by simp [Ty.tags] at ht
  | .seqOf _, _, _, _, _, _, ht, _ => by simp [Ty.tags] at ht
  | .set _, _, _, _, _, _, ht, _ => by simp [Ty.tags] at ht
  | .setOf _, _, _, _, _, _, ht, _ => by simp [Ty.tags] at ht
  | .tagged true _ _ t, _, _, _, _, _, ht, _ => by simp [Ty.tags] at ht
  | .tagged false cls num t, _, _, _, _, _, ht, _ => by
      simp only [Ty.tags, TagSet.tagImplicitly] at ht
      split at ht <;> simp at ht
theorem decBody_single_choice (cfg : DecCfg) : ∀ (t : Ty) (h : Bytes) (tg : Tag) (i : Bool) (child : TLV),
    isAnyBase t = false → t.tags = [] →
    decBody cfg t.base (.cons h tg i [child]) = decTy cfg t.base child
  | .choice fs, h, tg, i, child, _, _ => by simp [Ty.base, decBody, decTy]
  | .any, _, _, _, _, ha, _ => by simp [isAnyBase] at ha
  | .prim p, _, _, _, _, _, ht => by simp [Ty.tags] at ht
  | .seq _, _, _, _, _, _, ht => by simp [Ty.tags] at ht
  | .seqOf _, _, _, _, _, _, ht => by simp [Ty.tags] at ht
  | .set _, _, _, _, _, _, ht => by simp [Ty.tags] at ht
  | .setOf _, _, _, _, _, _, ht => by simp [Ty.tags] at ht
  | .tagged true _ _ t, _, _, _, _, _, ht => by simp [Ty.tags] at ht
  | .tagged false cls num t, _, _, _, _, _, ht => by
      simp only [Ty.tags, TagSet.tagImplicitly] at ht
      split at ht <;> simp at ht
end

end Asn1
