/-
  Proofs.OpenType — round trip of a record with an open type field (C18): the typed inner value is
  encoded, goes into the ANY field (untagged / IMPLICIT / EXPLICIT), the record is decoded, the
  field holds exactly the inner encoding, and decoding that with the mapped type gives the inner value.
-/
import Asn1.OpenType
import Proofs.Codec
import Proofs.AnyOk

namespace Asn1

/-- the field's own tag is not the end-of-octets tag; EXPLICIT refuses UNIVERSAL (as `Ty.WF`) -/
def AnyTag.ok : AnyTag → Bool
  | .none => true
  | .implicit c n => c != .universal || n != 0
  | .explicit c _ => c != .universal

/-- what is known of an encoded element (as `GoodS`, without the typing part) -/
structure Elem (dm : Bool) (x : TLV) : Prop where
  wf : x.WF
  notEoo : NotEoo x.ser
  allDef : dm = true → x.allDef = true

theorem wireTag_notEoo (c : TagClass) (k : Bool) (n : Nat) (ic : Bool) (h : (c != .universal || n != 0) = true) :
    (wireTag ⟨c, k, n⟩ ic).cls ≠ .universal ∨ (wireTag ⟨c, k, n⟩ ic).num ≠ 0 ∨ (wireTag ⟨c, k, n⟩ ic).constructed = true := by
  simp only [wireTag]
  by_cases hc : c = .universal
  · subst hc
    right; left
    simpa using h
  · exact Or.inl hc

/-- **the ANY field**: a complete element `x` put into the field comes back as exactly `x.ser` -/
theorem any_field (cfg : EncCfg) (dcfg : DecCfg) (o : EncOpts) (hi : o.ifNotEmpty = false) (a : AnyTag) (ha : a.ok = true)
    (x : TLV) (hx : Elem o.defMode x) (hany : x.anyOk = true) (b : Bytes)
    (h : finishItem cfg o a.ty (encValue cfg o a.ty (.any x.ser)) = .ok b) :
    ∃ y, b = y.ser ∧ Elem o.defMode y ∧ decTy dcfg a.ty y = .ok (.any x.ser) := by
  cases a with
  | none =>
    simp only [AnyTag.ty, encValue, finishItem, Ty.tags, List.isEmpty_nil, if_true, Except.ok.injEq] at h
    subst h
    exact ⟨x, rfl, hx, by simp [AnyTag.ty, decTy, hany]⟩
  | implicit c n =>
    have htags : (Ty.tagged false c n .any).tags = [⟨c, false, n⟩] := by
      simp [Ty.tags, TagSet.tagImplicitly]
    simp only [AnyTag.ty, encValue, finishItem, htags, List.isEmpty_cons, Bool.false_eq_true, if_false, hi,
      Bool.and_false, Ty.base, supportsIndef] at h
    simp only [AnyTag.ok] at ha
    cases hd : o.defMode with
    | true =>
      rw [hd] at h
      simp only [Bool.not_true] at h
      rw [wrapTags_prim true true ⟨c, false, n⟩ [] x.ser (by simp) (Or.inl rfl)] at h
      simp only [wrapAll, wrapRest] at h
      cases hp : primNode ⟨c, false, n⟩ x.ser with
      | error e => rw [hp] at h; simp [Except.map] at h
      | ok y =>
        rw [hp] at h
        simp only [Except.map, Except.ok.injEq] at h
        have hw := primNode_wf _ _ y rfl hp
        have hy : ∃ hdr, y = .prim hdr (wireTag ⟨c, false, n⟩ false) x.ser := by
          unfold primNode at hp
          cases hl : encodeLength x.ser.length with
          | none => rw [hl] at hp; simp at hp
          | some l => rw [hl] at hp; simp only [Except.ok.injEq] at hp; exact ⟨_, hp.symm⟩
        obtain ⟨hdr, rfl⟩ := hy
        refine ⟨_, h.symm, ⟨hw, notEoo_of_tag _ hw (wireTag_notEoo c false n false ha), fun _ => by simp [TLV.allDef]⟩, ?_⟩
        simp [AnyTag.ty, decTy, decBody, TLV.tag, wireTag]
    | false =>
      rw [hd] at h
      simp only [Bool.not_false] at h
      have hs : x.ser = serList [x] := (serList_single x).symm
      rw [hs, wrapTags_cons true false ⟨c, false, n⟩ [] [x] (by simp) (Or.inr rfl)] at h
      simp only [wrapAll, wrapRest, Bool.not_false] at h
      cases hp : consNode ⟨c, false, n⟩ true [x] with
      | error e => rw [hp] at h; simp [Except.map] at h
      | ok y =>
        rw [hp] at h
        simp only [Except.map, Except.ok.injEq] at h
        have hw := consNode_wf _ _ _ y (by simp [WFs, hx.wf]) (fun _ => by simp [NoEooL, hx.notEoo]) hp
        obtain ⟨_, hdr, rfl⟩ := consNode_tag _ _ _ y hp
        refine ⟨_, h.symm, ⟨hw, notEoo_of_tag _ hw (wireTag_notEoo c false n true ha), fun hc => by simp at hc⟩, ?_⟩
        simp [AnyTag.ty, decTy, decBody, TLV.tag, wireTag, anyOkL, hany, serList_single]
  | explicit c n =>
    have htags : (Ty.tagged true c n .any).tags = [⟨c, true, n⟩] := by simp [Ty.tags]
    simp only [AnyTag.ty, encValue, finishItem, htags, List.isEmpty_cons, Bool.false_eq_true, if_false, hi,
      Bool.and_false, Ty.base, supportsIndef] at h
    simp only [AnyTag.ok] at ha
    have ha' : (c != .universal || n != 0) = true := by simp [ha]
    cases hd : o.defMode with
    | true =>
      rw [hd] at h
      simp only [Bool.not_true, wrapTags, Bool.not_false, Bool.and_self, if_true, encLen, Bool.false_and,
        Bool.false_eq_true, if_false] at h
      cases hl : encodeLength x.ser.length with
      | none => rw [hl] at h; simp at h
      | some l =>
        rw [hl] at h
        simp only [List.append_nil, Except.ok.injEq] at h
        have hw : (TLV.cons (encodeTag ⟨c, true, n⟩ false ++ l) (wireTag ⟨c, true, n⟩ false) false [x]).WF := by
          refine ⟨?_, by simp [wireTag], by simp [WFs, hx.wf]⟩
          rw [serList_single]
          exact hdrOk_def _ false _ l hl
        refine ⟨_, ?_, ⟨hw, notEoo_of_tag _ hw (wireTag_notEoo c true n false ha'),
          fun _ => by simp [TLV.allDef, allDefL, hx.allDef hd]⟩, ?_⟩
        · rw [← h]; simp [TLV.ser, serList_single]
        · simp [AnyTag.ty, decTy, wireTag, hany]
    | false =>
      rw [hd] at h
      simp only [Bool.not_false] at h
      have hs : x.ser = serList [x] := (serList_single x).symm
      rw [hs, wrapTags_cons true false ⟨c, true, n⟩ [] [x] (by simp) (Or.inr rfl)] at h
      simp only [wrapAll, wrapRest, Bool.not_false] at h
      cases hp : consNode ⟨c, true, n⟩ true [x] with
      | error e => rw [hp] at h; simp [Except.map] at h
      | ok y =>
        rw [hp] at h
        simp only [Except.map, Except.ok.injEq] at h
        have hw := consNode_wf _ _ _ y (by simp [WFs, hx.wf]) (fun _ => by simp [NoEooL, hx.notEoo]) hp
        obtain ⟨_, hdr, rfl⟩ := consNode_tag _ _ _ y hp
        refine ⟨_, h.symm, ⟨hw, notEoo_of_tag _ hw (wireTag_notEoo c true n true ha'), fun hc => by simp at hc⟩, ?_⟩
        simp [AnyTag.ty, decTy, wireTag, hany]

theorem elem_of_goodS {pf : Profile} {dm : Bool} {t : Ty} {v : Val} {b : Bytes} (h : GoodS pf dm t v b) :
    ∃ x, b = x.ser ∧ Elem dm x ∧ IsBer pf t v x := by
  obtain ⟨x, hb, hw, hn, hd, hber⟩ := h
  exact ⟨x, hb, ⟨hw, hn, fun h => lenForm_allDef hd h⟩, hber⟩

theorem with_ine (o : EncOpts) (hi : o.ifNotEmpty = false) : { o with ifNotEmpty := false } = o := by
  cases o; simp_all

/-- **the record**: governing value and ANY field, encoded and decoded with the container type -/
theorem open_seq_roundtrip (cfg : EncCfg) (dcfg : DecCfg) (pf : Profile) (dm : Bool) (mc : Nat)
    (hR : EncRegion cfg pf mc) (hC : Compat pf dcfg) (hparse : dm = true ∨ dcfg.parse.allowIndef = true)
    (idTy : Ty) (g : Val) (hreg : idTy.reg true cfg dm = true) (hwf : idTy.WF = true)
    (hty : HasType idTy g = true) (hn : noE3 cfg.seqOmitEmpty idTy g = true)
    (a : AnyTag) (ha : a.ok = true) (x : TLV) (hx : Elem dm x) (hany : x.anyOk = true) (b tail : Bytes)
    (h : finishItem cfg (mkO dm mc false) (openSeqTy idTy a)
          (encValue cfg (mkO dm mc false) (openSeqTy idTy a) (.seq [g, .any x.ser])) = .ok b) :
    ∃ g', decodeOne dcfg (openSeqTy idTy a) (b ++ tail) = .ok (.seq [g', .any x.ser], tail) ∧ VEq idTy g g' := by
  -- the two members
  have hskip : skipField .req g = false := by cases g <;> rfl
  have hskip2 : skipField .req (.any x.ser) = false := rfl
  have ho' : (if cfg.seqOmitEmpty = true then { mkO dm mc false with ifNotEmpty := FKind.isOpt .req } else mkO dm mc false)
      = mkO dm mc false := by
    cases cfg.seqOmitEmpty <;> rfl
  simp only [openSeqTy, encValue, encFields, hskip, hskip2, Bool.false_eq_true, if_false, ho'] at h
  cases h1 : finishItem cfg (mkO dm mc false) idTy (encValue cfg (mkO dm mc false) idTy g) with
  | error e => rw [h1] at h; simp [finishItem, Except.map] at h
  | ok b1 =>
    rw [h1] at h
    cases h2 : finishItem cfg (mkO dm mc false) a.ty (encValue cfg (mkO dm mc false) a.ty (.any x.ser)) with
    | error e => rw [h2] at h; simp [finishItem, Except.map] at h
    | ok b2 =>
      rw [h2] at h
      obtain ⟨x1, hb1, hx1, hber1⟩ := elem_of_goodS (encode_spec cfg pf dm mc hR false rfl idTy g b1 hreg hwf hty hn h1)
      obtain ⟨x2, hb2, hx2, hdec2⟩ := any_field cfg dcfg (mkO dm mc false) rfl a ha x hx hany b2 h2
      obtain ⟨g', hd1, hv1, _⟩ := complete_ty pf dcfg hC idTy g x1 (reg_plain true cfg dm idTy hreg) hwf hber1
      -- the SEQUENCE element around them
      have hsub : b1 ++ (b2 ++ []) = serList [x1, x2] := by simp [serList, hb1, hb2]
      simp only [Except.map, finishItem, Ty.tags, List.isEmpty_cons, Bool.false_eq_true, if_false, Bool.and_false,
        Ty.base, supportsIndef] at h
      rw [hsub, wrapTags_cons true dm ⟨.universal, true, 16⟩ [] [x1, x2] (by simp) (by
        cases dm <;> simp)] at h
      simp only [wrapAll, wrapRest] at h
      cases hp : consNode ⟨.universal, true, 16⟩ (!dm) [x1, x2] with
      | error e => rw [hp] at h; simp [Except.map] at h
      | ok y =>
        rw [hp] at h
        simp only [Except.map, Except.ok.injEq] at h
        have hw := consNode_wf _ _ _ y (by simp [WFs, hx1.wf, hx2.wf]) (fun _ => by simp [NoEooL, hx1.notEoo, hx2.notEoo]) hp
        obtain ⟨_, hdr, rfl⟩ := consNode_tag _ _ _ y hp
        have hok : (TLV.cons hdr (wireTag ⟨.universal, true, 16⟩ true) (!dm) [x1, x2]).okFor dcfg.parse := by
          rcases hparse with hdm | hp'
          · right
            subst hdm
            simp [TLV.allDef, allDefL, hx1.allDef rfl, hx2.allDef rfl]
          · exact Or.inl hp'
        refine ⟨g', ?_, hv1⟩
        unfold decodeOne
        rw [← h, parseOne_ser dcfg.parse _ tail hw hok]
        simp [openSeqTy, decTy, decBody, decFields, TLV.tag, wireTag, hd1, hdec2, Except.map]

mutual
theorem reg_noEooTag (rl : Bool) (cfg : EncCfg) (dm : Bool) : ∀ (t : Ty), t.reg rl cfg dm = true → t.noEooTag = true
  | .prim p, _ => by simp [Ty.noEooTag]
  | .any, h => by simp [Ty.reg] at h
  | .seq fs, h => by simp only [Ty.reg] at h; simpa [Ty.noEooTag] using regF_noEooTag rl cfg dm fs h
  | .set fs, h => by simp only [Ty.reg] at h; simpa [Ty.noEooTag] using regF_noEooTag rl cfg dm fs h
  | .choice fs, h => by simp only [Ty.reg] at h; simpa [Ty.noEooTag] using regF_noEooTag rl cfg dm fs h
  | .seqOf t, h => by simp only [Ty.reg] at h; simpa [Ty.noEooTag] using reg_noEooTag rl cfg dm t h
  | .setOf t, h => by simp only [Ty.reg] at h; simpa [Ty.noEooTag] using reg_noEooTag rl cfg dm t h
  | .tagged _ c n t, h => by
      simp only [Ty.reg, Bool.and_eq_true] at h
      simp only [Ty.noEooTag, Bool.and_eq_true]
      exact ⟨h.1.1, reg_noEooTag rl cfg dm t h.2⟩
theorem regF_noEooTag (rl : Bool) (cfg : EncCfg) (dm : Bool) : ∀ (fs : Fields), Fields.reg rl cfg dm fs = true →
    Fields.noEooTag fs = true
  | .nil, _ => rfl
  | .cons _ t r, h => by
      simp only [Fields.reg, Bool.and_eq_true] at h
      simp [Fields.noEooTag, reg_noEooTag rl cfg dm t h.1, regF_noEooTag rl cfg dm r h.2]
end

/-- **open types round trip** (any encoder/decoder pair with a common profile, any mode, any tail) -/
theorem open_roundtrip (cfg : EncCfg) (dcfg : DecCfg) (pf : Profile) (o : EncOpts) (hi : o.ifNotEmpty = false)
    (hR : EncRegion cfg pf (cfg.fixedChunk.getD o.maxChunk)) (hC : Compat pf dcfg)
    (hparse : cfg.fixedDefMode.getD o.defMode = true ∨ dcfg.parse.allowIndef = true)
    (idTy : Ty) (g : Val) (hreg : idTy.reg true cfg (cfg.fixedDefMode.getD o.defMode) = true) (hwf : idTy.WF = true)
    (hty : HasType idTy g = true) (hn : noE3 cfg.seqOmitEmpty idTy g = true) (hid : ∀ g', VEq idTy g g' → g' = g)
    (a : AnyTag) (ha : a.ok = true)
    (ti : Ty) (w : Val) (hregi : ti.reg true cfg (cfg.fixedDefMode.getD o.defMode) = true) (hwfi : ti.WF = true)
    (htyi : HasType ti w = true) (hni : noE3 cfg.seqOmitEmpty ti w = true)
    (map : Val → Option Ty) (b tail : Bytes) (h : encodeOpen cfg o idTy a g ti w = .ok b) :
    ∃ chunk, encItem cfg o ti w = .ok chunk ∧
      decodeOpen dcfg idTy a map false (b ++ tail) = .ok (⟨g, chunk, none⟩, tail) ∧
      (map g = none → decodeOpen dcfg idTy a map true (b ++ tail) = .ok (⟨g, chunk, none⟩, tail)) ∧
      (map g = some ti → ∃ w', decodeOpen dcfg idTy a map true (b ++ tail) = .ok (⟨g, chunk, some w'⟩, tail) ∧ VEq ti w w') := by
  unfold encodeOpen at h
  rw [with_ine o hi] at h
  cases hc : encItem cfg o ti w with
  | error e => rw [hc] at h; simp at h
  | ok chunk =>
    rw [hc] at h
    simp only at h
    -- the inner encoding is one complete element no ANY refuses
    have hc' : finishItem cfg (mkO (cfg.fixedDefMode.getD o.defMode) (cfg.fixedChunk.getD o.maxChunk) false) ti
        (encValue cfg (mkO (cfg.fixedDefMode.getD o.defMode) (cfg.fixedChunk.getD o.maxChunk) false) ti w) = .ok chunk := by
      have : encItem cfg o ti w = .ok chunk := hc
      unfold encItem normOpts at this
      rw [hi] at this
      exact this
    obtain ⟨x, hcx, hx, hber⟩ := elem_of_goodS (encode_spec cfg pf _ _ hR false rfl ti w chunk hregi hwfi htyi hni hc')
    have hany : x.anyOk = true :=
      anyOk_ber pf ti w x (reg_plain true cfg _ ti hregi) (reg_noEooTag true cfg _ ti hregi) hber
    subst hcx
    have ho : finishItem cfg (mkO (cfg.fixedDefMode.getD o.defMode) (cfg.fixedChunk.getD o.maxChunk) false) (openSeqTy idTy a)
        (encValue cfg (mkO (cfg.fixedDefMode.getD o.defMode) (cfg.fixedChunk.getD o.maxChunk) false) (openSeqTy idTy a)
          (.seq [g, .any x.ser])) = .ok b := by
      unfold encItem normOpts at h
      rw [hi] at h
      exact h
    obtain ⟨g', hdec, hvg⟩ := open_seq_roundtrip cfg dcfg pf _ _ hR hC hparse idTy g hreg hwf hty hn a ha x hx hany b tail ho
    have hg : g' = g := hid g' hvg
    subst hg
    obtain ⟨w', hdi, hvi⟩ := codec_roundtrip cfg dcfg pf o hi hR hC hparse ti w x.ser [] hregi hwfi htyi hni hc
    rw [List.append_nil] at hdi
    refine ⟨x.ser, rfl, ?_, ?_, ?_⟩
    · simp [decodeOpen, hdec]
    · intro hm; simp [decodeOpen, hdec, hm]
    · intro hm
      exact ⟨w', by simp [decodeOpen, hdec, hm, hdi], hvi⟩

end Asn1
