/-
  Proofs.Placed — dispatch by tag, stated for decoded values that may differ from the encoded ones
  up to `VEq`, for DEFAULT members that are present although equal to their default, and for SET
  members in any order.
-/
import Asn1.BerSpec
import Proofs.Dispatch

namespace Asn1

/-- children of a record: `vs` are the values encoded, `ws` what the member decoders return -/
inductive Placed (P : Nat → Ty → Val → TLV → Val → Prop) :
    Nat → Fields → List Val → List TLV → List Val → Prop
  | nil {k} : Placed P k .nil [] [] []
  | skipOpt {k t rest vs cs ws} : Placed P (k + 1) rest vs cs ws →
      Placed P k (.cons .opt t rest) (.absent :: vs) cs (.absent :: ws)
  | skipDflt {k d t rest vs cs ws} : Placed P (k + 1) rest vs cs ws →
      Placed P k (.cons (.dflt d) t rest) (d :: vs) cs (d :: ws)
  | present {k kd t rest v vs c cs w ws} : P k t v c w → Placed P (k + 1) rest vs cs ws →
      Placed P k (.cons kd t rest) (v :: vs) (c :: cs) (w :: ws)

abbrev ElemDec (dcfg : DecCfg) : Nat → Ty → Val → TLV → Val → Prop :=
  fun _ t v c w => TagIn t c.tag ∧ decTy dcfg t c = .ok w ∧ VEq t v w ∧ w ≠ .absent

theorem veq_absent : ∀ (t : Ty), VEq t .absent .absent
  | .tagged _ _ _ t => by simp only [VEq]; exact veq_absent t
  | .prim _ => by simp [VEq]
  | .seq _ => by simp [VEq]
  | .set _ => by simp [VEq]
  | .seqOf _ => by simp [VEq]
  | .setOf _ => by simp [VEq]
  | .choice _ => by simp [VEq]
  | .any => by simp [VEq]

theorem all2_refl {α} {R : α → α → Prop} : ∀ (l : List α), (∀ a ∈ l, R a a) → All2 R l l
  | [], _ => trivial
  | a :: l, h => ⟨h a (by simp), all2_refl l (fun b hb => h b (by simp [hb]))⟩

mutual
theorem veq_refl : ∀ (t : Ty) (a : Val), HasType t a = true → VEq t a a
  | .tagged _ _ _ t, a, h => by
      simp only [VEq]; exact veq_refl t a (by simpa [HasType] using h)
  | .prim p, a, _ => by
      cases p <;> cases a <;> simp [VEq]
  | .any, a, _ => by simp [VEq]
  | .seq fs, a, h => by
      cases a <;> simp [HasType] at h
      case seq vs => simp only [VEq]; exact veqF_refl fs vs h
  | .set fs, a, h => by
      cases a <;> simp [HasType] at h
      case seq vs => simp only [VEq]; exact veqF_refl fs vs h
  | .seqOf t, a, h => by
      cases a <;> simp [HasType] at h
      case seqOf vs =>
        simp only [VEq]
        exact all2_refl vs (fun v hv => veq_refl t v (h v hv))
  | .setOf t, a, h => by
      cases a <;> simp [HasType] at h
      case seqOf vs =>
        simp only [VEq]
        exact ⟨vs, all2_refl vs (fun v hv => veq_refl t v (h v hv)), List.Perm.refl _⟩
  | .choice fs, a, h => by
      cases a <;> simp [HasType] at h
      case choice i w => simp only [VEq]; exact ⟨trivial, veqA_refl fs i w h⟩
theorem veqF_refl : ∀ (fs : Fields) (vs : List Val), HasFields fs vs = true → VEqFields fs vs vs
  | .nil, [], _ => trivial
  | .nil, _ :: _, h => by simp [HasFields] at h
  | .cons _ _ _, [], h => by simp [HasFields] at h
  | .cons kd t rest, v :: vs, h => by
      by_cases hv : v = .absent
      · subst hv
        have hr : HasFields rest vs = true := by
          cases kd <;> simp_all [HasFields, HasType_ne_absent]
        exact ⟨veq_absent t, veqF_refl rest vs hr⟩
      · have : HasType t v = true ∧ HasFields rest vs = true := by
          cases kd <;> cases v <;> simp_all [HasFields]
        exact ⟨veq_refl t v this.1, veqF_refl rest vs this.2⟩
theorem veqA_refl : ∀ (fs : Fields) (i : Nat) (w : Val), HasAlt fs i w = true → VEqAlt fs i w w
  | .nil, _, _, h => by simp [HasAlt] at h
  | .cons _ t _, 0, w, h => by simp only [VEqAlt]; exact veq_refl t w (by simpa [HasAlt] using h)
  | .cons _ _ r, i + 1, w, h => by simp only [VEqAlt]; exact veqA_refl r i w (by simpa [HasAlt] using h)
end

/-- the decoded record is the encoded one up to `VEq` -/
theorem placed_veq (dcfg : DecCfg) : ∀ {k fs vs cs ws}, Placed (ElemDec dcfg) k fs vs cs ws →
    Fields.WF fs = true → VEqFields fs vs ws := by
  intro k fs vs cs ws h
  induction h with
  | nil => intro _; trivial
  | @skipOpt k t rest vs cs ws _ ih =>
    intro hw
    exact ⟨veq_absent t, ih (by simp_all [Fields.WF])⟩
  | @skipDflt k d t rest vs cs ws _ ih =>
    intro hw
    simp only [Fields.WF, Bool.and_eq_true] at hw
    exact ⟨veq_refl t d hw.1.2, ih hw.2⟩
  | @present k kd t rest v vs c cs w ws hp _ ih =>
    intro hw
    exact ⟨hp.2.2.1, ih (by cases kd <;> simp_all [Fields.WF])⟩


/-! ### SEQUENCE -/

theorem seq_dispatch2 (dcfg : DecCfg) : ∀ {k fs vs cs ws}, Placed (ElemDec dcfg) k fs vs cs ws →
    seqDistinct fs = true →
    decFields dcfg fs cs = .ok ws ∧ (∀ c cs', cs = c :: cs' → InWindow fs c.tag) := by
  intro k fs vs cs ws h
  induction h with
  | nil => intro _; exact ⟨by simp [decFields], by intro c cs' h; simp at h⟩
  | @skipOpt k t rest vs cs ws _ ih =>
    intro hd
    simp only [seqDistinct, Bool.and_eq_true] at hd
    obtain ⟨ih1, ih2⟩ := ih hd.2
    constructor
    · cases cs with
      | nil => simp [decFields, ih1, Except.map]
      | cons c cs' =>
        have := windowFree_spec t rest c.tag hd.1 (ih2 c cs' rfl)
        simp [decFields, this, ih1, Except.map]
    · intro c cs' h; exact Or.inr (ih2 c cs' h)
  | @skipDflt k d t rest vs cs ws _ ih =>
    intro hd
    simp only [seqDistinct, Bool.and_eq_true] at hd
    obtain ⟨ih1, ih2⟩ := ih hd.2
    constructor
    · cases cs with
      | nil => simp [decFields, ih1, Except.map]
      | cons c cs' =>
        have := windowFree_spec t rest c.tag hd.1 (ih2 c cs' rfl)
        simp [decFields, this, ih1, Except.map]
    · intro c cs' h; exact Or.inr (ih2 c cs' h)
  | @present k kd t rest v vs c cs w ws hp _ ih =>
    intro hd
    have hdr : seqDistinct rest = true := by cases kd <;> simp_all [seqDistinct]
    obtain ⟨ih1, _⟩ := ih hdr
    obtain ⟨htag, hdec, _, _⟩ := hp
    have hacc := accepts_of_tagIn htag
    constructor
    · cases kd <;> simp [decFields, hacc, hdec, ih1, Except.map]
    · intro c' cs'' h
      simp only [List.cons.injEq] at h
      obtain ⟨rfl, _⟩ := h
      cases kd
      · exact htag
      · exact Or.inl htag
      · exact Or.inl htag

/-! ### SET, members in any order -/

theorem placed_mono {P Q : Nat → Ty → Val → TLV → Val → Prop} (fsAll : Fields)
    (hPQ : ∀ i kd t v c w, fsAll.get? i = some (kd, t) → P i t v c w → Q i t v c w) :
    ∀ {k suf vs cs ws}, Placed P k suf vs cs ws →
      (∀ j kd t, suf.get? j = some (kd, t) → fsAll.get? (k + j) = some (kd, t)) →
      Placed Q k suf vs cs ws := by
  intro k suf vs cs ws h
  induction h with
  | nil => intro _; exact .nil
  | @skipOpt k t rest vs cs ws _ ih =>
    intro hs
    exact .skipOpt (ih (fun j kd t h => by
      have := hs (j + 1) kd t (by simpa [Fields.get?] using h)
      rw [show k + 1 + j = k + (j + 1) by omega]; exact this))
  | @skipDflt k d t rest vs cs ws _ ih =>
    intro hs
    exact .skipDflt (ih (fun j kd t h => by
      have := hs (j + 1) kd t (by simpa [Fields.get?] using h)
      rw [show k + 1 + j = k + (j + 1) by omega]; exact this))
  | @present k kd t rest v vs c cs w ws hp _ ih =>
    intro hs
    refine .present (hPQ k kd t v c w (by simpa [Fields.get?] using hs 0 kd t (by simp [Fields.get?])) hp)
      (ih (fun j kd' t' h => by
        have := hs (j + 1) kd' t' (by simpa [Fields.get?] using h)
        rw [show k + 1 + j = k + (j + 1) by omega]; exact this))

abbrev MemberAt (dcfg : DecCfg) (fsAll : Fields) : Nat → Ty → Val → TLV → Val → Prop :=
  fun k _ _ c w => decMember dcfg fsAll 0 c = .ok (k, w) ∧ w ≠ .absent

/-- declared order: every member lands in its slot -/
theorem set_declared (dcfg : DecCfg) (fsAll : Fields) : ∀ {k suf vs ms ws},
    Placed (MemberAt dcfg fsAll) k suf vs ms ws → ∀ (pre : List Val), pre.length = k →
    decSet dcfg fsAll ms (pre ++ defaultsOf suf) = .ok (pre ++ ws) := by
  intro k suf vs ms ws h
  induction h with
  | nil => intro pre _; simp [decSet, defaultsOf]
  | @skipOpt k t rest vs cs ws _ ih =>
    intro pre hl
    have := ih (pre ++ [.absent]) (by simp [hl])
    simpa [defaultsOf] using this
  | @skipDflt k d t rest vs cs ws _ ih =>
    intro pre hl
    have := ih (pre ++ [d]) (by simp [hl])
    simpa [defaultsOf] using this
  | @present k kd t rest v vs c cs w ws hp _ ih =>
    intro pre hl
    have hd0 : ∃ d0, defaultsOf (.cons kd t rest) = d0 :: defaultsOf rest := by
      cases kd <;> simp [defaultsOf]
    obtain ⟨d0, hd0⟩ := hd0
    have := ih (pre ++ [w]) (by simp [hl])
    rw [hd0]
    simp only [decSet, hp.1]
    rw [← hl, setAt_append]
    simpa using this

def updMember (dcfg : DecCfg) (fs : Fields) (acc : List Val) (c : TLV) : List Val :=
  match decMember dcfg fs 0 c with
  | .ok (i, w) => setAt acc i w
  | .error _ => acc

def idxMember (dcfg : DecCfg) (fs : Fields) (c : TLV) : Nat :=
  match decMember dcfg fs 0 c with
  | .ok (i, _) => i
  | .error _ => 0

theorem decSet_foldl (dcfg : DecCfg) (fs : Fields) : ∀ (cs : List TLV) (acc : List Val),
    (∀ c ∈ cs, ∃ i w, decMember dcfg fs 0 c = .ok (i, w)) →
    decSet dcfg fs cs acc = .ok (cs.foldl (updMember dcfg fs) acc)
  | [], acc, _ => by simp [decSet]
  | c :: cs, acc, h => by
      obtain ⟨i, w, hc⟩ := h c (by simp)
      simp only [decSet, hc, List.foldl_cons, updMember]
      exact decSet_foldl dcfg fs cs _ (fun c' hc' => h c' (by simp [hc']))

theorem setAt_comm : ∀ (z : List Val) (i j : Nat) (a b : Val), i ≠ j →
    setAt (setAt z i a) j b = setAt (setAt z j b) i a
  | [], _, _, _, _, _ => by simp [setAt]
  | x :: z, 0, 0, _, _, h => absurd rfl h
  | x :: z, 0, j + 1, _, _, _ => by simp [setAt]
  | x :: z, i + 1, 0, _, _, _ => by simp [setAt]
  | x :: z, i + 1, j + 1, a, b, h => by
      simp only [setAt, List.cons.injEq, true_and]
      exact setAt_comm z i j a b (by omega)

theorem placed_indices (dcfg : DecCfg) (fsAll : Fields) : ∀ {k suf vs ms ws},
    Placed (MemberAt dcfg fsAll) k suf vs ms ws →
    (∀ c ∈ ms, ∃ i w, decMember dcfg fsAll 0 c = .ok (i, w) ∧ k ≤ i) ∧
      ms.Pairwise (fun x y => idxMember dcfg fsAll x < idxMember dcfg fsAll y) := by
  intro k suf vs ms ws h
  induction h with
  | nil => exact ⟨by intro c hc; simp at hc, List.Pairwise.nil⟩
  | skipOpt _ ih =>
    exact ⟨fun c hc => by obtain ⟨i, w, h1, h2⟩ := ih.1 c hc; exact ⟨i, w, h1, by omega⟩, ih.2⟩
  | skipDflt _ ih =>
    exact ⟨fun c hc => by obtain ⟨i, w, h1, h2⟩ := ih.1 c hc; exact ⟨i, w, h1, by omega⟩, ih.2⟩
  | @present k kd t rest v vs c cs w ws hp _ ih =>
    constructor
    · intro c' hc'
      rcases List.mem_cons.mp hc' with rfl | hc'
      · exact ⟨k, w, hp.1, Nat.le_refl _⟩
      · obtain ⟨i, w', h1, h2⟩ := ih.1 c' hc'; exact ⟨i, w', h1, by omega⟩
    · rw [List.pairwise_cons]
      refine ⟨fun c' hc' => ?_, ih.2⟩
      obtain ⟨i, w', h1, h2⟩ := ih.1 c' hc'
      simp only [idxMember, hp.1, h1]
      omega

theorem allPresent_placed {P : Nat → Ty → Val → TLV → Val → Prop}
    (hP : ∀ k t v c w, P k t v c w → w ≠ .absent) : ∀ {k fs vs cs ws}, Placed P k fs vs cs ws →
    allPresent fs ws = true := by
  intro k fs vs cs ws h
  induction h with
  | nil => simp [allPresent]
  | skipOpt _ ih => simp [allPresent, ih]
  | @skipDflt k d t rest vs cs ws _ ih => cases d <;> simp [allPresent, ih]
  | @present k kd t rest v vs c cs w ws hp _ ih =>
    have := hP _ _ _ _ _ hp
    cases kd <;> cases w <;> simp_all [allPresent]

/-- **SET**: lookup by tag recovers every member from any permutation of the elements -/
theorem set_dispatch2 (dcfg : DecCfg) (fs : Fields) (vs : List Val) (ms cs : List TLV) (ws : List Val)
    (hm : Placed (ElemDec dcfg) 0 fs vs ms ws) (hp : cs.Perm ms) (hd : allDistinct fs = true) :
    decSet dcfg fs cs (defaultsOf fs) = .ok ws ∧ allPresent fs ws = true := by
  have hm' : Placed (MemberAt dcfg fs) 0 fs vs ms ws := by
    refine placed_mono fs ?_ hm (by intro j kd t h; simpa using h)
    intro i kd t v c w hg ⟨htag, hdec, _, hna⟩
    refine ⟨?_, hna⟩
    rw [member_dispatch dcfg c fs i 0 kd t hd hg htag, hdec]
    simp [Except.map]
  obtain ⟨hall, hpw⟩ := placed_indices dcfg fs hm'
  have hdecl := set_declared dcfg fs hm' [] rfl
  simp only [List.nil_append] at hdecl
  have hallcs : ∀ c ∈ cs, ∃ i w, decMember dcfg fs 0 c = .ok (i, w) := by
    intro c hc
    obtain ⟨i, w, h1, _⟩ := hall c (hp.subset hc)
    exact ⟨i, w, h1⟩
  rw [decSet_foldl dcfg fs ms _ (fun c hc => by obtain ⟨i, w, h1, _⟩ := hall c hc; exact ⟨i, w, h1⟩)] at hdecl
  rw [decSet_foldl dcfg fs cs _ hallcs]
  -- distinct elements go to distinct slots
  have hR : ∀ ⦃x⦄, x ∈ ms → ∀ ⦃y⦄, y ∈ ms →
      (idxMember dcfg fs x ≠ idxMember dcfg fs y ∨ x = y) := by
    apply List.Pairwise.forall_of_forall_of_flip
    · intro x _; exact Or.inr rfl
    · exact hpw.imp (fun h => Or.inl (by omega))
    · exact hpw.imp (fun h => Or.inl (by omega))
  have hfold : cs.foldl (updMember dcfg fs) (defaultsOf fs) = ms.foldl (updMember dcfg fs) (defaultsOf fs) := by
    apply List.Perm.foldl_eq' hp
    intro x hx y hy z
    obtain ⟨i, w, hxi, _⟩ := hall x (hp.subset hx)
    obtain ⟨j, w', hyj, _⟩ := hall y (hp.subset hy)
    rcases hR (hp.subset hx) (hp.subset hy) with hne | rfl
    · simp only [idxMember, hxi, hyj] at hne
      simp only [updMember, hxi, hyj]
      exact setAt_comm z i j w w' hne
    · rfl
  rw [hfold]
  exact ⟨hdecl, allPresent_placed (fun _ _ _ _ _ h => h.2) hm'⟩

/-! ### lists -/

theorem all2_perm {α β} {R : α → β → Prop} : ∀ {ws vs : List α}, ws.Perm vs → ∀ {ws' : List β},
    All2 R ws ws' → ∃ cs', All2 R vs cs' ∧ cs'.Perm ws' := by
  intro ws vs hp
  induction hp with
  | nil => intro ws' h; exact ⟨ws', h, List.Perm.refl _⟩
  | @cons x l₁ l₂ _ ih =>
    intro ws' h
    cases ws' with
    | nil => simp [All2] at h
    | cons b bs =>
      obtain ⟨cs', h1, h2⟩ := ih h.2
      exact ⟨b :: cs', ⟨h.1, h1⟩, h2.cons b⟩
  | swap x y l =>
    intro ws' h
    match ws', h with
    | b1 :: b2 :: bs, h => exact ⟨b2 :: b1 :: bs, ⟨h.2.1, h.1, h.2.2⟩, List.Perm.swap b1 b2 bs⟩
  | trans _ _ ih1 ih2 =>
    intro ws' h
    obtain ⟨cs1, h1, p1⟩ := ih1 h
    obtain ⟨cs2, h2, p2⟩ := ih2 h1
    exact ⟨cs2, h2, p2.trans p1⟩

end Asn1
