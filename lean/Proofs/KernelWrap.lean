/-
  Proofs.KernelWrap — the header loop of `AbstractItemEncoder.encode` (one identifier + length per tag of the tag
  set, innermost first, end-of-octets after an indefinite header; translated from the source into `GenK.wrapTags`,
  calling the translated `encodeTag` / `encodeLength`) computes the model's `wrapTags`.
-/
import Proofs.KernelLen

namespace Asn1.Kernels
open Py

/-- the loop's answer in terms of the model: `Sum.inr` (fell through) with the wrapped octets -/
def liftWrap (isCons isOct : Bool) : Except Err Bytes → Py.M (Sum Py.Tup (Py.Tup × Bool × Bool))
  | .ok b => .ok (Sum.inr (bytesInts b, isCons, isOct))
  | .error _ => .error (.lib "PyAsn1Error")

theorem len_bytesInts (b : Bytes) : Py.len (bytesInts b) = ((b.length : Nat) : Int) := len_bytes b

/-- one pass of the loop body after the first (`idx ≥ 1`), and the rest -/
theorem wrapTags_loop1_later (ine indefOk defMode isCons isOct : Bool) :
    ∀ (tags : List Tag) (idx : Int) (sub : Bytes), idx ≥ 1 →
      GenK.wrapTags_loop1 ine indefOk defMode (tags.map tagTriple) idx (bytesInts sub) isCons isOct =
        liftWrap isCons isOct (Asn1.wrapTags indefOk defMode isCons false tags sub)
  | [], idx, sub, _ => rfl
  | t :: ts, idx, sub, hidx => by
    have hidx0 : Py.truthy idx = true := by
      unfold Py.truthy; simp; omega
    unfold GenK.wrapTags_loop1 Asn1.wrapTags
    simp only [List.map_cons, hidx0, Bool.not_true, Bool.false_eq_true, if_false, encodeTag_kernel, len_bytesInts,
      encodeLength_kernel, bind, Except.bind, pure, Except.pure, Bool.false_and]
    cases hl : encLen indefOk sub.length defMode with
    | error e => simp [liftLen, liftWrap]
    | ok l =>
      simp only [liftLen]
      have ih := wrapTags_loop1_later ine indefOk defMode isCons isOct ts (idx + 1)
      cases isOct <;> cases defMode <;>
        simp only [Bool.not_true, Bool.not_false, if_true, if_false, Bool.false_eq_true, ← bytesInts_append, List.append_assoc] <;>
        first
          | (rw [show ([(0 : Int), (0 : Int)] : Py.Tup) = bytesInts [0, 0] from rfl, ← bytesInts_append,
                 ih _ (by omega)]; simp [Asn1.wrapTags.eooBytesE, List.append_assoc])
          | (rw [ih _ (by omega)]; simp [List.append_assoc])

/-- **the header loop of `AbstractItemEncoder.encode` as it is in the source** (with `encodeValue`'s answer
    `(substrate, isConstructed, isOctets)` as arguments) **computes the model's `wrapTags`**, for every non-empty tag
    set, every substrate, `defMode`, `supportIndefLenMode` and `ifNotEmpty`: the early return for an empty constructed
    value under `ifNotEmpty`, the definite form forced on a primitive base tag only, one identifier and one length per
    tag, end-of-octets exactly after a header written in the indefinite form -/
theorem wrapTags_kernel (indefOk ine defMode isCons isOct : Bool) (t : Tag) (ts : List Tag) (sub : Bytes) :
    GenK.wrapTags indefOk ine ((t :: ts).map tagTriple) defMode (bytesInts sub) isCons isOct =
      liftLen (if sub.isEmpty && isCons && ine then .ok [] else Asn1.wrapTags indefOk defMode isCons true (t :: ts) sub) := by
  unfold GenK.wrapTags GenK.wrapTags_loop1 Asn1.wrapTags
  have h0 : Py.truthy (0 : Int) = false := rfl
  simp only [List.map_cons, h0, Bool.not_false, if_true, bytesInts_isEmpty, Bool.not_not, bind, Except.bind, pure, Except.pure]
  by_cases hearly : (sub.isEmpty && isCons && ine) = true
  · have hs : sub = [] := by
      simp only [Bool.and_eq_true, List.isEmpty_iff] at hearly; exact hearly.1.1
    subst hs
    simp only [hearly, if_true, liftLen]
  · simp only [hearly, Bool.false_eq_true, if_false, encodeTag_kernel, len_bytesInts, encodeLength_kernel, Bool.true_and]
    have hov : (if (!isCons) = true then (Except.ok true : Py.M Bool) else Except.ok defMode) =
        Except.ok (if !isCons then true else defMode) := by cases isCons <;> rfl
    rw [hov]
    simp only []
    generalize hdo : (if !isCons then true else defMode) = dov
    cases hl : encLen indefOk sub.length dov with
    | error e => simp [liftLen]
    | ok l =>
      simp only [liftLen]
      have ih := wrapTags_loop1_later ine indefOk defMode isCons isOct ts ((0 : Int) + 1)
      cases isOct <;> cases dov <;>
        simp only [Bool.not_true, Bool.not_false, if_true, if_false, Bool.false_eq_true, ← bytesInts_append] <;>
        first
          | (rw [show ([(0 : Int), (0 : Int)] : Py.Tup) = bytesInts [0, 0] from rfl, ← bytesInts_append,
                 ih _ (by omega)]
             cases hw : Asn1.wrapTags indefOk defMode isCons false ts
                 (Asn1.encodeTag t isCons ++ l ++ sub ++ Asn1.wrapTags.eooBytesE) <;>
               simp_all [liftWrap, liftLen, Asn1.wrapTags.eooBytesE, List.append_assoc])
          | (rw [ih _ (by omega)]
             cases hw : Asn1.wrapTags indefOk defMode isCons false ts (Asn1.encodeTag t isCons ++ l ++ sub ++ []) <;>
               simp_all [liftWrap, liftLen, List.append_assoc])

end Asn1.Kernels

namespace Asn1.Kernels
open Py

/-- the model's header loop on a single tag, spelled out: a constructed value in indefinite mode (CER; BER with
    `defMode=False`) under an encoder that supports the indefinite form gets `80` and a closing `00 00`; a primitive
    one always gets a definite length and no end-of-octets -/
theorem wrapTags_single (indefOk dm isCons : Bool) (t : Tag) (sub : Bytes) :
    Asn1.wrapTags indefOk dm isCons true [t] sub =
      (if isCons && !dm && indefOk then .ok (Asn1.encodeTag t isCons ++ [0x80] ++ sub ++ [0, 0])
       else match Asn1.encodeLength sub.length with
         | some l => .ok (Asn1.encodeTag t isCons ++ l ++ sub ++ (if isCons && !dm then [0, 0] else []))
         | none => .error .refused) := by
  cases isCons <;> cases dm <;> cases indefOk <;>
    simp [Asn1.wrapTags, encLen, Asn1.wrapTags.eooBytesE] <;>
    (cases h : Asn1.encodeLength sub.length <;> simp [Asn1.wrapTags])

end Asn1.Kernels

namespace Asn1.Kernels
open Py

/-- the translated header loop around primitive contents under one universal tag, definite mode -/
theorem wrap_prim_kernel (indefOk : Bool) (num : Nat) (c l : Bytes) (hne : c ≠ []) (hl : Asn1.encodeLength c.length = some l) :
    GenK.wrapTags indefOk false [[0, 0, (num : Int)]] true (bytesInts c) false false =
      .ok (bytesInts (Asn1.encodeTag ⟨.universal, false, num⟩ false ++ l ++ c)) := by
  have ht : ([0, 0, (num : Int)] : Py.Tup) = tagTriple ⟨.universal, false, num⟩ := rfl
  have he : c.isEmpty = false := by cases c <;> simp_all
  have h := wrapTags_kernel indefOk false true false false ⟨.universal, false, num⟩ [] c
  simp only [List.map_cons, List.map_nil] at h
  rw [ht, h, wrapTags_single]
  simp only [he, Bool.false_and, Bool.and_false, Bool.false_eq_true, if_false, hl, List.append_nil, liftLen]

end Asn1.Kernels
