/-
  Proofs.AnyOk — an ANY can capture every encoding of a value of a plain type without the tag
  `[UNIVERSAL 0]`: no element of such a tree carries the end-of-octets tag (`TLV.anyOk`, which the ANY
  decoder model demands of the element and of everything reached through indefinite-length levels).
-/
import Proofs.Complete

namespace Asn1

mutual
/-- no tagging with `[UNIVERSAL 0]` anywhere in the type -/
def Ty.noEooTag : Ty → Bool
  | .tagged _ c n t => (c != .universal || n != 0) && t.noEooTag
  | .seq fs => Fields.noEooTag fs
  | .set fs => Fields.noEooTag fs
  | .choice fs => Fields.noEooTag fs
  | .seqOf t => t.noEooTag
  | .setOf t => t.noEooTag
  | .prim _ => true
  | .any => true
def Fields.noEooTag : Fields → Bool
  | .nil => true
  | .cons _ t r => t.noEooTag && Fields.noEooTag r
end

def Tag.notEoo (tg : Tag) : Bool := !(tg.cls == .universal && tg.num == 0)

theorem anyOk_prim (h : Bytes) (tg : Tag) (c : Bytes) : (TLV.prim h tg c).anyOk = tg.notEoo := by
  simp [TLV.anyOk, Tag.notEoo]

theorem anyOk_cons (h : Bytes) (tg : Tag) (i : Bool) (cs : List TLV) (ht : tg.notEoo = true) (hc : anyOkL cs = true) :
    (TLV.cons h tg i cs).anyOk = true := by
  simp only [Tag.notEoo] at ht
  simp [TLV.anyOk, ht, hc]

theorem anyOkL_iff : ∀ (cs : List TLV), anyOkL cs = true ↔ ∀ c ∈ cs, c.anyOk = true
  | [] => by simp [anyOkL]
  | c :: cs => by simp [anyOkL, anyOkL_iff cs]

theorem anyOkL_perm (cs ms : List TLV) (hp : cs.Perm ms) (h : anyOkL ms = true) : anyOkL cs = true := by
  rw [anyOkL_iff] at h ⊢
  intro c hc
  exact h c (hp.mem_iff.mp hc)

theorem notEoo_univ (tg : Tag) (n : Nat) (h1 : tg.cls = .universal) (h2 : tg.num = n) (hn : n ≠ 0) : tg.notEoo = true := by
  simp [Tag.notEoo, h1, h2, hn]

theorem tag_of (x : TLV) : x.anyOk = true → x.tag.notEoo = true := by
  cases x with
  | prim h tg c => simp [TLV.anyOk, Tag.notEoo, TLV.tag]
  | cons h tg i cs =>
    simp only [TLV.anyOk, Tag.notEoo, TLV.tag, Bool.and_eq_true]
    intro h; exact h.1

mutual
theorem anyOk_seg : ∀ (x : TLV) (b : Bytes), IsSeg 4 x b → x.anyOk = true
  | .prim h tg c, b, hs => by
      cases hs with
      | prim h1 h2 => rw [anyOk_prim]; exact notEoo_univ tg 4 h1 h2 (by decide)
  | .cons h tg i cs, b, hs => by
      cases hs with
      | cons h1 h2 h3 => exact anyOk_cons _ _ _ _ (notEoo_univ tg 4 h1 h2 (by decide)) (anyOk_segs cs b h3)
theorem anyOk_segs : ∀ (cs : List TLV) (b : Bytes), IsSegs 4 cs b → anyOkL cs = true
  | [], _, _ => by simp [anyOkL]
  | c :: cs, b, hs => by
      cases hs with
      | cons h1 h2 => simp [anyOkL, anyOk_seg c _ h1, anyOk_segs cs _ h2]
end

theorem anyOk_bitSegs : ∀ (cs : List TLV) (bs : List Bool), IsBitSegs cs bs → anyOkL cs = true
  | [], _, _ => by simp [anyOkL]
  | c :: cs, bs, hs => by
      cases hs with
      | cons h1 h2 h3 =>
        simp only [anyOkL, Bool.and_eq_true]
        exact ⟨by rw [anyOk_prim]; exact notEoo_univ _ 3 h1 h2 (by decide), anyOk_bitSegs cs _ h3⟩

theorem univNum_ne_zero (p : PrimTy) (hp : (Ty.prim p).plain = true) : p.univNum ≠ 0 := by
  cases p with
  | str k =>
    simp only [Ty.plain] at hp
    simp only [PrimTy.univNum]
    intro h0; subst h0
    revert hp; decide
  | _ => simp [PrimTy.univNum]

theorem anyOk_elems (pf : Profile) (t : Ty) (ih : ∀ v c, IsBer pf t v c → c.anyOk = true)
    (vs : List Val) (cs : List TLV) (h : IsElems pf t vs cs) : anyOkL cs = true := by
  induction cs generalizing vs with
  | nil => simp [anyOkL]
  | cons c cs ihc =>
    cases h with
    | cons h1 h2 => simp [anyOkL, ih _ c h1, ihc _ h2]

variable (pf : Profile)

mutual
theorem anyOk_ber : ∀ (t : Ty) (v : Val) (x : TLV), t.plain = true → t.noEooTag = true →
    IsBer pf t v x → x.anyOk = true
  | .tagged true cls num t, v, x, hp, hn, h => by
      simp only [Ty.noEooTag, Bool.and_eq_true] at hn
      cases h with
      | @explicit _ _ _ _ hh tg i c h1 h2 h3 =>
        have hc := anyOk_ber t v c (by simpa [Ty.plain] using hp) hn.2 h3
        refine anyOk_cons _ _ _ _ ?_ (by simp [anyOkL, hc])
        have := hn.1
        simp only [Tag.notEoo, h1, h2]
        revert this; cases cls <;> simp
  | .tagged false cls num t, v, x, hp, hn, h => by
      simp only [Ty.noEooTag, Bool.and_eq_true] at hn
      cases h with
      | implicit h1 h2 h3 =>
        refine anyOk_body t v x (by simpa [Ty.plain] using hp) hn.2 h3 ?_
        have := hn.1
        simp only [Tag.notEoo, h1, h2]
        revert this; cases cls <;> simp
  | .choice fs, v, x, hp, hn, h => by
      cases h with
      | choice ha => exact anyOk_alt fs _ _ x (by simpa [Ty.plain] using hp) (by simpa [Ty.noEooTag] using hn) ha
  | .prim p, v, x, hp, hn, h => by
      cases h with
      | prim h1 h2 h3 => exact anyOk_body (.prim p) v x hp hn h3 (notEoo_univ _ _ h1 h2 (univNum_ne_zero p hp))
  | .seq fs, v, x, hp, hn, h => by
      cases h with
      | seq h1 h2 h3 => exact anyOk_body (.seq fs) v x hp hn h3 (notEoo_univ _ 16 h1 h2 (by decide))
  | .seqOf t, v, x, hp, hn, h => by
      cases h with
      | seqOf h1 h2 h3 => exact anyOk_body (.seqOf t) v x hp hn h3 (notEoo_univ _ 16 h1 h2 (by decide))
  | .set fs, v, x, hp, hn, h => by
      cases h with
      | set h1 h2 h3 => exact anyOk_body (.set fs) v x hp hn h3 (notEoo_univ _ 17 h1 h2 (by decide))
  | .setOf t, v, x, hp, hn, h => by
      cases h with
      | setOf h1 h2 h3 => exact anyOk_body (.setOf t) v x hp hn h3 (notEoo_univ _ 17 h1 h2 (by decide))
  | .any, _, _, hp, _, _ => by simp [Ty.plain] at hp
theorem anyOk_body : ∀ (t : Ty) (v : Val) (x : TLV), t.plain = true → t.noEooTag = true →
    IsBody pf t v x → x.tag.notEoo = true → x.anyOk = true
  | .tagged true cls num t, v, x, hp, hn, h, ht => by
      simp only [Ty.noEooTag, Bool.and_eq_true] at hn
      cases h with
      | @explicit _ _ _ _ hh tg i c h3 =>
        have hc := anyOk_ber t v c (by simpa [Ty.plain] using hp) hn.2 h3
        exact anyOk_cons _ _ _ _ ht (by simp [anyOkL, hc])
  | .tagged false cls num t, v, x, hp, hn, h, ht => by
      simp only [Ty.noEooTag, Bool.and_eq_true] at hn
      cases h with
      | implicit h3 => exact anyOk_body t v x (by simpa [Ty.plain] using hp) hn.2 h3 ht
  | .any, _, _, hp, _, _, _ => by simp [Ty.plain] at hp
  | .prim p, v, x, hp, hn, h, ht => by
      cases h with
      | boolFalse => rw [anyOk_prim]; exact ht
      | boolTrue _ => rw [anyOk_prim]; exact ht
      | int => rw [anyOk_prim]; exact ht
      | enum => rw [anyOk_prim]; exact ht
      | null => rw [anyOk_prim]; exact ht
      | oid _ => rw [anyOk_prim]; exact ht
      | real _ => rw [anyOk_prim]; exact ht
      | bits => rw [anyOk_prim]; exact ht
      | bitsSeg _ _ h3 => exact anyOk_cons _ _ _ _ ht (anyOk_bitSegs _ _ h3)
      | str => rw [anyOk_prim]; exact ht
      | strSeg _ h3 => exact anyOk_cons _ _ _ _ ht (anyOk_segs _ _ h3)
  | .seq fs, v, x, hp, hn, h, ht => by
      cases h with
      | seq h3 => exact anyOk_cons _ _ _ _ ht (anyOk_fields fs _ _ (by simpa [Ty.plain] using hp) (by simpa [Ty.noEooTag] using hn) h3)
  | .set fs, v, x, hp, hn, h, ht => by
      cases h with
      | set h3 h4 =>
        exact anyOk_cons _ _ _ _ ht (anyOkL_perm _ _ h4
          (anyOk_fields fs _ _ (by simpa [Ty.plain] using hp) (by simpa [Ty.noEooTag] using hn) h3))
  | .seqOf t, v, x, hp, hn, h, ht => by
      cases h with
      | seqOf h3 =>
        exact anyOk_cons _ _ _ _ ht (anyOk_elems pf t
          (fun v c hc => anyOk_ber t v c (by simpa [Ty.plain] using hp) (by simpa [Ty.noEooTag] using hn) hc) _ _ h3)
  | .setOf t, v, x, hp, hn, h, ht => by
      cases h with
      | setOf h3 _ =>
        exact anyOk_cons _ _ _ _ ht (anyOk_elems pf t
          (fun v c hc => anyOk_ber t v c (by simpa [Ty.plain] using hp) (by simpa [Ty.noEooTag] using hn) hc) _ _ h3)
  | .choice fs, v, x, hp, hn, h, ht => by
      cases h with
      | choice ha =>
        have := anyOk_alt fs _ _ _ (by simpa [Ty.plain] using hp) (by simpa [Ty.noEooTag] using hn) ha
        exact anyOk_cons _ _ _ _ ht (by simp [anyOkL, this])
theorem anyOk_fields : ∀ (fs : Fields) (vs : List Val) (cs : List TLV),
    Fields.plain fs = true → Fields.noEooTag fs = true → IsFields pf fs vs cs → anyOkL cs = true
  | .nil, _, _, _, _, h => by cases h; simp [anyOkL]
  | .cons kd t rest, vs, cs, hp, hn, h => by
      simp only [Fields.plain, Bool.and_eq_true] at hp
      simp only [Fields.noEooTag, Bool.and_eq_true] at hn
      cases h with
      | absentOpt hr => exact anyOk_fields rest _ cs hp.2 hn.2 hr
      | absentDflt hr => exact anyOk_fields rest _ cs hp.2 hn.2 hr
      | @present _ _ _ v vs' c cs' hb hr =>
        simp [anyOkL, anyOk_ber t v c hp.1 hn.1 hb, anyOk_fields rest vs' cs' hp.2 hn.2 hr]
theorem anyOk_alt : ∀ (fs : Fields) (i : Nat) (w : Val) (x : TLV),
    Fields.plain fs = true → Fields.noEooTag fs = true → IsAlt pf fs i w x → x.anyOk = true
  | .nil, _, _, _, _, _, h => by cases h
  | .cons kd t rest, i, w, x, hp, hn, h => by
      simp only [Fields.plain, Bool.and_eq_true] at hp
      simp only [Fields.noEooTag, Bool.and_eq_true] at hn
      cases h with
      | here hb => exact anyOk_ber t w x hp.1 hn.1 hb
      | there ha => exact anyOk_alt rest _ w x hp.2 hn.2 ha
end

end Asn1
