import Asn1
