import Proofs.Digits
import Proofs.TagLen
import Proofs.Parse
import Proofs.Prefix
import Proofs.Fuel
import Proofs.TimeDigits
import Proofs.TimeRoundtrip
import Proofs.TimeCanon
