import Proofs.Digits
import Proofs.TagLen
import Proofs.Parse
import Proofs.Prefix
import Proofs.Fuel
