/-
  Props.C15 — DER/CER decoders enforce the canonical restrictions they implement, everywhere.
-/
import Asn1.Generated
import Proofs.Fuel
import Proofs.Parse
import Proofs.StrictEverywhere
import Proofs.KernelLen

namespace Asn1.C15

/-- the codec rows the source installs — by tag **and** by type id — are the strict ones
    (generated tables; this is the obligation the unrepaired tree failed) -/
theorem der_rows_strict :
    Generated.derDecByType.parse.allowIndef = false ∧ Generated.derDecByTag.parse.allowIndef = false ∧
    Generated.derDecByType.boolStrict = true ∧ Generated.derDecByTag.boolStrict = true ∧
    Generated.derDecByType.consBits = false ∧ Generated.derDecByTag.consBits = false ∧
    Generated.derDecByType.consStr = [] ∧ Generated.derDecByTag.consStr = [] := by
  decide

theorem cer_rows_strict :
    Generated.cerDecByType.boolStrict = true ∧ Generated.cerDecByTag.boolStrict = true := by
  decide

mutual
/-- a decoder without indefinite-length support never delivers a tree containing an indefinite
    length, at any depth: for **all** inputs -/
theorem parse_allDef (cfg : ParseCfg) (hc : cfg.allowIndef = false) :
    ∀ (f : Nat) (bs : Bytes) (t : TLV) (rest : Bytes), parse cfg f bs = .ok (t, rest) → t.allDef = true
  | 0, bs, t, rest, h => by simp [parse] at h
  | f + 1, bs, t, rest, h => by
      cases hd : decodeTag bs with
      | error e => rw [parse_tag_err cfg f bs e hd] at h; simp at h
      | ok p =>
        obtain ⟨tag, r1⟩ := p
        cases hl : decodeLength r1 with
        | error e => rw [parse_len_err cfg f bs tag r1 e hd hl] at h; simp at h
        | ok q =>
          obtain ⟨len, r2⟩ := q
          cases len with
          | definite n =>
            rw [parse_step_def cfg f bs tag n r1 r2 hd hl] at h
            by_cases hn : n ≤ r2.length
            · by_cases hcons : tag.constructed
              · simp only [hn, hcons, if_true] at h
                cases hp : parseAll cfg f (r2.take n) with
                | error e =>
                  rw [hp] at h
                  cases e <;> simp [underrunToMalformed] at h
                | ok cs =>
                  rw [hp] at h
                  simp only [underrunToMalformed, Except.ok.injEq, Prod.mk.injEq] at h
                  obtain ⟨rfl, _⟩ := h
                  simp [TLV.allDef, parseAll_allDef cfg hc f _ cs hp]
              · simp only [hn, hcons, if_true, Bool.false_eq_true, if_false, Except.ok.injEq,
                  Prod.mk.injEq] at h
                obtain ⟨rfl, _⟩ := h
                simp [TLV.allDef]
            · simp [hn] at h
          | indefinite =>
            rw [parse_step_indef cfg f bs tag r1 r2 hd hl] at h
            simp [hc] at h
theorem parseAll_allDef (cfg : ParseCfg) (hc : cfg.allowIndef = false) :
    ∀ (f : Nat) (bs : Bytes) (cs : List TLV), parseAll cfg f bs = .ok cs → allDefL cs = true
  | 0, bs, cs, h => by simp [parseAll] at h
  | f + 1, [], cs, h => by
      simp only [parseAll, Except.ok.injEq] at h
      subst h; rfl
  | f + 1, b :: bs, cs, h => by
      rw [parseAll] at h
      cases hp : parse cfg f (b :: bs) with
      | error e => rw [hp] at h; simp at h
      | ok pr =>
        obtain ⟨t, rest⟩ := pr
        rw [hp] at h
        simp only at h
        cases hq : parseAll cfg f rest with
        | error e => rw [hq] at h; simp at h
        | ok ts =>
          rw [hq] at h
          simp only [Except.ok.injEq] at h
          subst h
          simp [allDefL, parse_allDef cfg hc f _ t rest hp, parseAll_allDef cfg hc f rest ts hq]
end

/-- **DER rejects indefinite lengths everywhere**: whatever the input, whatever the guiding type,
    if the DER decoder model returns a value, the element it consumed has no indefinite length at
    any depth -/
theorem der_rejects_indefinite (ty : Ty) (bs : Bytes) (v : Val) (rest : Bytes)
    (h : decodeOne Generated.derDecByType ty bs = .ok (v, rest)) :
    ∃ t, parseOne Generated.derDecByType.parse bs = .ok (t, rest) ∧ t.allDef = true := by
  unfold decodeOne at h
  cases hp : parseOne Generated.derDecByType.parse bs with
  | error e => rw [hp] at h; simp at h
  | ok pr =>
    obtain ⟨t, r⟩ := pr
    rw [hp] at h
    simp only at h
    cases hd : decTy Generated.derDecByType ty t with
    | error e => rw [hd] at h; simp [Except.map] at h
    | ok v' =>
      rw [hd] at h
      simp only [Except.map, Except.ok.injEq, Prod.mk.injEq] at h
      obtain ⟨_, rfl⟩ := h
      exact ⟨t, rfl, parse_allDef _ (by decide) _ bs t r hp⟩

/-- **no constructed strings under DER**, for every string kind and BIT STRING: the payload decoder
    rejects a constructed element in a string position (every string-typed position of any type, at
    any depth and under any tagging, is decoded through `decPrim`) -/
theorem der_rejects_constructed_strings (k : Nat) (h : Bytes) (tg : Tag) (i : Bool) (cs : List TLV) :
    decPrim Generated.derDecByType (.str k) (.cons h tg i cs) = .error .malformed ∧
    decPrim Generated.derDecByType .bitString (.cons h tg i cs) = .error .malformed ∧
    decPrim Generated.derDecByTag (.str k) (.cons h tg i cs) = .error .malformed ∧
    decPrim Generated.derDecByTag .bitString (.cons h tg i cs) = .error .malformed := by
  refine ⟨?_, ?_, ?_, ?_⟩ <;> simp [decPrim, Generated.derDecByType, Generated.derDecByTag]

/-- **strict BOOLEAN under CER and DER**: an accepted BOOLEAN has contents exactly 00 or FF -/
theorem strict_boolean (cfg : DecCfg) (hs : cfg.boolStrict = true) (h : Bytes) (tg : Tag) (c : Bytes)
    (v : Val) (hd : decPrim cfg .boolean (.prim h tg c) = .ok v) :
    (c = [0x00] ∧ v = .bool false) ∨ (c = [0xFF] ∧ v = .bool true) := by
  simp only [decPrim, hs, if_true] at hd
  match c, hd with
  | [b], hd =>
    by_cases h1 : b = 0xFF
    · subst h1; simp at hd; exact Or.inr ⟨rfl, hd.symm⟩
    · by_cases h2 : b = 0
      · subst h2; simp at hd; exact Or.inl ⟨rfl, hd.symm⟩
      · simp [h1, h2] at hd

theorem strict_boolean_cer_der (h : Bytes) (tg : Tag) (c : Bytes) (v : Val) :
    (decPrim Generated.cerDecByType .boolean (.prim h tg c) = .ok v →
      (c = [0x00] ∧ v = .bool false) ∨ (c = [0xFF] ∧ v = .bool true)) ∧
    (decPrim Generated.derDecByType .boolean (.prim h tg c) = .ok v →
      (c = [0x00] ∧ v = .bool false) ∨ (c = [0xFF] ∧ v = .bool true)) :=
  ⟨strict_boolean _ (by decide) h tg c v, strict_boolean _ (by decide) h tg c v⟩

/-- **the strict BOOLEAN decoder, at the source level**: the body of `cer.decoder.BooleanPayloadDecoder.valueDecoder`
    (translated from the working tree on this run into `GenK.cerBool`; the octets its stream read delivers are the
    argument) answers exactly when the contents are the single octet `00` or `FF` - whatever their length -/
theorem source_strict_boolean (c : Bytes) (r : Int) (h : GenK.cerBool (c.length : Int) (Kernels.bytesInts c) = .ok r) :
    (c = [0x00] ∧ r = 0) ∨ (c = [0xFF] ∧ r = 1) := by
  rw [Kernels.cerBool_kernel Generated.derDecByType (by decide) [] ⟨.universal, false, 1⟩ c] at h
  cases hd : decPrim Generated.derDecByType .boolean (.prim [] ⟨.universal, false, 1⟩ c) with
  | error e => rw [hd] at h; simp [Kernels.liftBool] at h
  | ok v =>
    rcases strict_boolean _ (by decide) _ _ c v hd with ⟨hc, hv⟩ | ⟨hc, hv⟩
    · subst hv; rw [hd] at h; simp only [Kernels.liftBool, Except.ok.injEq] at h; exact Or.inl ⟨hc, h.symm⟩
    · subst hv; rw [hd] at h; simp only [Kernels.liftBool, Except.ok.injEq] at h; exact Or.inr ⟨hc, h.symm⟩

example : GenK.cerBool 1 [255] = .ok 1 := by rfl
example : GenK.cerBool 2 [255, 0] = .error (.lib "PyAsn1Error") := by rfl
example : GenK.cerBool 1 [1] = .error (.lib "PyAsn1Error") := by rfl

/-! ### wherever the offending element occurs

`Rep P x x'` (Proofs/StrictEverywhere.lean): `x'` is the element `x` with one sub-element at any depth —
under any number of explicit or implicit tags, as a SEQUENCE or SET member behind skipped
OPTIONAL/DEFAULT members, as a SEQUENCE OF / SET OF element, as a CHOICE alternative — replaced. -/

/-- **DER rejects a constructed encoding wherever a primitive one was accepted** — in particular a
    segmented string of any string type or BIT STRING in place of the primitive one — at top level or
    at any nesting depth, under any tagging, for every guiding type without ANY: if the DER decoder
    accepts `x`, it rejects every `x'` obtained by re-writing one primitive element of `x` in
    constructed form with the same identifier class and number. -/
theorem der_rejects_constructed_everywhere (t : Ty) (x x' : TLV) (v : Val)
    (hg : Ty.good false t = true) (hr : Rep PrimToCons x x')
    (h : decTy Generated.derDecByType t x = .ok v) :
    ∃ e, decTy Generated.derDecByType t x' = .error e :=
  (rep_rej Generated.derDecByType false PrimToCons
    (fun y y' hp => primToCons_rej Generated.derDecByType (by decide) y y' hp) hr).ty t hg v h

/-- the same on octets: what the DER decoder returns for the re-written encoding is an error -/
theorem der_rejects_constructed_everywhere_bytes (t : Ty) (x x' : TLV) (v : Val) (tail : Bytes)
    (hg : Ty.good false t = true) (hr : Rep PrimToCons x x') (hw : x'.WF) (hd : x'.allDef = true)
    (h : decTy Generated.derDecByType t x = .ok v) :
    ∃ e, decodeOne Generated.derDecByType t (x'.ser ++ tail) = .error e := by
  obtain ⟨e, he⟩ := der_rejects_constructed_everywhere t x x' v hg hr h
  refine ⟨e, ?_⟩
  unfold decodeOne
  rw [parseOne_ser Generated.derDecByType.parse x' tail hw (Or.inr hd)]
  simp [he, Except.map]

/-- **CER and DER reject BOOLEAN contents other than 00 and FF wherever the BOOLEAN occurs**
    (identifier `[UNIVERSAL 1]`: untagged or under explicit tags, at any depth), for every guiding
    type without ANY and without an IMPLICIT tag of class UNIVERSAL: if the decoder accepts `x`, it
    rejects every `x'` obtained by replacing the contents of one `[UNIVERSAL 1]` element. -/
theorem strict_boolean_everywhere_partial (t : Ty) (x x' : TLV) (v : Val)
    (hg : Ty.good true t = true) (hr : Rep BadBool x x') :
    (decTy Generated.cerDecByType t x = .ok v → ∃ e, decTy Generated.cerDecByType t x' = .error e) ∧
    (decTy Generated.derDecByType t x = .ok v → ∃ e, decTy Generated.derDecByType t x' = .error e) :=
  ⟨fun h => (rep_rej Generated.cerDecByType true BadBool
      (fun y y' hp => badBool_rej Generated.cerDecByType (by decide) y y' hp) hr).ty t hg v h,
   fun h => (rep_rej Generated.derDecByType true BadBool
      (fun y y' hp => badBool_rej Generated.derDecByType (by decide) y y' hp) hr).ty t hg v h⟩

/-- the premises are met: a primitive UTF8String two levels down (SEQUENCE member under an explicit tag,
    after a skipped OPTIONAL member) re-written in constructed form; the DER decoder accepts the first
    tree -/
example :
    let t : Ty := .seq (.cons .opt (.prim .integer) (.cons .req (.tagged true .context 0 (.prim (.str 12))) .nil))
    let y : TLV := .prim [0x0c, 0x01] ⟨.universal, false, 12⟩ [0x61]
    let y' : TLV := .cons [0x2c, 0x03] ⟨.universal, true, 12⟩ false [.prim [0x04, 0x01] ⟨.universal, false, 4⟩ [0x61]]
    let x : TLV := .cons [0x30, 0x05] ⟨.universal, true, 16⟩ false [.cons [0xa0, 0x03] ⟨.context, true, 0⟩ false [y]]
    let x' : TLV := .cons [0x30, 0x07] ⟨.universal, true, 16⟩ false [.cons [0xa0, 0x05] ⟨.context, true, 0⟩ false [y']]
    Ty.good false t = true ∧ Rep PrimToCons x x' ∧
      decTy Generated.derDecByType t x = .ok (.seq [.absent, .str [0x61]]) := by
  refine ⟨by decide, ?_, ?_⟩
  · exact .child (pre := []) (post := []) (.child (pre := []) (post := [])
      (.here ⟨_, _, _, _, _, _, _, rfl, rfl, rfl, rfl⟩))
  · simp [decTy, decBody, decFields, decPrim, Ty.accepts, Ty.outerTags, Ty.tags, PrimTy.univNum, Tag.same,
      TLV.tag, Except.map]

/-! ### at the source level: the length block under a codec without indefinite lengths -/

/-- **the indefinite-length marker is refused at the source level**: the translated `stDecodeLength` block with
    `supportIndefLength = False` (what the DER `SingleItemDecoder` declares; `Generated` carries the flag) raises the
    library's error on the first length octet `80`, whatever follows - and with the flag on (BER, CER) answers -1 -/
theorem source_der_refuses_indefinite_length (enc : Py.Tup) :
    GenK.decodeLength false 128 enc = .error (.lib "PyAsn1Error") ∧ GenK.decodeLength true 128 enc = .ok (-1) :=
  ⟨rfl, rfl⟩

/-- and under that flag the block never answers a negative length: whatever it accepts - any first octet, any octets
    after it - is a definite length -/
theorem source_der_lengths_are_definite (b : UInt8) (rest : Bytes) (r : Int)
    (h : GenK.decodeLength false (b.toNat : Int) (Kernels.bytesInts (rest.take (b.toNat % 128))) = .ok r) : 0 ≤ r := by
  rw [Kernels.decodeLength_kernel false b rest] at h
  cases hd : decodeLength (b :: rest) with
  | error e => rw [hd] at h; simp [Kernels.liftDecLen] at h
  | ok p =>
    obtain ⟨l, rem⟩ := p
    rw [hd] at h
    cases l with
    | definite n =>
      simp only [Kernels.liftDecLen] at h
      split at h
      · simp at h
      · simp only [Except.ok.injEq] at h
        omega
    | indefinite => simp [Kernels.liftDecLen] at h

example : GenK.decodeLength false 0x81 [0x05] = .ok 5 := by rfl

end Asn1.C15
