/-
  Props.C06 — truncated input is reported as insufficient data at every cut point.
-/
import Asn1.Generated
import Proofs.Fuel
import Proofs.EncSpec
import Props.C02
import Props.C18
import Proofs.StreamRaw
import Proofs.KernelReadTurn

namespace Asn1.C06

/-- **every proper prefix of a well-formed encoding is an underrun** for the one-shot decoder's
    framing, whatever the guiding type: the element is never delivered and never called malformed.
    `t` ranges over all well-formed TLV trees — any tags, any legal length forms, definite or
    indefinite at every level, unbounded size and depth; `k` over every cut point. -/
theorem prefix_underrun (cfg : DecCfg) (ty : Ty) (t : TLV) (k : Nat)
    (hw : t.WF) (ho : t.okFor cfg.parse) (hk : k < t.ser.length) :
    decodeOne cfg ty (t.ser.take k) = .error .underrun := by
  unfold decodeOne
  rw [parseOne_take cfg.parse t k hw ho hk]

/-- the same for the three decoders of the library as configured in the source -/
theorem prefix_underrun_ber (ty : Ty) (t : TLV) (k : Nat) (hw : t.WF) (hk : k < t.ser.length) :
    decodeOne Generated.berDecByType ty (t.ser.take k) = .error .underrun :=
  prefix_underrun _ ty t k hw (Or.inl (by decide)) hk

theorem prefix_underrun_cer (ty : Ty) (t : TLV) (k : Nat) (hw : t.WF) (hk : k < t.ser.length) :
    decodeOne Generated.cerDecByType ty (t.ser.take k) = .error .underrun :=
  prefix_underrun _ ty t k hw (Or.inl (by decide)) hk

theorem prefix_underrun_der (ty : Ty) (t : TLV) (k : Nat) (hw : t.WF) (hd : t.allDef = true)
    (hk : k < t.ser.length) :
    decodeOne Generated.derDecByType ty (t.ser.take k) = .error .underrun :=
  prefix_underrun _ ty t k hw (Or.inr hd) hk

/-- **every proper prefix of an encoding the library writes is reported as insufficient data** - for every type of
    the codec region and every value, BER in any mode (definite/indefinite, any chunk size), DER and CER, decoded with
    the guiding type by any decoder that can read the complete encoding: cut anywhere, the answer is the
    insufficient-data class, never a value and never another error -/
theorem encoding_prefix_underrun (cfg : EncCfg) (dcfg : DecCfg) (pf : Profile) (o : EncOpts) (hi : o.ifNotEmpty = false)
    (hR : EncRegion cfg pf (cfg.fixedChunk.getD o.maxChunk))
    (hparse : cfg.fixedDefMode.getD o.defMode = true ∨ dcfg.parse.allowIndef = true)
    (t : Ty) (v : Val) (b : Bytes) (hreg : t.reg true cfg (cfg.fixedDefMode.getD o.defMode) = true) (hwf : t.WF = true)
    (hty : HasType t v = true) (hn : noE3 cfg.seqOmitEmpty t v = true) (h : encItem cfg o t v = .ok b)
    (k : Nat) (hk : k < b.length) : decodeOne dcfg t (b.take k) = .error .underrun := by
  have h' : finishItem cfg (mkO (cfg.fixedDefMode.getD o.defMode) (cfg.fixedChunk.getD o.maxChunk) o.ifNotEmpty) t
      (encValue cfg (mkO (cfg.fixedDefMode.getD o.defMode) (cfg.fixedChunk.getD o.maxChunk) o.ifNotEmpty) t v) = .ok b := h
  obtain ⟨x, hb, hxw, _, hxd, _⟩ := encode_spec cfg pf _ _ hR o.ifNotEmpty hi t v b hreg hwf hty hn h'
  subst hb
  exact prefix_underrun dcfg t x k hxw (by
    rcases hparse with hp | hp
    · exact Or.inr (lenForm_allDef hxd hp)
    · exact Or.inl hp) hk

/-- instances for the generated configurations -/
theorem ber_encoding_prefix_underrun (o : EncOpts) (hi : o.ifNotEmpty = false) (t : Ty) (v : Val) (b : Bytes)
    (hreg : t.reg true Generated.berEnc o.defMode = true) (hwf : t.WF = true) (hty : HasType t v = true)
    (h : encItem Generated.berEnc o t v = .ok b) (k : Nat) (hk : k < b.length) :
    decodeOne Generated.berDecByType t (b.take k) = .error .underrun :=
  encoding_prefix_underrun Generated.berEnc Generated.berDecByType berProfile o hi (C18.ber_enc_region o) (Or.inr rfl)
    t v b hreg hwf hty (noE3_false t v) h k hk

theorem der_encoding_prefix_underrun (o : EncOpts) (hi : o.ifNotEmpty = false) (t : Ty) (v : Val) (b : Bytes)
    (hreg : t.reg true Generated.derEnc true = true) (hwf : t.WF = true) (hty : HasType t v = true)
    (hn : noE3 true t v = true) (h : encItem Generated.derEnc o t v = .ok b) (k : Nat) (hk : k < b.length) :
    decodeOne Generated.derDecByType t (b.take k) = .error .underrun ∧
    decodeOne Generated.berDecByType t (b.take k) = .error .underrun :=
  ⟨encoding_prefix_underrun Generated.derEnc Generated.derDecByType derProfile o hi (C02.der_region o) (Or.inl rfl)
      t v b hreg hwf hty hn h k hk,
   encoding_prefix_underrun Generated.derEnc Generated.berDecByType derProfile o hi (C02.der_region o) (Or.inl rfl)
      t v b hreg hwf hty hn h k hk⟩

theorem cer_encoding_prefix_underrun (o : EncOpts) (hi : o.ifNotEmpty = false) (t : Ty) (v : Val) (b : Bytes)
    (hreg : t.reg true Generated.cerEnc false = true) (hwf : t.WF = true) (hty : HasType t v = true)
    (hn : noE3 true t v = true) (h : encItem Generated.cerEnc o t v = .ok b) (k : Nat) (hk : k < b.length) :
    decodeOne Generated.cerDecByType t (b.take k) = .error .underrun :=
  encoding_prefix_underrun Generated.cerEnc Generated.cerDecByType cerProfile o hi (C02.cer_region o) (Or.inr rfl)
    t v b hreg hwf hty hn h k hk

/-- the error hierarchy of the source: end-of-stream is an insufficient-data error, which is a
    library error (generated table) -/
theorem error_hierarchy :
    ("EndOfStreamError", "SubstrateUnderrunError") ∈ Generated.errorSubclass ∧
    ("SubstrateUnderrunError", "PyAsn1Error") ∈ Generated.errorSubclass ∧
    ("EndOfStreamError", "PyAsn1Error") ∈ Generated.errorSubclass := by
  decide

/-! ### at the source level: a read that the stream cannot satisfy, as `readFromStream` is in /repo on this run -/

/-- **a stream that ends before the octets asked for, still open: an underrun and nothing else** - the translated turn of
    `readFromStream` (`GenK.readTurn`, regenerated from codec/streaming.py), whatever the sizes of the short reads (`cap`),
    hands out no octets, raises nothing, and leaves the position where the turn began - for every stream content `d`,
    every position inside it and every request that reaches past its end -/
theorem source_truncated_open_is_underrun (d : Bytes) (cap pos n : Nat) (hn : n ≤ 1048576) (hp : pos ≤ d.length)
    (hshort : d.length < pos + n) :
    GenK.readTurn (Kernels.rdOf d false cap) (pos : Int) (n : Int) = .ok (none, (pos : Int)) := by
  rw [Kernels.readTurn_kernel d false cap pos n hn hp,
    Stream.readFromStreamRaw_eq_readAns .seekable (by decide) d false _ pos n hp]
  have : ¬ (pos + n ≤ d.length) := by omega
  simp [Stream.readAns, this, Stream.Kind.isOpen, Kernels.liftAns]

/-- **the same stream once it is closed: EndOfStreamError and nothing else** - never the octets that are there, never
    another error (with `error_hierarchy`: an insufficient-data error) -/
theorem source_truncated_closed_is_end_of_stream (d : Bytes) (cap pos n : Nat) (hn : n ≤ 1048576) (hp : pos ≤ d.length)
    (hshort : d.length < pos + n) :
    GenK.readTurn (Kernels.rdOf d true cap) (pos : Int) (n : Int) = .error (.lib "EndOfStreamError") := by
  rw [Kernels.readTurn_kernel d true cap pos n hn hp,
    Stream.readFromStreamRaw_eq_readAns .seekable (by decide) d true _ pos n hp]
  have : ¬ (pos + n ≤ d.length) := by omega
  simp [Stream.readAns, this, Stream.Kind.isOpen, Kernels.liftAns]

/-- and conversely a read the stream can satisfy is never reported as an underrun: the octets, the position past them -/
theorem source_complete_read_is_data (d : Bytes) (closed : Bool) (cap pos n : Nat) (hn : n ≤ 1048576)
    (hfull : pos + n ≤ d.length) :
    GenK.readTurn (Kernels.rdOf d closed cap) (pos : Int) (n : Int) =
      .ok (some (Kernels.bytesInts ((d.drop pos).take n)), ((pos + n : Nat) : Int)) := by
  rw [Kernels.readTurn_kernel d closed cap pos n hn (by omega),
    Stream.readFromStreamRaw_eq_readAns .seekable (by decide) d closed _ pos n (by omega)]
  have hm : min n (d.length - pos) = n := by omega
  simp [Stream.readAns, hfull, Kernels.liftAns, hm]

/-- non-vacuity: the 5-octet element `30 03 02 01 05` cut after 3 octets, its 3-octet body asked at position 2 -/
example : GenK.readTurn (Kernels.rdOf [0x30, 0x03, 0x02] false 0) 2 3 = .ok (none, 2) := by rfl
example : GenK.readTurn (Kernels.rdOf [0x30, 0x03, 0x02] true 0) 2 3 = .error (.lib "EndOfStreamError") := by rfl
example : GenK.readTurn (Kernels.rdOf [0x30, 0x03, 0x02, 0x01, 0x05] true 0) 2 3 = .ok (some [2, 1, 5], 5) := by rfl

/-- non-vacuity: a concrete well-formed nested element (SEQUENCE, indefinite, holding an INTEGER) -/
example : (TLV.cons [0x30, 0x80] ⟨.universal, true, 16⟩ true
            [TLV.prim [0x02, 0x01] ⟨.universal, false, 2⟩ [5]]).WF := by
  refine ⟨⟨[0x30], [0x80], rfl, ?_, ?_⟩, rfl, ⟨⟨⟨[0x02], [0x01], rfl, ?_, ?_⟩, rfl⟩, trivial⟩, ?_⟩
  · intro r; rfl
  · intro r; rfl
  · intro r; rfl
  · intro r; rfl
  · refine ⟨?_, trivial⟩
    intro rest h
    simp [TLV.ser] at h

end Asn1.C06
