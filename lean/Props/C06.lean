/-
  Props.C06 — truncated input is reported as insufficient data at every cut point.
-/
import Asn1.Generated
import Proofs.Fuel

namespace Asn1.C06

/-- **every proper prefix of a well-formed encoding is an underrun** for the one-shot decoder's
    framing, whatever the guiding type: the element is never delivered and never called malformed.
    `t` ranges over all well-formed TLV trees — any tags, any legal length forms, definite or
    indefinite at every level, unbounded size and depth; `k` over every cut point. -/
theorem prefix_underrun (cfg : DecCfg) (ty : Ty) (t : TLV) (k : Nat)
    (hw : t.WF) (ho : t.okFor cfg.parse) (hk : k < t.ser.length) :
    decodeOne cfg ty (t.ser.take k) = .error .underrun := by
  unfold decodeOne
  rw [parseOne_take cfg.parse t k hw ho hk]

/-- the same for the three decoders of the library as configured in the source -/
theorem prefix_underrun_ber (ty : Ty) (t : TLV) (k : Nat) (hw : t.WF) (hk : k < t.ser.length) :
    decodeOne Generated.berDecByType ty (t.ser.take k) = .error .underrun :=
  prefix_underrun _ ty t k hw (Or.inl (by decide)) hk

theorem prefix_underrun_cer (ty : Ty) (t : TLV) (k : Nat) (hw : t.WF) (hk : k < t.ser.length) :
    decodeOne Generated.cerDecByType ty (t.ser.take k) = .error .underrun :=
  prefix_underrun _ ty t k hw (Or.inl (by decide)) hk

theorem prefix_underrun_der (ty : Ty) (t : TLV) (k : Nat) (hw : t.WF) (hd : t.allDef = true)
    (hk : k < t.ser.length) :
    decodeOne Generated.derDecByType ty (t.ser.take k) = .error .underrun :=
  prefix_underrun _ ty t k hw (Or.inr hd) hk

/-- the error hierarchy of the source: end-of-stream is an insufficient-data error, which is a
    library error (generated table) -/
theorem error_hierarchy :
    ("EndOfStreamError", "SubstrateUnderrunError") ∈ Generated.errorSubclass ∧
    ("SubstrateUnderrunError", "PyAsn1Error") ∈ Generated.errorSubclass ∧
    ("EndOfStreamError", "PyAsn1Error") ∈ Generated.errorSubclass := by
  decide

/-- non-vacuity: a concrete well-formed nested element (SEQUENCE, indefinite, holding an INTEGER) -/
example : (TLV.cons [0x30, 0x80] ⟨.universal, true, 16⟩ true
            [TLV.prim [0x02, 0x01] ⟨.universal, false, 2⟩ [5]]).WF := by
  refine ⟨⟨[0x30], [0x80], rfl, ?_, ?_⟩, rfl, ⟨⟨⟨[0x02], [0x01], rfl, ?_, ?_⟩, rfl⟩, trivial⟩, ?_⟩
  · intro r; rfl
  · intro r; rfl
  · intro r; rfl
  · intro r; rfl
  · refine ⟨?_, trivial⟩
    intro rest h
    simp [TLV.ser] at h

end Asn1.C06
