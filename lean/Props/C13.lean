/-
  Props.C13 — tags on the wire are exactly the type's tags.
  Property theorems only (helper lemmas live in Proofs/).
-/
import Asn1.Generated
import Proofs.TagLen

namespace Asn1.C13

/-- identifier octets decode back to the tag they were made from — every class, both formats,
    every number in ℕ (short and multi-octet form), any bytes following. -/
theorem tag_roundtrip (t : Tag) (isConstructed : Bool) (rest : Bytes) :
    decodeTag (encodeTag t isConstructed ++ rest)
      = .ok (⟨t.cls, t.constructed || isConstructed, t.num⟩, rest) :=
  decodeTag_encodeTag t isConstructed rest

/-- explicit tagging refuses the UNIVERSAL class -/
theorem explicit_refuses_universal (ts : TagSet) (num : Nat) :
    ts.tagExplicitly .universal num = none := by
  simp [TagSet.tagExplicitly]

/-- explicit tagging adds exactly one constructed tag outside all existing ones -/
theorem explicit_appends_constructed (ts : TagSet) (cls : TagClass) (num : Nat)
    (h : cls ≠ .universal) :
    ts.tagExplicitly cls num = some (ts ++ [⟨cls, true, num⟩]) := by
  simp [TagSet.tagExplicitly, h]

/-- implicit tagging replaces only the outermost tag and keeps its primitive/constructed form -/
theorem implicit_replaces_outermost (inner : TagSet) (last : Tag) (cls : TagClass) (fmt : Bool)
    (num : Nat) :
    TagSet.tagImplicitly (inner ++ [last]) cls fmt num = inner ++ [⟨cls, last.constructed, num⟩] := by
  simp [TagSet.tagImplicitly]

/-- the model's universal tags are the ones the source declares (generated table) -/
theorem universal_tags_match_source :
    Generated.univTags = [("boolean", 0, 0, 1), ("integer", 0, 0, 2), ("bitString", 0, 0, 3),
      ("null", 0, 0, 5), ("oid", 0, 0, 6), ("real", 0, 0, 9), ("enumerated", 0, 0, 10)]
    ∧ Generated.consTags = [("seq", 0, 32, 16), ("seqOf", 0, 32, 16), ("set", 0, 32, 17), ("setOf", 0, 32, 17)]
    ∧ Generated.choiceTagLen = 0 ∧ Generated.anyTagLen = 0
    ∧ Generated.tagClassBits = [0, 64, 128, 192] ∧ Generated.tagFormatConstructed = 32 := by
  decide

/-- every string-like type keeps OCTET STRING as base tag and its own universal number on the wire -/
theorem string_tags_match_source :
    Generated.strTags.all (fun r => r.2.1 == 0 && r.2.2.1 == 0 && r.2.2.2.1 == r.1 && r.2.2.2.2 == 4)
      = true := by
  decide

/-- non-vacuity: a concrete multi-octet tag -/
example : decodeTag (encodeTag ⟨.priv, false, 16384⟩ true ++ [7]) = .ok (⟨.priv, true, 16384⟩, [7]) :=
  tag_roundtrip _ _ _

end Asn1.C13
