/-
  Props.C13 — tags on the wire are exactly the type's tags.
  Property theorems only (helper lemmas live in Proofs/).
-/
import Asn1.Generated
import Proofs.TagLen
import Proofs.RoundTrip
import Proofs.TagReject
import Proofs.Kernels
import Proofs.KernelWrap

namespace Asn1.C13

/-- identifier octets decode back to the tag they were made from — every class, both formats,
    every number in ℕ (short and multi-octet form), any bytes following. -/
theorem tag_roundtrip (t : Tag) (isConstructed : Bool) (rest : Bytes) :
    decodeTag (encodeTag t isConstructed ++ rest)
      = .ok (⟨t.cls, t.constructed || isConstructed, t.num⟩, rest) :=
  decodeTag_encodeTag t isConstructed rest

/-- **the identifier octets the source writes** (`AbstractItemEncoder.encodeTag`, translated from /repo on
    this run into `GenK.encodeTag`) **decode back to exactly the tag**: class, number and the
    constructed bit `tagFormat | isConstructed` — every class, every number in ℕ -/
theorem source_identifier_roundtrip (t : Tag) (isConstructed : Bool) (rest : Bytes) :
    ∃ b : Bytes, GenK.encodeTag (Kernels.tagTriple t) isConstructed = .ok (Kernels.bytesInts b) ∧
      decodeTag (b ++ rest) = .ok (⟨t.cls, t.constructed || isConstructed, t.num⟩, rest) :=
  ⟨encodeTag t isConstructed, Kernels.encodeTag_kernel t isConstructed, decodeTag_encodeTag t isConstructed rest⟩

/-- **one header per tag, at the source level**: the loop of `AbstractItemEncoder.encode` over `tagSet.superTags`
    (ber/encoder.py; translated from /repo on this run into `GenK.wrapTags`, which calls the translated `encodeTag` and
    `encodeLength`; `encodeValue`'s answer is its argument) is the model's `wrapTags` - for every non-empty tag set,
    substrate, `defMode`, `supportIndefLenMode` and `ifNotEmpty`.  Everything proved about `wrapTags`
    (`wire_tags_are_type_tags` below, the round trips of C01/C02, and finding E1, which lives in this loop) is thereby a
    statement about the loop as it is in the source now. -/
theorem source_header_loop_is_model (indefOk ifNotEmpty defMode isCons isOct : Bool) (t : Tag) (ts : List Tag) (sub : Bytes) :
    GenK.wrapTags indefOk ifNotEmpty ((t :: ts).map Kernels.tagTriple) defMode (Kernels.bytesInts sub) isCons isOct =
      Kernels.liftLen (if sub.isEmpty && isCons && ifNotEmpty then .ok []
                       else wrapTags indefOk defMode isCons true (t :: ts) sub) :=
  Kernels.wrapTags_kernel indefOk ifNotEmpty defMode isCons isOct t ts sub

/-- INTEGER 5 under [0] EXPLICIT, definite mode: `a0 03 02 01 05`; and finding E1 as the source has it: indefinite mode
    over an encoder without indefinite lengths writes a definite length and still appends end-of-octets -/
example : GenK.wrapTags false false [[0, 0, 2], [128, 32, 0]] true [5] false false = .ok [160, 3, 2, 1, 5] := by rfl
example : GenK.wrapTags false false [[0, 0, 2], [128, 32, 0]] false [5] false false = .ok [160, 3, 2, 1, 5, 0, 0] := by rfl

/-- explicit tagging refuses the UNIVERSAL class -/
theorem explicit_refuses_universal (ts : TagSet) (num : Nat) :
    ts.tagExplicitly .universal num = none := by
  simp [TagSet.tagExplicitly]

/-- explicit tagging adds exactly one constructed tag outside all existing ones -/
theorem explicit_appends_constructed (ts : TagSet) (cls : TagClass) (num : Nat)
    (h : cls ≠ .universal) :
    ts.tagExplicitly cls num = some (ts ++ [⟨cls, true, num⟩]) := by
  simp [TagSet.tagExplicitly, h]

/-- implicit tagging replaces only the outermost tag and keeps its primitive/constructed form -/
theorem implicit_replaces_outermost (inner : TagSet) (last : Tag) (cls : TagClass) (fmt : Bool)
    (num : Nat) :
    TagSet.tagImplicitly (inner ++ [last]) cls fmt num = inner ++ [⟨cls, last.constructed, num⟩] := by
  simp [TagSet.tagImplicitly]

/-- the model's universal tags are the ones the source declares (generated table) -/
theorem universal_tags_match_source :
    Generated.univTags = [("boolean", 0, 0, 1), ("integer", 0, 0, 2), ("bitString", 0, 0, 3),
      ("null", 0, 0, 5), ("oid", 0, 0, 6), ("real", 0, 0, 9), ("enumerated", 0, 0, 10)]
    ∧ Generated.consTags = [("seq", 0, 32, 16), ("seqOf", 0, 32, 16), ("set", 0, 32, 17), ("setOf", 0, 32, 17)]
    ∧ Generated.choiceTagLen = 0 ∧ Generated.anyTagLen = 0
    ∧ Generated.tagClassBits = [0, 64, 128, 192] ∧ Generated.tagFormatConstructed = 32 := by
  decide

/-- every string-like type keeps OCTET STRING as base tag and its own universal number on the wire -/
theorem string_tags_match_source :
    Generated.strTags.all (fun r => r.2.1 == 0 && r.2.2.1 == 0 && r.2.2.2.1 == r.1 && r.2.2.2.2 == 4)
      = true := by
  decide

/-- non-vacuity: a concrete multi-octet tag -/
example : decodeTag (encodeTag ⟨.priv, false, 16384⟩ true ++ [7]) = .ok (⟨.priv, true, 16384⟩, [7]) :=
  tag_roundtrip _ _ _


/-- **the tags on the wire are the type's tags** (region of `Asn1.Ty.reg`: no ANY/REAL; finding E1
    excluded in indefinite mode).  Whatever the BER encoder returns for a value of `t`, in any mode,
    is one well-formed element `x` such that
      * the framing layer reads `x` back from the octets (so `x`'s identifiers are what is on the wire),
      * walking from the outside in, `x` carries `t`'s tags in class and number, every wrapper having
        the constructed bit and exactly one element inside, the innermost element being constructed
        exactly when the contents are,
      * decoding with `t` accepts it and gives the value back,
      * decoding with any type `t'` of the same tagging depth whose tags differ in class or number
        at any level is rejected. -/
theorem wire_tags_are_type_tags (defMode : Bool) (maxChunk : Nat) (t : Ty) (v : Val) (b tail : Bytes)
    (hreg : t.reg false Generated.berEnc defMode = true) (hwf : t.WF = true) (hty : HasType t v = true)
    (h : encItem Generated.berEnc { defMode := defMode, maxChunk := maxChunk } t v = .ok b) :
    ∃ x : TLV, parseOne Generated.berDecByType.parse (b ++ tail) = .ok (x, tail) ∧
      Carries t.tags.reverse x ∧
      decodeOne Generated.berDecByType t (b ++ tail) = .ok (v, tail) ∧
      ∀ t' : Ty, isAnyBase t' = false → t.tags.length = t'.tags.length →
        tagsDiffer t.tags.reverse t'.tags.reverse = true →
        decodeOne Generated.berDecByType t' (b ++ tail) = .error .malformed := by
  have hR : Region Generated.berEnc Generated.berDecByType { defMode := defMode, maxChunk := maxChunk } :=
    { seqOmit := rfl, setOrd := rfl, sortOf := rfl, chunk := Or.inr ⟨rfl, by decide⟩, ine := rfl,
      bool := by intro b hd tg; cases b <;> rfl }
  obtain ⟨x, hb, hxw, _, _, hxd⟩ := encode_good Generated.berEnc Generated.berDecByType _ hR t v b hreg hwf hty h
  subst hb
  have hna := reg_not_any false Generated.berEnc defMode t hreg
  have hp := parseOne_ser Generated.berDecByType.parse x tail hxw (Or.inl rfl)
  refine ⟨x, hp, decTy_carries _ t x v hna hxw hxd, ?_, ?_⟩
  · simp only [decodeOne, hp, hxd, Except.map]
  · intro t' ha' hl hd
    simp only [decodeOne, hp, decTy_reject _ t t' x v hna ha' hl hd hxd, Except.map]

/-- the hypotheses of the rejection clause are met: `[1] EXPLICIT [APPLICATION 31] IMPLICIT INTEGER`
    against the same stack with 30 in place of 31 -/
example :
    let t : Ty := .tagged true .context 1 (.tagged false .application 31 (.prim .integer))
    let t' : Ty := .tagged true .context 1 (.tagged false .application 30 (.prim .integer))
    t.reg false Generated.berEnc true = true ∧ t.WF = true ∧ isAnyBase t' = false ∧
      t.tags.length = t'.tags.length ∧ tagsDiffer t.tags.reverse t'.tags.reverse = true := by
  decide

end Asn1.C13
