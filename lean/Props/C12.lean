/-
  Props.C12 — codec calls are pure.  The model's codec functions are mathematical functions, so in
  the model a result cannot depend on history; what is proved here is that the one piece of
  decoder state the source keeps between elements — the tag caches — cannot be observed.
-/
import Asn1.Generated
import Asn1.World

namespace Asn1.C12

theorem lookup_mem (c : TagCache) (o : UInt8) (t : Tag) (h : c.lookup o = some t) : (o, t) ∈ c := by
  induction c with
  | nil => simp [TagCache.lookup] at h
  | cons p rest ih =>
    obtain ⟨k, t'⟩ := p
    simp only [TagCache.lookup] at h
    by_cases hk : k = o
    · simp only [hk, if_true, Option.some.injEq] at h
      subst h; subst hk; simp
    · simp only [hk, if_false] at h
      exact List.mem_cons_of_mem _ (ih h)

theorem decodeTag_short (b : UInt8) (rest : Bytes) (h : b.toNat % 32 ≠ 31) :
    decodeTag (b :: rest) = .ok (⟨TagClass.ofBits b.toNat, b.toNat / 32 % 2 = 1, b.toNat % 32⟩, rest) := by
  simp [decodeTag, h]

/-- **the tag cache is transparent**: under the invariant, decoding through the cache gives exactly
    the uncached answer, and the invariant is preserved — so after any history of decodes the next
    decode behaves as if it ran alone (induction over the history follows from the second part) -/
theorem cache_transparent (c : TagCache) (bs : Bytes) (hi : c.Inv) :
    (decodeTagCached c bs).1 = decodeTag bs ∧ (decodeTagCached c bs).2.Inv := by
  cases bs with
  | nil => exact ⟨by simp [decodeTagCached, decodeTag], hi⟩
  | cons b rest =>
    simp only [decodeTagCached]
    cases hl : c.lookup b with
    | some t =>
      simp only
      have := hi b t (lookup_mem c b t hl)
      exact ⟨(this.2 rest).symm, hi⟩
    | none =>
      simp only
      cases hd : decodeTag (b :: rest) with
      | error e => exact ⟨by simp, hi⟩
      | ok p =>
        obtain ⟨t, r⟩ := p
        simp only
        constructor
        · trivial
        by_cases h31 : b.toNat % 32 = 31
        · simp only [h31, if_true]; exact hi
        · simp only [h31, if_false]
          intro o t' hm
          rcases List.mem_cons.mp hm with heq | hm'
          · simp only [Prod.mk.injEq] at heq
            obtain ⟨rfl, rfl⟩ := heq
            refine ⟨h31, fun rest' => ?_⟩
            rw [decodeTag_short o rest h31] at hd
            simp only [Except.ok.injEq, Prod.mk.injEq] at hd
            rw [decodeTag_short o rest' h31, ← hd.1]
          · exact hi o t' hm'

/-- a whole history of cached decodes: every answer equals the uncached one -/
theorem cache_transparent_history (inputs : List Bytes) :
    ∀ (c : TagCache), c.Inv →
      (inputs.foldl (fun (acc : TagCache × List (Res (Tag × Bytes))) bs =>
          let r := decodeTagCached acc.1 bs; (r.2, acc.2 ++ [r.1])) (c, [])).2
        = inputs.map decodeTag := by
  suffices h : ∀ (c : TagCache) (done : List (Res (Tag × Bytes))), c.Inv →
      (inputs.foldl (fun (acc : TagCache × List (Res (Tag × Bytes))) bs =>
          let r := decodeTagCached acc.1 bs; (r.2, acc.2 ++ [r.1])) (c, done)).2
        = done ++ inputs.map decodeTag by
    intro c hc; simpa using h c [] hc
  induction inputs with
  | nil => intro c done _; simp
  | cons bs rest ih =>
    intro c done hc
    obtain ⟨h1, h2⟩ := cache_transparent c bs hc
    simp only [List.foldl_cons, List.map_cons]
    rw [ih _ _ h2, h1]
    simp

/-- the empty cache (a fresh `SingleItemDecoder`) satisfies the invariant -/
theorem empty_cache_inv : TagCache.Inv [] := by
  intro o t h; simp at h

/-- a long-form first octet must never be cached: the octet does not determine the tag
    (two different tags, same first octet) — the counterexample behind the invariant's side condition -/
theorem long_form_not_cacheable :
    ∃ (a b : Bytes) (ta tb : Tag), a.head? = b.head? ∧
      decodeTag a = .ok (ta, []) ∧ decodeTag b = .ok (tb, []) ∧ ta ≠ tb :=
  ⟨[0x5f, 0x1f], [0x5f, 0x7f], ⟨.application, false, 31⟩, ⟨.application, false, 127⟩,
   by decide, by rfl, by rfl, by decide⟩

end Asn1.C12
