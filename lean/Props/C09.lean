/-
  Props.C09 — every valid BER form of a value decodes to that value.
  The set BER(T, v) is the relation `IsBer berProfile T v` of Asn1/BerSpec.lean together with
  `TLV.WF` (any header that decodes to the right tag and length — short, long, over-long —, definite
  or indefinite at every constructed level).
-/
import Asn1.Generated
import Asn1.X690
import Asn1.BerSpec
import Proofs.Parse
import Proofs.Complete
import Proofs.KernelLen
import Proofs.KernelTag
import Proofs.KernelBits

namespace Asn1.C09

/-- any mix of short, long and over-long length forms and of definite/indefinite lengths at each
    constructed level: `HdrOk` only asks that the length octets *decode* to the length (so long
    forms with redundant leading zeros are included), and `TLV.WF` allows `indef` at every
    constructed node independently.  Every such tree is framed as itself by the BER decoder. -/
theorem every_framing_accepted (t : TLV) (tail : Bytes) (hw : t.WF) :
    parseOne Generated.berDecByType.parse (t.ser ++ tail) = .ok (t, tail) :=
  parseOne_ser _ t tail hw (Or.inl (by decide))

/-- a long-form length with a redundant leading zero is a legal header (non-vacuity of the above
    for over-long forms) -/
example : HdrOk [0x04, 0x82, 0x00, 0x03] ⟨.universal, false, 4⟩ (.definite 3) :=
  ⟨[0x04], [0x82, 0x00, 0x03], rfl, fun _ => rfl, fun _ => rfl⟩

/-! ### at the source level: the decoder's length block, translated from /repo on this run -/

/-- the `stDecodeLength` block of `SingleItemDecoder.__call__` (ber/decoder.py; translated by gen/py2lean.py into
    `GenK.decodeLength`, the two stream reads being its arguments) computes the model's `decodeLength`: every first
    octet, whatever follows; `supportIndefLength` as a parameter -/
theorem source_length_decoding_is_model (allowIndef : Bool) (b : UInt8) (rest : Bytes) :
    GenK.decodeLength allowIndef (b.toNat : Int) (Kernels.bytesInts (rest.take (b.toNat % 128))) =
      Kernels.liftDecLen allowIndef (decodeLength (b :: rest)) :=
  Kernels.decodeLength_kernel allowIndef b rest

/-- **every legal length header is read as its length by the source**: whenever the octets `b :: lb` are a length
    header for `n` in the sense of `HdrOk` (short form, long form, long form with redundant leading zeros) and `n`
    does not exceed `sys.maxsize`, the translated block answers `n` -/
theorem source_length_any_form (allowIndef : Bool) (b : UInt8) (lb : Bytes) (n : Nat)
    (h : ∀ r, decodeLength ((b :: lb) ++ r) = .ok (.definite n, r)) (hn : n ≤ 9223372036854775807) :
    GenK.decodeLength allowIndef (b.toNat : Int) (Kernels.bytesInts (lb.take (b.toNat % 128))) = .ok (n : Int) := by
  have h0 := h []
  simp only [List.append_nil] at h0
  rw [Kernels.decodeLength_kernel allowIndef b lb, h0]
  have : ¬ ((n : Int) > 9223372036854775807) := by omega
  simp [Kernels.liftDecLen, this]

/-- **length octets round trip at the source level**: what the translated `encodeLength` writes for a length (definite
    mode; any length up to `sys.maxsize` that fits 126 octets), the translated `stDecodeLength` block reads back as that
    length - the encoder's and the decoder's code as they are in the working tree, composed -/
theorem source_length_roundtrip (allowIndef indefOk : Bool) (n : Nat) (hn : n ≤ 9223372036854775807) :
    ∃ (b : UInt8) (lb : Bytes), GenK.encodeLength indefOk (n : Int) true = .ok (Kernels.bytesInts (b :: lb)) ∧
      GenK.decodeLength allowIndef (b.toNat : Int) (Kernels.bytesInts (lb.take (b.toNat % 128))) = .ok (n : Int) := by
  have hfits : ∃ l, encodeLength n = some l := by
    unfold encodeLength
    by_cases hs : n < 0x80
    · exact ⟨_, by simp only [hs, if_true]; rfl⟩
    · have hlen : (be256 n).length ≤ 8 := Kernels.be256_length_le 8 n (by
        show n < 256 ^ 8
        omega)
      have : ¬ (be256 n).length > 126 := by omega
      exact ⟨_, by simp only [hs, this, if_false]; rfl⟩
  obtain ⟨l, hl⟩ := hfits
  have hdec := decodeLength_encodeLength n l hl
  have hne : l ≠ [] := by
    intro h0; subst h0
    have := hdec []
    simp [decodeLength] at this
  obtain ⟨b, lb, rfl⟩ := List.exists_cons_of_ne_nil hne
  refine ⟨b, lb, ?_, source_length_any_form allowIndef b lb n hdec hn⟩
  rw [Kernels.encodeLength_kernel]
  simp [encLen, hl, Kernels.liftLen]

/-! ### the decoder's identifier block, translated from /repo on this run -/

/-- the `stDecodeTag` block of `SingleItemDecoder.__call__` (ber/decoder.py; translated by gen/py2lean.py into
    `GenK.decodeTag`, the reads from the stream being reads of the complete input, a cache miss being what is
    computed) computes the model's `decodeTag` on every input: class, form bit, tag number through the long-form loop,
    octets consumed; the input ending inside the identifier is the one-shot decoder's SubstrateUnderrunError -/
theorem source_identifier_decoding_is_model (bs : Bytes) :
    GenK.decodeTag (Kernels.bytesInts bs) = Kernels.liftDecTag bs.length (decodeTag bs) :=
  Kernels.decodeTag_kernel bs

/-- **identifier octets round trip at the source level**: what the translated `encodeTag` writes for a tag (every
    class, both forms, every tag number, `isConstructed` either way), the translated `stDecodeTag` block reads back as
    that class, form and number, consuming exactly those octets, whatever follows -/
theorem source_identifier_roundtrip (t : Tag) (ic : Bool) (r : Bytes) :
    ∃ ident : Bytes, GenK.encodeTag (Kernels.tagTriple t) ic = .ok (Kernels.bytesInts ident) ∧
      GenK.decodeTag (Kernels.bytesInts (ident ++ r)) =
        .ok [(t.cls.bits : Int), if (t.constructed || ic) then 32 else 0, (t.num : Int), (ident.length : Int)] := by
  refine ⟨encodeTag t ic, Kernels.encodeTag_kernel t ic, ?_⟩
  rw [Kernels.decodeTag_kernel, decodeTag_encodeTag]
  simp only [Kernels.liftDecTag, List.length_append, Nat.add_sub_cancel]

/-- non-vacuity: `[PRIVATE 1960]` constructed is `FF 8F 28`; read back with three octets consumed -/
example : GenK.decodeTag [0xFF, 0x8F, 0x28, 0x03, 0x02] = .ok [192, 32, 1960, 3] := by rfl
example : GenK.decodeTag [0xFF, 0x8F] = .error (.lib "SubstrateUnderrunError") := by rfl
example : GenK.decodeTag [0x04, 0x01] = .ok [0, 0, 4, 1] := by rfl

/-- **BIT STRING contents at the source level**: the primitive branch of `BitStringPayloadDecoder.valueDecoder` together with
    `BitString.fromOctetString` (both translated from /repo on this run) read any contents octets `c` as the model's
    `bitsFromContent` does - the value object keeps the bit list as an integer and its length in bits -/
theorem source_bit_string_contents_is_model (c : Bytes) :
    GenK.bitsDecode (Kernels.bytesInts c) ((c.length : Nat) : Int) = Kernels.liftBits (bitsFromContent c) :=
  Kernels.bitsDecode_kernel c

/-- **every BIT STRING value is read back from its contents octets, at the source level**: what the model's encoder writes
    for a bit list (unused-bits count, the bits left-aligned), the translated decoder branch reads as that bit list - for
    every length, a multiple of eight or not -/
theorem source_bit_string_roundtrip (bs : List Bool) :
    GenK.bitsDecode (Kernels.bytesInts (bitsToContent bs)) (((bitsToContent bs).length : Nat) : Int) =
      .ok (((bitsToNat bs : Nat) : Int), ((bs.length : Nat) : Int)) := by
  rw [Kernels.bitsDecode_kernel, bitsFromContent_bitsToContent]
  rfl

/-- non-vacuity: `06 6E 5D C0` is the 18-bit string 011011100101110111 (X.690 8.6.4.2) = 0x1B977; `08 FF` and an empty
    contents are refused; seven unused bits with no octet to hold them are refused -/
example : GenK.bitsDecode [0x06, 0x6E, 0x5D, 0xC0] 4 = .ok (0x1B977, 18) := by rfl
example : GenK.bitsDecode [0x08, 0xFF] 2 = .error (.lib "PyAsn1Error") := by rfl
example : GenK.bitsDecode [] 0 = .error (.lib "PyAsn1Error") := by rfl
example : GenK.bitsDecode [0x07] 1 = .error (.lib "PyAsn1Error") := by rfl
example : GenK.bitsDecode [0x00] 1 = .ok (0, 0) := by rfl

/-- **BER BOOLEAN at the source level: every contents string, any non-zero value is TRUE** - the translated INTEGER decoder
    followed by the translated `BooleanPayloadDecoder._createComponent` (`value and 1 or 0`) answers 1 exactly when the
    contents, read as a two's complement integer, are not zero: all 255 non-zero single octets, longer contents, and the
    empty contents (FALSE) - the model's lenient BOOLEAN branch -/
theorem source_ber_boolean_nonzero_is_true (c : Bytes) :
    (GenK.intDecode (Kernels.bytesInts c) >>= GenK.berBoolDec) = .ok (if intFromBytes c != 0 then 1 else 0) :=
  Kernels.berBoolDec_kernel c

/-- every single non-zero octet is TRUE -/
theorem source_ber_boolean_octet (b : UInt8) :
    (GenK.intDecode (Kernels.bytesInts [b]) >>= GenK.berBoolDec) = .ok (if b = 0 then 0 else 1) := by
  rw [Kernels.berBoolDec_kernel]
  have hb := UInt8.toNat_lt b
  have h0 : b = 0 ↔ b.toNat = 0 := by
    constructor
    · intro h; rw [h]; rfl
    · intro h; exact UInt8.toNat_inj.mp (by rw [h]; rfl)
  by_cases hz : b.toNat = 0
  · have : b = 0 := h0.mpr hz
    subst this
    rfl
  · have hne : ¬ b = 0 := fun h => hz (h0.mp h)
    simp only [hne, if_false]
    have : intFromBytes [b] ≠ 0 := by
      simp only [intFromBytes, intFromBytesAux]
      split <;> omega
    simp [this]

example : (GenK.intDecode [0x80] >>= GenK.berBoolDec) = .ok 1 := by rfl
example : (GenK.intDecode [] >>= GenK.berBoolDec) = .ok 0 := by rfl
example : (GenK.intDecode [0, 0, 1] >>= GenK.berBoolDec) = .ok 1 := by rfl

/-- over-long form: `82 00 03` is read as 3; the indefinite marker as -1 by BER and refused by a codec without
    indefinite lengths (DER) -/
example : GenK.decodeLength true 0x82 [0, 3] = .ok 3 := by rfl
example : GenK.decodeLength true 0x80 [] = .ok (-1) := by rfl
example : GenK.decodeLength false 0x80 [] = .error (.lib "PyAsn1Error") := by rfl

/-- the BER decoder tables extracted from the source admit everything the basic rules allow -/
theorem ber_compat : Compat berProfile Generated.berDecByType :=
  { bool := fun _ => rfl, seg := fun _ => ⟨rfl, by decide⟩ }

/-- **every valid BER form decodes to the value** (types without ANY; REAL in binary form, compared as
    the number it denotes).  For every
    well-formed type, every value, every tree `x` that the basic encoding rules allow as an encoding
    of the value — any length forms, definite or indefinite at each level, primitive or segmented
    (also nested) strings, any non-zero octet for TRUE, SET members in any order, SET OF elements
    in any order, DEFAULT members present or absent — followed by any octets: the BER decoder
    returns the value (equal up to the order of SET OF elements and the representation of REALs) and exactly the octets that follow. -/
theorem every_ber_form_decodes (t : Ty) (v : Val) (x : TLV) (tail : Bytes)
    (hp : t.plain = true) (hw : t.WF = true) (hx : x.WF) (hb : IsBer berProfile t v x) :
    ∃ w, decodeOne Generated.berDecByType t (x.ser ++ tail) = .ok (w, tail) ∧ VEq t v w := by
  obtain ⟨w, hd, hv, _⟩ := complete_ty berProfile Generated.berDecByType ber_compat t v x hp hw hb
  have hpo := parseOne_ser Generated.berDecByType.parse x tail hx (Or.inl rfl)
  refine ⟨w, ?_, hv⟩
  unfold decodeOne
  rw [hpo]
  simp [hd, Except.map]

/-- the relation is inhabited by forms the library's own encoder never produces: a SET whose
    members arrive in the opposite order, the first one TRUE written as 0x01, inside an
    indefinite-length element with an over-long length octet on a member -/
example :
    let t : Ty := .set (.cons .req (.prim .boolean) (.cons .req (.prim .null) .nil))
    let x : TLV := .cons [0x31, 0x80] ⟨.universal, true, 17⟩ true
      [.prim [0x05, 0x81, 0x00] ⟨.universal, false, 5⟩ [], .prim [0x01, 0x01] ⟨.universal, false, 1⟩ [0x01]]
    IsBer berProfile t (.seq [.bool true, .null]) x := by
  refine .set rfl rfl (.set (ms := [.prim [0x01, 0x01] ⟨.universal, false, 1⟩ [0x01],
      .prim [0x05, 0x81, 0x00] ⟨.universal, false, 5⟩ []]) ?_ (List.Perm.swap _ _ _))
  exact .present (.prim rfl rfl (.boolTrue (by decide)))
    (.present (.prim rfl rfl .null) .nil)

end Asn1.C09
