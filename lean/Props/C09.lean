/-
  Props.C09 — every valid BER form of a value decodes to that value.
  Proved here: the framing layer accepts every form X.690 leaves open for lengths and nesting.
-/
import Asn1.Generated
import Asn1.X690
import Proofs.Parse

namespace Asn1.C09

/-- any mix of short, long and over-long length forms and of definite/indefinite lengths at each
    constructed level: `HdrOk` only asks that the length octets *decode* to the length (so long
    forms with redundant leading zeros are included), and `TLV.WF` allows `indef` at every
    constructed node independently.  Every such tree is framed as itself by the BER decoder. -/
theorem every_framing_accepted (t : TLV) (tail : Bytes) (hw : t.WF) :
    parseOne Generated.berDecByType.parse (t.ser ++ tail) = .ok (t, tail) :=
  parseOne_ser _ t tail hw (Or.inl (by decide))

/-- a long-form length with a redundant leading zero is a legal header (non-vacuity of the above
    for over-long forms) -/
example : HdrOk [0x04, 0x82, 0x00, 0x03] ⟨.universal, false, 4⟩ (.definite 3) :=
  ⟨[0x04], [0x82, 0x00, 0x03], rfl, fun _ => rfl, fun _ => rfl⟩

end Asn1.C09
