/-
  Props.C08 — malformed input fails cleanly: only library errors, always terminates.
-/
import Asn1.Generated
import Proofs.Fuel
import Proofs.Sound
import Proofs.KernelBits

namespace Asn1.C08

/-- **termination on arbitrary input**: with the fuel the one-shot wrapper passes (`|b| + 2`) the
    framing parser never runs out of fuel, for every byte string and every configuration: the
    number of recursive steps is bounded linearly in the input size. -/
theorem framing_terminates (cfg : ParseCfg) (bs : Bytes) : parseOne cfg bs ≠ .error .fuel :=
  parseOne_ne_fuel cfg bs

/-- every successful framing step consumes at least two octets, so at most `|b| / 2` elements are
    ever delivered from `b` -/
theorem framing_progress (cfg : ParseCfg) (bs : Bytes) (t : TLV) (rest : Bytes)
    (h : parseOne cfg bs = .ok (t, rest)) : rest.length + 2 ≤ bs.length :=
  parse_consumes cfg _ bs t rest h

/-- extra fuel never changes the answer (the bound is not an artefact of the fuel chosen) -/
theorem framing_fuel_irrelevant (cfg : ParseCfg) (bs : Bytes) (g : Nat) (hg : parseFuel bs ≤ g) :
    parse cfg g bs = parseOne cfg bs :=
  parse_fuel_mono cfg (parseFuel bs) g bs hg (parseOne_ne_fuel cfg bs)

/-- **never a placeholder**: whatever is accepted under a well-formed guiding type is a complete
    value object — for all inputs -/
theorem result_is_value (cfg : DecCfg) (ty : Ty) (bs : Bytes) (v : Val) (rest : Bytes)
    (hw : ty.WF = true) (h : decodeOne cfg ty bs = .ok (v, rest)) : HasType ty v = true ∧ v ≠ .absent := by
  have hs : HasType ty v = true := by
    unfold decodeOne at h
    cases hp : parseOne cfg.parse bs with
    | error e => rw [hp] at h; simp at h
    | ok pr =>
      obtain ⟨t, r⟩ := pr
      rw [hp] at h
      simp only at h
      obtain ⟨v', hv, he⟩ := map_ok_inv _ _ _ h
      simp only [Prod.mk.injEq] at he
      obtain ⟨rfl, _⟩ := he
      exact sound_ty cfg ty t v' hw hv
  refine ⟨hs, ?_⟩
  intro he
  rw [he, HasType_ne_absent] at hs
  exact Bool.noConfusion hs

/-- **BIT STRING contents, at the source level: a value or the library's error, nothing else** - for arbitrary contents
    octets the primitive branch of `BitStringPayloadDecoder.valueDecoder` with `BitString.fromOctetString` (translated from
    /repo on this run) hands out a value or raises PyAsn1Error: no IndexError from the missing unused-bits octet, no TypeError
    from `ord`, no negative bit length from unused bits that are not there -/
theorem source_bit_string_contents_fail_cleanly (c : Bytes) :
    (∃ v, GenK.bitsDecode (Kernels.bytesInts c) ((c.length : Nat) : Int) = .ok v) ∨
      GenK.bitsDecode (Kernels.bytesInts c) ((c.length : Nat) : Int) = .error (.lib "PyAsn1Error") := by
  rw [Kernels.bitsDecode_kernel]
  cases bitsFromContent c with
  | ok bs => exact Or.inl ⟨_, rfl⟩
  | error e => exact Or.inr rfl

/-- and what it hands out never has a negative length: the bit length is that of a list -/
theorem source_bit_string_length_nonneg (c : Bytes) (v n : Int)
    (h : GenK.bitsDecode (Kernels.bytesInts c) ((c.length : Nat) : Int) = .ok (v, n)) : 0 ≤ v ∧ 0 ≤ n := by
  rw [Kernels.bitsDecode_kernel] at h
  cases hb : bitsFromContent c with
  | ok bs =>
    rw [hb] at h
    simp only [Kernels.liftBits, Except.ok.injEq, Prod.mk.injEq] at h
    omega
  | error e => rw [hb] at h; simp [Kernels.liftBits] at h

example : GenK.bitsDecode [0x09, 0xFF, 0xFF] 3 = .error (.lib "PyAsn1Error") := by rfl
example : GenK.bitsDecode [0x03] 1 = .error (.lib "PyAsn1Error") := by rfl

/-- **NULL contents, at the source level: accepted empty, refused otherwise - by the library's error** (the translated
    `NullPayloadDecoder.valueDecoder`): any contents octets at all are "Unexpected n-octet substrate for Null", a constructed
    identifier is "Simple tag format expected"; nothing else can come out -/
theorem source_null_contents_fail_cleanly (notSimple : Bool) (c : Bytes) :
    GenK.nullDecode notSimple (Kernels.bytesInts c) ((c.length : Nat) : Int) =
      if !notSimple && c.isEmpty then .ok 0 else .error (.lib "PyAsn1Error") := by
  rw [Kernels.nullDecode_kernel]
  cases notSimple <;> cases c <;> simp

example : GenK.nullDecode false [] 0 = .ok 0 := by rfl
example : GenK.nullDecode false [0] 1 = .error (.lib "PyAsn1Error") := by rfl

/-- the decoders' error state for unknown tags is "raise a library error" in all three codecs
    (generated from `SingleItemDecoder.defaultErrorState`; 8 = stErrorCondition) -/
theorem default_error_state :
    Generated.berDecDefaultErrorState = 8 ∧ Generated.cerDecDefaultErrorState = 8 ∧
    Generated.derDecDefaultErrorState = 8 := by
  decide

end Asn1.C08
