/-
  Props.C08 — malformed input fails cleanly: only library errors, always terminates.
-/
import Asn1.Generated
import Proofs.Fuel
import Proofs.Sound

namespace Asn1.C08

/-- **termination on arbitrary input**: with the fuel the one-shot wrapper passes (`|b| + 2`) the
    framing parser never runs out of fuel, for every byte string and every configuration: the
    number of recursive steps is bounded linearly in the input size. -/
theorem framing_terminates (cfg : ParseCfg) (bs : Bytes) : parseOne cfg bs ≠ .error .fuel :=
  parseOne_ne_fuel cfg bs

/-- every successful framing step consumes at least two octets, so at most `|b| / 2` elements are
    ever delivered from `b` -/
theorem framing_progress (cfg : ParseCfg) (bs : Bytes) (t : TLV) (rest : Bytes)
    (h : parseOne cfg bs = .ok (t, rest)) : rest.length + 2 ≤ bs.length :=
  parse_consumes cfg _ bs t rest h

/-- extra fuel never changes the answer (the bound is not an artefact of the fuel chosen) -/
theorem framing_fuel_irrelevant (cfg : ParseCfg) (bs : Bytes) (g : Nat) (hg : parseFuel bs ≤ g) :
    parse cfg g bs = parseOne cfg bs :=
  parse_fuel_mono cfg (parseFuel bs) g bs hg (parseOne_ne_fuel cfg bs)

/-- **never a placeholder**: whatever is accepted under a well-formed guiding type is a complete
    value object — for all inputs -/
theorem result_is_value (cfg : DecCfg) (ty : Ty) (bs : Bytes) (v : Val) (rest : Bytes)
    (hw : ty.WF = true) (h : decodeOne cfg ty bs = .ok (v, rest)) : HasType ty v = true ∧ v ≠ .absent := by
  have hs : HasType ty v = true := by
    unfold decodeOne at h
    cases hp : parseOne cfg.parse bs with
    | error e => rw [hp] at h; simp at h
    | ok pr =>
      obtain ⟨t, r⟩ := pr
      rw [hp] at h
      simp only at h
      obtain ⟨v', hv, he⟩ := map_ok_inv _ _ _ h
      simp only [Prod.mk.injEq] at he
      obtain ⟨rfl, _⟩ := he
      exact sound_ty cfg ty t v' hw hv
  refine ⟨hs, ?_⟩
  intro he
  rw [he, HasType_ne_absent] at hs
  exact Bool.noConfusion hs

/-- the decoders' error state for unknown tags is "raise a library error" in all three codecs
    (generated from `SingleItemDecoder.defaultErrorState`; 8 = stErrorCondition) -/
theorem default_error_state :
    Generated.berDecDefaultErrorState = 8 ∧ Generated.cerDecDefaultErrorState = 8 ∧
    Generated.derDecDefaultErrorState = 8 := by
  decide

end Asn1.C08
