/-
  Props.C14 — constraints mean what set theory says and cannot be bypassed.
  Property theorems only; lemmas live in Proofs/Constraint*.lean; the model is Asn1/Constraint.lean
  (pyasn1/type/constraint.py and the constraint-related parts of base.py / univ.py / ber/encoder.py
  as they are after the /repo fixes e45f9fd, 317983f, 8df4c27).
-/
import Proofs.Constraint
import Proofs.ConstraintTyped
import Proofs.ConstraintDerive
import Proofs.ConstraintSound
import Proofs.KernelConstraint

namespace Asn1.C14

open Asn1.Constraint

theorem eval_eq_true (c : Constr) (i : Option Nat) (v : CVal) :
    eval c i v = true ↔ run c i v = .accept := by
  simp [eval]

/-- **Constraint expressions admit exactly their set-theoretic denotation.**  For every expression
    over the public classes (any depth), every `idx` and every candidate value: unless evaluation
    dies with a non-library exception (`leak`: the constraint is not applicable to that kind of
    value), pyasn1's `c(value, idx)` returns normally iff the value is in `den c`
    (membership, ⋂, ⋃, complement; an operand-less constraint denotes "unconstrained"). -/
theorem eval_iff_den (c : Constr) (i : Option Nat) (v : CVal) (h : run c i v ≠ .leak) :
    eval c i v = true ↔ den c i v := by
  rw [eval_eq_true]
  exact run_sound c i v h

/-- a constructible constraint applied to a value of a kind it is applicable to (ranges to
    integers, sizes to sized values, alphabets to iterables, WITH COMPONENTS to mappings, …) never
    raises anything but ValueConstraintError -/
theorem typed_never_leaks (c : Constr) (i : Option Nat) (v : CVal)
    (hw : c.wf = true) (ht : typed c v = true) : run c i v ≠ .leak :=
  typed_no_leak c i v hw ht

/-- … so on the property's domain evaluation decides membership in the denotation -/
theorem eval_iff_den_typed (c : Constr) (i : Option Nat) (v : CVal)
    (hw : c.wf = true) (ht : typed c v = true) : eval c i v = true ↔ den c i v :=
  eval_iff_den c i v (typed_no_leak c i v hw ht)

/-- `subtypeSpec + extra` (what `subtype(subtypeSpec=extra)` computes) denotes the intersection -/
theorem derive_is_intersection (c extra : Constr) (i : Option Nat) (v : CVal) :
    den (derive c extra) i v ↔ den c i v ∧ den extra i v :=
  derive_den c extra i v

/-- **A derived type admits a subset of its parent's values.** -/
theorem subtype_subset (c extra : Constr) (i : Option Nat) (v : CVal)
    (h : den (derive c extra) i v) : den c i v :=
  ((derive_den c extra i v).mp h).1

/-- … along any derivation chain `T0 → subtype → subtype → …` -/
theorem chain_subset (c : Constr) (i : Option Nat) (v : CVal) :
    ∀ (es : List Constr), den (deriveChain c es) i v → den c i v
  | [], h => by simpa [deriveChain] using h
  | e :: es, h => by
    simp only [deriveChain] at h
    exact subtype_subset c e i v (chain_subset (derive c e) i v es h)

/-- **The parent recognises the derived constraint set as its subtype.** -/
theorem subtype_recognised (parent extra : Constr) (hw : parent.wf = true) :
    isSuperTypeOf parent (derive parent extra) = true :=
  super_of_imposes parent _ hw (imposes_derive parent extra)

/-- … and so does every ancestor along a derivation chain (also the chain of length 0) -/
theorem chain_recognised (ancestor : Constr) (hw : ancestor.wf = true) (es : List Constr) :
    isSuperTypeOf ancestor (deriveChain ancestor es) = true := by
  cases es with
  | nil => simpa [deriveChain] using super_refl ancestor
  | cons e es =>
    simp only [deriveChain]
    exact super_of_imposes ancestor _ hw (imposes_chain ancestor es _ (imposes_derive ancestor e))

/-- **Values of a derived type can be assigned where the parent is expected**: the check of
    `setComponentByPosition` (non-strict: `componentType.isSuperTypeOf(value)`, tags and
    constraints) passes for `parent.subtype(subtypeSpec=extra)` and for
    `parent.subtype(explicitTag=…, subtypeSpec=extra)`, with or without `extra`. -/
theorem assignable_derived (parent child : STy) (tg : Tagging) (extra : Option Constr)
    (hw : parent.spec.wf = true) (htg : ∀ c n, tg ≠ .implicit c n)
    (h : parent.subtype tg extra = some child) : assignable false parent child = true := by
  have hspec : Constraint.isSuperTypeOf parent.spec (deriveOpt parent.spec extra) = true := by
    cases extra with
    | none => exact super_refl _
    | some e => exact subtype_recognised _ e hw
  cases tg with
  | none =>
    simp only [STy.subtype, Option.some.injEq] at h
    subst h
    simp [assignable, STy.isSuperTypeOf, superTagSet_refl, hspec]
  | explicit c n =>
    simp only [STy.subtype, TagSet.tagExplicitly] at h
    by_cases hc : c = .universal
    · simp [hc] at h
    · simp only [hc, if_false, Option.map_some, Option.some.injEq] at h
      subst h
      simp [assignable, STy.isSuperTypeOf, superTagSet_append, hspec]
  | implicit c n => exact absurd rfl (htg c n)

/-- **The assignment check cannot be used to bypass a constraint.**  Whatever value object the check of
    `setComponentByPosition` lets into a field — non-strict (`isSuperTypeOf`: the value's type is, or is
    derived from, the field's type) or strict (`isSameTypeWith`) — holds a value in the denotation of
    the *field's* constraint, given that it is in the denotation of its own type's constraint (which
    `scalar_ops_checked` guarantees for every value object).  Full statement: for every pair of
    constraint sets.  Proved: for value types without a ConstraintsUnion on their value-map path —
    the excluded region is exactly the recorded finding U1 (`P` counts as a supertype of `P | Q`,
    pinned by tests/type/test_constraint.py DirectDerivationTestCase.testGoodVal); the witness below
    shows the unrestricted statement is false of model and code alike. -/
theorem assignment_check_sound_partial (strict : Bool) (fieldTy valueTy : STy)
    (hw : fieldTy.spec.wf = true) (hu : valueTy.spec.noUnionMap = true)
    (h : assignable strict fieldTy valueTy = true) (i : Option Nat) (v : CVal)
    (hv : den valueTy.spec i v) : den fieldTy.spec i v := by
  cases strict with
  | true =>
    simp only [assignable, if_true, STy.isSameTypeWith, Bool.and_eq_true, decide_eq_true_eq] at h
    rw [h.2]; exact hv
  | false =>
    simp only [assignable, Bool.false_eq_true, if_false, STy.isSuperTypeOf, Bool.and_eq_true] at h
    exact supertype_sound _ _ hw hu h.2 i v hv

/-- finding U1 in the model: INTEGER (0..5) accepts a value object of type INTEGER (0..5 | 20..30) holding 25 -/
theorem union_operand_counts_as_supertype :
    isSuperTypeOf (valueRange 0 5) (union [valueRange 0 5, valueRange 20 30]) = true ∧
    eval (union [valueRange 0 5, valueRange 20 30]) none (.atom (.int 25)) = true ∧
    eval (valueRange 0 5) none (.atom (.int 25)) = false := by decide

theorem mkScalar_checked {ty : STy} {a : Atom} {r : Scalar} (h : mkScalar ty a = .ok r) :
    eval r.ty.spec none (.atom r.value) = true := by
  unfold mkScalar at h
  cases hr : run ty.spec none (.atom a) with
  | accept =>
    simp only [hr, Except.ok.injEq] at h
    subst h
    simp [eval, hr]
  | reject => simp [hr] at h
  | leak => simp [hr] at h

/-- **No way of producing a scalar value object yields a value its type's constraints reject**:
    construction, `clone`, `subtype` (new tags and/or added constraints, with or without a new
    value), every arithmetic / slicing / concatenation / repetition method (`applyOp f`, `f` the
    payload expression — they are all `return self.clone(f(self._value))`) and decoding
    (`asn1Spec.clone(payload)`) either fail or return an object whose value its own (possibly
    narrowed) constraint accepts. -/
theorem scalar_ops_checked :
    (∀ ty a r, mkScalar ty a = .ok r → eval r.ty.spec none (.atom r.value) = true) ∧
    (∀ (x : Scalar) value r, x.clone value = .ok r → eval r.ty.spec none (.atom r.value) = true) ∧
    (∀ (x : Scalar) value tg extra r, x.subtype value tg extra = .ok r →
        eval r.ty.spec none (.atom r.value) = true) ∧
    (∀ (x : Scalar) f r, x.applyOp f = .ok r → eval r.ty.spec none (.atom r.value) = true) ∧
    (∀ ty payload r, decodeScalar ty payload = .ok r → eval r.ty.spec none (.atom r.value) = true) := by
  refine ⟨fun _ _ _ h => mkScalar_checked h, fun _ _ _ h => mkScalar_checked h, ?_, ?_,
    fun _ _ _ h => mkScalar_checked h⟩
  · intro x value tg extra r h
    unfold Scalar.subtype at h
    cases hs : x.ty.subtype tg extra with
    | none => simp [hs] at h
    | some ty => exact mkScalar_checked (by simpa [hs] using h)
  · intro x f r h
    unfold Scalar.applyOp at h
    cases hf : f x.value with
    | none => simp [hf] at h
    | some a => exact mkScalar_checked (by simpa [hf] using h)

/-- … hence the value is in the denotation of the object's constraint, and (for `subtype` with an
    added constraint) in the parent's -/
theorem scalar_value_in_denotation {ty : STy} {a : Atom} {r : Scalar} (h : mkScalar ty a = .ok r) :
    den r.ty.spec none (.atom r.value) := by
  have he := mkScalar_checked h
  have hl : run r.ty.spec none (.atom r.value) ≠ .leak := by
    intro hl
    simp [eval, hl] at he
  exact (eval_iff_den _ _ _ hl).mp he

/-- **Encoders refuse constructed values that violate their constraints**: the gate
    `inconsistency = value.isInconsistent; if inconsistency: raise` lets the encoder go on only
    when the `{idx|name: component}` mapping is in the denotation of the (constructible) subtypeSpec -/
theorem constructed_refused (spec : Constr) (mapping : CVal) (hw : spec.wf = true)
    (h : encodeGate spec mapping = .accept) : den spec none mapping := by
  unfold encodeGate at h
  by_cases ht : spec.truthy = true
  · simp only [ht, Bool.not_true, Bool.false_eq_true, if_false] at h
    exact (run_sound spec none mapping (by simp [h])).mp h
  · -- operand-less subtypeSpec: unconstrained
    obtain ⟨k, ops⟩ := spec
    have hn : ops = .nil := by
      cases k <;> cases ops <;> simp_all [Constr.truthy, Ops.isNil]
    subst hn
    cases k <;> simp_all [den, Constr.truthy, Constr.wf, bounds, wfOps]

/-- … and refuse with a library error (not a leak) exactly when the mapping is outside the
    denotation, provided the constraint is applicable to the mapping -/
theorem constructed_refused_iff (spec : Constr) (mapping : CVal) (hw : spec.wf = true)
    (ht : typed spec mapping = true) :
    encodeGate spec mapping = .reject ↔ ¬ den spec none mapping := by
  have hl := typed_no_leak spec none mapping hw ht
  constructor
  · intro h hd
    unfold encodeGate at h
    by_cases htr : spec.truthy = true
    · simp only [htr, Bool.not_true, Bool.false_eq_true, if_false] at h
      have := (run_sound spec none mapping hl).mpr hd
      rw [h] at this
      cases this
    · simp [htr] at h
  · intro hd
    cases hg : encodeGate spec mapping with
    | accept => exact absurd (constructed_refused spec mapping hw hg) hd
    | reject => rfl
    | leak =>
      unfold encodeGate at hg
      by_cases htr : spec.truthy = true
      · simp only [htr, Bool.not_true, Bool.false_eq_true, if_false] at hg
        exact absurd hg hl
      · simp [htr] at hg

/-- a legacy `sizeSpec` never displaces the subtypeSpec (fixes b99ccc0, 6dc686b, 63bd1d5): whatever the moved
    constraint set admits, the declared subtypeSpec admits -/
theorem sizeSpec_keeps_subtypeSpec (subtypeSpec sizeSpec : Constr) (i : Option Nat) (v : CVal)
    (h : den (moveSizeSpec subtypeSpec sizeSpec) i v) : den subtypeSpec i v := by
  unfold moveSizeSpec at h
  by_cases h1 : (!sizeSpec.truthy) = true
  · simpa [h1] using h
  · by_cases h2 : (!subtypeSpec.truthy) = true
    · simp only [h1, h2, if_true, Bool.false_eq_true, if_false] at h
      exact ((derive_den _ _ i v).mp h).1
    · by_cases h3 : (!imposedBy sizeSpec subtypeSpec) = true
      · simp only [h1, h2, h3, if_true, Bool.false_eq_true, if_false] at h
        rw [den_intersection] at h
        exact h.1
      · simpa [h1, h2, h3] using h

/-! ### non-vacuity: concrete instances (the witnesses of the repaired defects among them) -/

/-- INTEGER (0..10) -/
def tI : Constr := intersection [valueRange 0 10]
/-- INTEGER (0..10)(3|4|20) as `subtype()` builds it -/
def tJ : Constr := derive tI (singleValue [.int 3, .int 4, .int 20])

example : tI.wf = true := by decide
example : eval tJ none (.atom (.int 3)) = true := by decide
example : eval tJ none (.atom (.int 20)) = false := by decide
example : den tJ none (.atom (.int 3)) := (eval_iff_den _ _ _ (by decide)).mp (by decide)
example : ¬ den tJ none (.atom (.int 20)) := fun h => by
  have := (eval_iff_den tJ none (.atom (.int 20)) (by decide)).mpr h
  revert this; decide
/-- premises of `assignment_check_sound_partial` are satisfiable: field INTEGER (0..10), value type derived from it -/
example : tI.wf = true ∧ tJ.noUnionMap = true ∧ assignable false ⟨[], tI⟩ ⟨[], tJ⟩ = true := by decide
/-- T6: the parent recognises the flattened derived set -/
example : isSuperTypeOf tI tJ = true := subtype_recognised tI _ (by decide)
example : isSuperTypeOf tJ tI = false := by decide
/-- a union imposes none of its operands (fix f8fea03): INTEGER (0..10) is not a supertype of
    INTEGER (0..10 | 20..30) -/
example : isSuperTypeOf tI (intersection [union [valueRange 0 10, valueRange 20 30]]) = false := by decide
example : isSuperTypeOf tI (deriveChain tI [valueRange 1 9, singleValue [.int 3], valueRange 3 3]) = true :=
  chain_recognised tI (by decide) _
/-- a parent declared with a bare (non-intersection) subtypeSpec: `subtype()` narrows (fix 8df4c27) -/
example : eval (derive (singleValue [.int 1, .int 2, .int 3, .int 6]) (singleValue [.int 7])) none (.atom (.int 7)) = false := by
  decide
/-- T9: ContainedSubtypeConstraint with plain operands -/
example : eval (containedSubtype (.con (singleValue [.int 1, .int 2, .int 3, .int 6]) (.raw (.int 2) (.raw (.int 18) .nil))))
    none (.atom (.int 2)) = true := by decide
/-- a leak (size of an int) is a leak, not a rejection -/
example : run (valueSize 1 2) none (.atom (.int 5)) = .leak := by decide
example : typed (valueSize 1 2) (.atom (.int 5)) = false := by decide
/-- WITH COMPONENTS (id PRESENT, name ABSENT | id ABSENT, name PRESENT) -/
def tItem : Constr :=
  union [withComponents (.field "id" componentPresent (.field "name" componentAbsent .nil)),
         withComponents (.field "id" componentAbsent (.field "name" componentPresent .nil))]
example : encodeGate tItem (.record [("id", .int 1)]) = .accept := by decide
example : encodeGate tItem (.record [("id", .int 1), ("name", .bytes [120])]) = .reject := by decide
example : encodeGate (intersection [valueSize 1 2]) (.coll [.int 0, .int 1, .int 2]) = .reject := by decide
example : typed tItem (.record [("id", .int 1)]) = true ∧ tItem.wf = true := by decide
/-- `==` ignores the class; neither the imposed-by test (fix a3e4c68) nor the subtype test (fix 5ea3865) does:
    INTEGER (1 | 5) is not a supertype of INTEGER (1..5) -/
example : pyEq (intersection [singleValue [.int 1, .int 5]]) (intersection [valueRange 1 5]) = true := by decide
example : isSuperTypeOf (intersection [singleValue [.int 1, .int 5]]) (intersection [valueRange 1 5]) = false := by decide
example : imposedBy (singleValue [.int 1, .int 5]) (intersection [valueRange 1 5]) = false := by decide
example : moveSizeSpec (exclusion [valueSize 3 4]) (intersection [valueSize 3 4])
    = intersection [exclusion [valueSize 3 4], intersection [valueSize 3 4]] := by decide
example : moveSizeSpec (intersection [valueSize 1 1]) (intersection [valueSize 1 5])
    = intersection [intersection [valueSize 1 1], intersection [valueSize 1 5]] := by decide
/-- assignment of a derived, explicitly tagged value to a field of the parent type -/
example : assignable false ⟨[⟨.universal, false, 2⟩], tI⟩
    ⟨[⟨.universal, false, 2⟩, ⟨.context, true, 0⟩], tJ⟩ = true :=
  assignable_derived _ _ (.explicit .context 0) (some (singleValue [.int 3, .int 4, .int 20]))
    (by decide) (by intro c n h; cases h) (by decide)
/-- scalar operations: 7 + 5 leaves INTEGER (0..10), 7 + 3 does not -/
example : (Scalar.applyOp ⟨⟨[], tI⟩, .int 7⟩ (pyAdd 5)).isOk = false := by decide
example : (Scalar.applyOp ⟨⟨[], tI⟩, .int 7⟩ (pyAdd 3)).isOk = true := by decide
example : (Scalar.applyOp ⟨⟨[], intersection [valueSize 2 4]⟩, .bytes [97, 98, 99]⟩ (pySlice 0 1)).isOk = false := by
  decide

/-! ### at the source level: the leaf tests, translated from /repo on this run -/

/-- `ValueRangeConstraint._testValue` (type/constraint.py, translated by gen/py2lean.py into `GenK.rangeTest`; `start`
    and `stop` as parameters) is the model's evaluation of a value range on an integer payload: accepted exactly between
    the bounds, `ValueConstraintError` otherwise -/
theorem source_range_is_model (lo hi z : Int) (i : Option Nat) :
    GenK.rangeTest lo hi z = Kernels.liftRes (run (valueRange lo hi) i (.atom (.int z))) := by
  rw [Kernels.rangeTest_kernel]; simp [run, valueRange, bounds]

/-- `ValueSizeConstraint._testValue` on an octet payload -/
theorem source_size_is_model (lo hi : Int) (bs : List Nat) (i : Option Nat) :
    GenK.sizeTest lo hi (bs.map Int.ofNat) = Kernels.liftRes (run (valueSize lo hi) i (.atom (.bytes bs))) := by
  rw [Kernels.sizeTest_kernel]; simp [run, valueSize, bounds]

/-- `SingleValueConstraint._testValue` on an integer payload (a constraint with operands: the operand-less one never
    reaches `_testValue`) -/
theorem source_single_value_is_model (s : List Int) (hs : s ≠ []) (z : Int) (i : Option Nat) :
    GenK.singleValueTest s z = Kernels.liftRes (run (singleValue (s.map Atom.int)) i (.atom (.int z))) := by
  rw [Kernels.singleValueTest_kernel]
  cases s with
  | nil => exact absurd rfl hs
  | cons a r =>
    have hr : ∀ l : List Atom, (Ops.ofRaws l).raws = l := by
      intro l; induction l with
      | nil => rfl
      | cons x xs ih => simp [Ops.ofRaws, Ops.raws, ih]
    simp [run, singleValue, Ops.ofRaws, Ops.isNil, Ops.raws, hr]

/-- `PermittedAlphabetConstraint._testValue` on an octet payload -/
theorem source_alphabet_is_model (s : List Int) (hs : s ≠ []) (bs : List Nat) (i : Option Nat) :
    GenK.alphabetTest s (bs.map Int.ofNat) =
      Kernels.liftRes (run (permittedAlphabet (s.map Atom.int)) i (.atom (.bytes bs))) := by
  rw [Kernels.alphabetTest_kernel]
  cases s with
  | nil => exact absurd rfl hs
  | cons a r =>
    have hr : ∀ l : List Atom, (Ops.ofRaws l).raws = l := by
      intro l; induction l with
      | nil => rfl
      | cons x xs ih => simp [Ops.ofRaws, Ops.raws, ih]
    simp [run, permittedAlphabet, Ops.ofRaws, Ops.isNil, Ops.raws, hr]

/-- **the set operations at the source level**: `ConstraintsIntersection._testValue`, `ConstraintsUnion._testValue` and
    `ConstraintsExclusion._testValue` (translated by gen/py2lean.py; the operands are handles, calling one is a callback
    parameter) evaluate, for whatever constraints the handles stand for, to the model's verdict on the intersection / union
    / exclusion of those constraints - which `eval_iff_den` identifies with ⋂, ⋃ and complement -/
theorem source_intersection_is_model (r : Int → Constr) (ks : List Int) (hk : ks ≠ []) (i : Option Nat) (v : CVal) :
    GenK.intersectionTest ks (fun k => Kernels.liftRes (run (r k) i v)) =
      Kernels.liftRes (run (intersection (ks.map r)) i v) :=
  Kernels.intersectionTest_kernel r ks hk i v

theorem source_union_is_model (r : Int → Constr) (ks : List Int) (hk : ks ≠ []) (i : Option Nat) (v : CVal) :
    GenK.unionTest ks (fun k => Kernels.liftRes (run (r k) i v)) = Kernels.liftRes (run (union (ks.map r)) i v) :=
  Kernels.unionTest_kernel r ks hk i v

theorem source_exclusion_is_model (r : Int → Constr) (ks : List Int) (hk : ks ≠ []) (i : Option Nat) (v : CVal) :
    GenK.exclusionTest ks (fun k => Kernels.liftRes (run (r k) i v)) =
      Kernels.liftRes (run (exclusion (ks.map r)) i v) :=
  Kernels.exclusionTest_kernel r ks hk i v

/-- non-vacuity: operands 0 (accepts) and 1 (refuses) -/
example : GenK.unionTest [1, 0] (fun k => if k = 0 then .ok () else .error (.lib "ValueConstraintError")) = .ok () := by rfl
example : GenK.intersectionTest [0, 1] (fun k => if k = 0 then .ok () else .error (.lib "ValueConstraintError")) =
    .error (.lib "ValueConstraintError") := by rfl
example : GenK.exclusionTest [1, 1] (fun k => if k = 0 then .ok () else .error (.lib "ValueConstraintError")) = .ok () := by rfl

example : GenK.rangeTest 0 10 11 = .error (.lib "ValueConstraintError") := by rfl
example : GenK.sizeTest 2 4 [97, 98, 99] = .ok () := by rfl
example : GenK.alphabetTest [97, 98] [97, 99] = .error (.lib "ValueConstraintError") := by rfl

end Asn1.C14
