/-
  Props.C10 — whatever a decoder accepts is a well-formed, re-encodable value of the type.
-/
import Asn1.Generated
import Proofs.Sound
import Proofs.Codec
import Proofs.KernelGate

namespace Asn1.C10

/-- **decode soundness**: for every decoder configuration, every well-formed guiding type and
    EVERY input (valid or damaged), a returned value is a complete value of the type: every
    mandatory component present, every component of its declared type (by induction on the type,
    unbounded nesting). -/
theorem decode_sound (cfg : DecCfg) (ty : Ty) (bs : Bytes) (v : Val) (rest : Bytes)
    (hw : ty.WF = true) (h : decodeOne cfg ty bs = .ok (v, rest)) : HasType ty v = true := by
  unfold decodeOne at h
  cases hp : parseOne cfg.parse bs with
  | error e => rw [hp] at h; simp at h
  | ok pr =>
    obtain ⟨t, r⟩ := pr
    rw [hp] at h
    simp only at h
    obtain ⟨v', hv, he⟩ := map_ok_inv _ _ _ h
    simp only [Prod.mk.injEq] at he
    obtain ⟨rfl, _⟩ := he
    exact sound_ty cfg ty t v' hw hv

/-- the same for the three configurations the source defines -/
theorem decode_sound_ber_cer_der (ty : Ty) (bs : Bytes) (v : Val) (rest : Bytes) (hw : ty.WF = true) :
    (decodeOne Generated.berDecByType ty bs = .ok (v, rest) → HasType ty v = true) ∧
    (decodeOne Generated.cerDecByType ty bs = .ok (v, rest) → HasType ty v = true) ∧
    (decodeOne Generated.derDecByType ty bs = .ok (v, rest) → HasType ty v = true) :=
  ⟨decode_sound _ ty bs v rest hw, decode_sound _ ty bs v rest hw, decode_sound _ ty bs v rest hw⟩

/-- a complete value is never the placeholder -/
theorem accepted_is_value (cfg : DecCfg) (ty : Ty) (bs : Bytes) (v : Val) (rest : Bytes)
    (hw : ty.WF = true) (h : decodeOne cfg ty bs = .ok (v, rest)) : v ≠ .absent := by
  intro he
  have := decode_sound cfg ty bs v rest hw h
  rw [he, HasType_ne_absent] at this
  exact Bool.noConfusion this

/-- **the accepted value re-encodes and the re-encoding is a fixpoint** (BER, any mode; region: no
    ANY, finding E1 in indefinite mode).  Whatever the BER decoder returned for *any* input — valid,
    damaged, in any form — is a complete value (`decode_sound`); if the library's encoder accepts it
    (it refuses only values whose lengths cannot be written), decoding that re-encoding gives the same
    abstract value again and nothing is left over. -/
theorem accepted_reencodes_to_fixpoint (ty : Ty) (bs : Bytes) (v : Val) (rest : Bytes)
    (defMode : Bool) (maxChunk : Nat) (b : Bytes)
    (hw : ty.WF = true) (hreg : ty.reg true Generated.berEnc defMode = true)
    (h : decodeOne Generated.berDecByType ty bs = .ok (v, rest))
    (he : encItem Generated.berEnc { defMode := defMode, maxChunk := maxChunk } ty v = .ok b) :
    ∃ w, decodeOne Generated.berDecByType ty b = .ok (w, []) ∧ VEq ty v w := by
  have hty := decode_sound _ ty bs v rest hw h
  have hR : EncRegion Generated.berEnc berProfile
      (Generated.berEnc.fixedChunk.getD ({ defMode := defMode, maxChunk := maxChunk } : EncOpts).maxChunk) :=
    { boolT := by decide, chunk := Or.inr rfl, setOmit := Or.inl rfl }
  have hC : Compat berProfile Generated.berDecByType :=
    { bool := fun _ => rfl, seg := fun _ => ⟨rfl, by decide⟩ }
  -- with seqOmitEmpty = false no member is ever left out for being empty
  have hn : noE3 Generated.berEnc.seqOmitEmpty ty v = true := noE3_false ty v
  have := codec_roundtrip Generated.berEnc Generated.berDecByType berProfile
    { defMode := defMode, maxChunk := maxChunk } rfl hR hC (Or.inr rfl) ty v b [] hreg hw hty hn he
  simpa using this

/-- non-vacuity: a nested well-formed type with OPTIONAL, DEFAULT, CHOICE and tags -/
example : (Ty.seq (.cons .req (.prim .integer)
            (.cons .opt (.tagged true .context 0 (.prim .boolean))
            (.cons (.dflt (.int 5)) (.tagged false .context 1 (.prim .integer))
            (.cons .req (.choice (.cons .req (.prim .null) (.cons .req (.prim (.str 4)) .nil))) .nil))))).WF = true := by
  decide

/-! ### at the source level: the decoders' completeness gate, translated from /repo on this run -/

/-- **a record with a mandatory member missing does not get out of the decoder, at the source level**: the statement
    `if not namedTypes.requiredComponents.issubset(seenIndices): raise ...` of `ConstructedPayloadDecoderBase.valueDecoder`
    and of `indefLenValueDecoder` (translated into `GenK.requiredSeen` / `GenK.requiredSeenIndef`) raises the library's error
    whenever some mandatory position `i` is not among the positions seen - whatever else was seen, in whatever order -/
theorem source_missing_mandatory_is_refused (req seen : List Nat) (i : Nat) (hi : i ∈ req) (hn : i ∉ seen) :
    GenK.requiredSeen (Kernels.natInts req) (Kernels.natInts seen) = .error (.lib "PyAsn1Error") ∧
      GenK.requiredSeenIndef (Kernels.natInts req) (Kernels.natInts seen) = .error (.lib "PyAsn1Error") := by
  have hall : req.all (fun j => seen.contains j) = false := by
    rw [Bool.eq_false_iff]
    intro h
    rw [List.all_eq_true] at h
    have := h i hi
    simp only [List.contains_iff_mem] at this
    exact hn (by simpa using this)
  rw [Kernels.requiredSeen_kernel, Kernels.requiredSeenIndef_kernel, hall]
  exact ⟨rfl, rfl⟩

/-- and conversely the gate lets a complete record through: every mandatory position seen - accepted -/
theorem source_complete_record_passes (req seen : List Nat) (h : ∀ i ∈ req, i ∈ seen) :
    GenK.requiredSeen (Kernels.natInts req) (Kernels.natInts seen) = .ok 0 ∧
      GenK.requiredSeenIndef (Kernels.natInts req) (Kernels.natInts seen) = .ok 0 := by
  have hall : req.all (fun j => seen.contains j) = true := by
    rw [List.all_eq_true]
    intro j hj
    simpa using h j hj
  rw [Kernels.requiredSeen_kernel, Kernels.requiredSeenIndef_kernel, hall]
  exact ⟨rfl, rfl⟩

/-- non-vacuity: mandatory positions 0 and 2 of a three-member SET; members arriving as 2, 1 - position 0 missing -/
example : GenK.requiredSeen [0, 2] [2, 1] = .error (.lib "PyAsn1Error") := by rfl
example : GenK.requiredSeen [0, 2] [2, 1, 0] = .ok 0 := by rfl

end Asn1.C10
