/-
  Props.C10 — whatever a decoder accepts is a well-formed, re-encodable value of the type.
-/
import Asn1.Generated
import Proofs.Sound

namespace Asn1.C10

/-- **decode soundness**: for every decoder configuration, every well-formed guiding type and
    EVERY input (valid or damaged), a returned value is a complete value of the type: every
    mandatory component present, every component of its declared type (by induction on the type,
    unbounded nesting). -/
theorem decode_sound (cfg : DecCfg) (ty : Ty) (bs : Bytes) (v : Val) (rest : Bytes)
    (hw : ty.WF = true) (h : decodeOne cfg ty bs = .ok (v, rest)) : HasType ty v = true := by
  unfold decodeOne at h
  cases hp : parseOne cfg.parse bs with
  | error e => rw [hp] at h; simp at h
  | ok pr =>
    obtain ⟨t, r⟩ := pr
    rw [hp] at h
    simp only at h
    obtain ⟨v', hv, he⟩ := map_ok_inv _ _ _ h
    simp only [Prod.mk.injEq] at he
    obtain ⟨rfl, _⟩ := he
    exact sound_ty cfg ty t v' hw hv

/-- the same for the three configurations the source defines -/
theorem decode_sound_ber_cer_der (ty : Ty) (bs : Bytes) (v : Val) (rest : Bytes) (hw : ty.WF = true) :
    (decodeOne Generated.berDecByType ty bs = .ok (v, rest) → HasType ty v = true) ∧
    (decodeOne Generated.cerDecByType ty bs = .ok (v, rest) → HasType ty v = true) ∧
    (decodeOne Generated.derDecByType ty bs = .ok (v, rest) → HasType ty v = true) :=
  ⟨decode_sound _ ty bs v rest hw, decode_sound _ ty bs v rest hw, decode_sound _ ty bs v rest hw⟩

/-- a complete value is never the placeholder -/
theorem accepted_is_value (cfg : DecCfg) (ty : Ty) (bs : Bytes) (v : Val) (rest : Bytes)
    (hw : ty.WF = true) (h : decodeOne cfg ty bs = .ok (v, rest)) : v ≠ .absent := by
  intro he
  have := decode_sound cfg ty bs v rest hw h
  rw [he, HasType_ne_absent] at this
  exact Bool.noConfusion this

/-- non-vacuity: a nested well-formed type with OPTIONAL, DEFAULT, CHOICE and tags -/
example : (Ty.seq (.cons .req (.prim .integer)
            (.cons .opt (.tagged true .context 0 (.prim .boolean))
            (.cons (.dflt (.int 5)) (.tagged false .context 1 (.prim .integer))
            (.cons .req (.choice (.cons .req (.prim .null) (.cons .req (.prim (.str 4)) .nil))) .nil))))).WF = true := by
  decide

end Asn1.C10
