/-
  Props.C11 — decoding result does not depend on the kind of input object.

  Model: Asn1/Stream.lean (c) `Wrapper` (CachingStreamWrapper over a model of io.BytesIO) next to
  `Ref` (a seekable stream over the same octets); (a) the stream kinds of `run`.
  Known finding S4 (`S4-wrapper-renumber`): setting the mark more than io.DEFAULT_BUFFER_SIZE octets
  into the cache drops the cache *and renumbers positions*; tests/codec/test_streaming.py
  testMarkedPositionResets pins `markedPosition == 0` after the drop, so `tell()` must restart too
  (AnyPayloadDecoder subtracts one from the other) and the `tell() - original_position` loops of the
  definite-length container decoders break across a drop.  The full statement
      ∀ d ops, Pre ops → Wrapper.runOps B {raw := d} ops = Ref.runOps {data := d} ops
  is therefore false (`wrapper_full_statement_fails`); proved instead: the octets always agree and
  positions agree up to the renumbering offset (`wrapper_refines`), and everything agrees for
  histories that never trigger a drop (`wrapper_refines_partial`).
-/
import Asn1.Generated
import Proofs.StreamWrapper
import Proofs.StreamIter
import Proofs.KernelStream

namespace Asn1.C11

open Asn1.Stream

variable {ε α : Type}

/-- **the seek-back wrapper behaves like a seekable stream over the same octets** for every
    history of reads, peeks, tell, set-mark, seek back by k (to ≥ mark) and seek to the mark: the
    same octets come back, and every position it reports is the reference's position minus the
    number of octets dropped from the cache so far (the renumbering offset). -/
theorem wrapper_refines (B : Nat) (d : Bytes) (ops : List WOp) (hpre : Ref.preAll { data := d } ops = true)
    (hrel : ∀ op ∈ ops, op.relative = true) :
    Wrapper.runOpsAbs B { raw := d } ops = Ref.runOps { data := d } ops :=
  runOpsAbs_eq B ops _ _ (Sim.init d) hpre hrel

/-- for histories that never trigger a cache drop (no mark is set more than `B` octets from the
    start) the outputs are identical as they are, absolute seeks (to ≥ mark, ≤ current) included -/
theorem wrapper_refines_partial (B : Nat) (d : Bytes) (ops : List WOp)
    (hpre : Ref.preAll { data := d } ops = true) (hnd : Ref.noDrop B { data := d } ops = true) :
    Wrapper.runOps B { raw := d } ops = Ref.runOps { data := d } ops :=
  runOps_eq_nodrop B ops _ _ (Sim.init d) rfl hpre hnd

/-- the renumbering, as the source has it (`B` = io.DEFAULT_BUFFER_SIZE from the translator): read
    B+1 octets, set the mark, ask for the position — the wrapper says 0, a seekable stream B+1 -/
theorem wrapper_renumber_witness (d : Bytes) (hd : Generated.defaultBufferSize + 1 ≤ d.length) :
    Wrapper.runOps Generated.defaultBufferSize { raw := d }
        [.read (Generated.defaultBufferSize + 1), .setMark, .tell] =
      [.bytes (d.take (Generated.defaultBufferSize + 1)), .unit, .nat 0] ∧
    Ref.runOps { data := d } [.read (Generated.defaultBufferSize + 1), .setMark, .tell] =
      [.bytes (d.take (Generated.defaultBufferSize + 1)), .unit, .nat (Generated.defaultBufferSize + 1)] :=
  renumber_witness _ d hd

/-- hence the unrestricted statement fails on the model (and, replayed by the check, on the code) -/
theorem wrapper_full_statement_fails :
    ¬ (∀ (d : Bytes) (ops : List WOp), Ref.preAll { data := d } ops = true →
        Wrapper.runOps Generated.defaultBufferSize { raw := d } ops = Ref.runOps { data := d } ops) := by
  intro h
  have hl : Generated.defaultBufferSize + 1 ≤ (List.replicate (Generated.defaultBufferSize + 1) (0 : UInt8)).length := by
    simp
  have hw := wrapper_renumber_witness _ hl
  have hp : ∀ (r : Ref) (n : Nat), r.preAll [.read n, .setMark, .tell] = true := fun _ _ => rfl
  have := h (List.replicate (Generated.defaultBufferSize + 1) 0)
    [.read (Generated.defaultBufferSize + 1), .setMark, .tell] (hp _ _)
  rw [hw.1, hw.2] at this
  simp only [List.cons.injEq, WOut.nat.injEq, and_true, true_and] at this
  omega

/-- the composite accesses the decoder makes respect the precondition: a read followed by putting
    back what it returned (readFromStream's own rewind of a short read; the two octets of the
    end-of-octets probe), seeking to the mark, setting the mark, asking for the position -/
theorem decoder_respects_pre (r : Ref) (hm : r.mark ≤ r.pos) (n : Nat) :
    r.preAll [.read n, .seekCur (bioRead r.data r.pos n).length] = true ∧
    r.preAll [.seekMark] = true ∧ r.preAll [.setMark] = true ∧ r.preAll [.tell] = true ∧
    r.preAll [.peek n] = true := by
  refine ⟨?_, rfl, rfl, rfl, rfl⟩
  simp only [Ref.preAll, Ref.pre, Ref.step, Bool.and_true, Bool.true_and, Bool.and_eq_true]
  exact ⟨decide_eq_true (by omega), decide_eq_true (by omega)⟩

/-- **kind independence, when no drop can occur**: if the whole input fits the buffer a program
    cannot tell the non-seekable stream behind the wrapper from a seekable one — same result,
    position, yielded objects, suspensions — on any data, open or closed -/
theorem kind_independent_partial (B : Nat) (d : Bytes) (cl : Bool) (hd : d.length ≤ B) (p : Prog ε α) :
    run .wrapped B d cl p {} = run .seekable B d cl p {} :=
  run_wrapped_eq_seekable B d cl hd p {} rfl (Nat.zero_le _) (Nat.zero_le _)

/-- … and under every arrival schedule -/
theorem kind_independent_sched_partial (B : Nat) (chunks : List Bytes) (hd : chunks.flatten.length ≤ B)
    (p : Prog ε α) (hp : p.NoReadAll) :
    runSched .wrapped B [] chunks p {} = runSched .seekable B [] chunks p {} := by
  have h1 := runSched_eq .wrapped stable_wrapped B chunks [] p {} hp
  have h2 := runSched_eq .seekable stable_seekable B chunks [] p {} hp
  simp only [List.nil_append] at h1 h2
  rw [h1, h2]
  exact kind_independent_partial B _ true hd p

/-- a BytesIO and a closed seekable stream over the same complete octets answer every primitive
    alike (bytes / BytesIO / OCTET STRING value / file / gzip reader are all one of these two) -/
theorem complete_kinds_agree (B : Nat) (d : Bytes) (p : Prog ε α) (s : St ε) (hp : s.pos ≤ d.length)
    (hm : s.mark ≤ d.length) : run .bytesIO B d true p s = run .seekable B d true p s := by
  induction p generalizing s with
  | pure a => rfl
  | fail e => rfl
  | emit x p ih => simp only [run]; exact ih _ hp hm
  | read n f ih =>
    have : readAns .bytesIO d true s.pos n = readAns .seekable d true s.pos n := rfl
    simp only [run, this]
    cases hr : readAns .seekable d true s.pos n with
    | ok b =>
      simp only
      refine ih b _ ?_ hm
      unfold readAns at hr
      by_cases hl : s.pos + n ≤ d.length
      · exact hl
      · simp only [hl, if_false] at hr; split at hr <;> simp at hr
    | wait => rfl
    | eos => rfl
  | readAll c f ih =>
    have : readAllAns .bytesIO d true s.pos = readAllAns .seekable d true s.pos := rfl
    simp only [run, this]
    cases hr : readAllAns .seekable d true s.pos with
    | ok b =>
      simp only
      refine ih b _ ?_ hm
      unfold readAllAns at hr
      by_cases hl : s.pos < d.length
      · simp only [hl, if_true, Ans.ok.injEq] at hr
        subst hr
        simp; omega
      · simp only [hl, if_false] at hr; split at hr <;> simp at hr
    | wait => rfl
    | eos => simp only; cases c <;> simp only [if_true, Bool.false_eq_true, if_false]; exact ih _ _ hp hm
  | eos f ih =>
    have : eosAns .bytesIO d true s.pos = eosAns .seekable d true s.pos := by
      rw [eosAns_closed _ d s.pos hp, eosAns_closed _ d s.pos hp]
    simp only [run, this]
    cases eosAns .seekable d true s.pos with
    | ok b => simp only; exact ih b _ hp hm
    | wait => rfl
    | eos => rfl
  | tell f ih => simp only [run]; exact ih _ _ hp hm
  | seekBack n p ih =>
    simp only [run]
    by_cases hn : n ≤ s.pos - s.base
    · simp only [hn, if_true]; exact ih _ (by simp; omega) hm
    · simp [hn]
  | mark p ih =>
    simp only [run]
    have h1 : s.setMark .bytesIO B = { s with mark := s.pos } := by unfold St.setMark; simp
    have h2 : s.setMark .seekable B = { s with mark := s.pos } := by unfold St.setMark; simp
    rw [h1, h2]; exact ih _ hp hp
  | toMark f ih => simp only [run]; exact ih _ _ hm hm

/-! ### at the source level: the methods of `CachingStreamWrapper`, translated from /repo on this run -/

/-- `CachingStreamWrapper.read(n)` of codec/streaming.py (translated by gen/py2lean.py into `GenK.wrapRead`: the
    `io.BytesIO` cache a value threaded through, the answer of `self._raw.read(...)` a parameter) is the `read` step of the
    wrapper model about which `wrapper_refines` is stated: same octets handed out, same cache and position afterwards -/
theorem source_wrapper_read_is_model (w : Wrapper) (n : Nat) (hc : w.cpos ≤ w.cache.length) :
    GenK.wrapRead (some (Kernels.bytesInts (w.raw.take (n - (bioRead w.cache w.cpos n).length)))) (n : Int) (Kernels.bioOf w) =
      .ok (some (Kernels.bytesInts (w.read n).1), Kernels.bioOf (w.read n).2) :=
  Kernels.wrapRead_kernel w n hc

/-- hence, by `read_spec`: whenever wrapper and seekable reference are in step (`Sim`), the translated `read` hands out
    exactly the octets the seekable stream hands out -/
theorem source_wrapper_read_like_seekable (w : Wrapper) (r : Ref) (n : Nat) (h : Sim w r) :
    ∃ cache', GenK.wrapRead (some (Kernels.bytesInts (w.raw.take (n - (bioRead w.cache w.cpos n).length)))) (n : Int)
        (Kernels.bioOf w) = .ok (some (Kernels.bytesInts (bioRead r.data r.pos n)), cache') := by
  refine ⟨Kernels.bioOf (w.read n).2, ?_⟩
  rw [Kernels.wrapRead_kernel w n h.cpos_le, (read_spec w r n h).1]

/-- `read(-1)` -/
theorem source_wrapper_readall_is_model (w : Wrapper) (hc : w.cpos ≤ w.cache.length) :
    GenK.wrapRead (some (Kernels.bytesInts w.raw)) (-1) (Kernels.bioOf w) =
      .ok (some (Kernels.bytesInts w.readAll.1), Kernels.bioOf w.readAll.2) :=
  Kernels.wrapReadAll_kernel w hc

/-- `peek(n)`: the model's `peek` step -/
theorem source_wrapper_peek_is_model (w : Wrapper) (n : Nat) (hc : w.cpos ≤ w.cache.length) :
    GenK.wrapPeek (some (Kernels.bytesInts (w.raw.take (n - (bioRead w.cache w.cpos n).length)))) (n : Int) (Kernels.bioOf w) =
      .ok (some (Kernels.bytesInts (w.read n).1),
        Kernels.bioOf { (w.read n).2 with cpos := (w.read n).2.cpos - (w.read n).1.length }) :=
  Kernels.wrapPeek_kernel w n hc

/-- the `markedPosition` setter: the model's `setMark` step with the buffer size the source uses (8192) - the step the
    recorded finding S4 is about (`wrapper_renumber_witness`) -/
theorem source_wrapper_mark_is_model (w : Wrapper) :
    GenK.wrapSetMark (w.cpos : Int) (Kernels.bioOf w) (w.mark : Int) =
      .ok (Kernels.bioOf (w.step 8192 .setMark).2, (((w.step 8192 .setMark).2.mark : Nat) : Int)) :=
  Kernels.wrapSetMark_kernel w

/-- non-vacuity: two octets cached, position 1, `read(3)` takes one from the cache and two from the raw stream -/
example : GenK.wrapRead (some [7, 8]) 3 ⟨[5, 6], 1⟩ = .ok (some [6, 7, 8], ⟨[5, 6, 7, 8], 4⟩) := by rfl
example : GenK.wrapPeek (some [7, 8]) 3 ⟨[5, 6], 1⟩ = .ok (some [6, 7, 8], ⟨[5, 6, 7, 8], 1⟩) := by rfl
example : GenK.wrapRead none 3 ⟨[5, 6], 2⟩ = .ok (none, ⟨[5, 6], 2⟩) := by rfl

/-- every substrate class the property names is routed by `asSeekableStream` to one of the modelled
    kinds (a BytesIO = K1, the object itself = a seekable stream K3, CachingStreamWrapper = K4) or
    refused with UnsupportedSubstrateError — never anything else, never a non-library exception -/
theorem asSeekable_total :
    Generated.substrateRouting.all (fun r => r.2 ∈
      ["BytesIO", "same", "CachingStreamWrapper", "UnsupportedSubstrateError"]) = true ∧
    ("bytes", "BytesIO") ∈ Generated.substrateRouting ∧
    ("OctetString", "BytesIO") ∈ Generated.substrateRouting ∧
    ("Any", "BytesIO") ∈ Generated.substrateRouting ∧
    ("file rb", "same") ∈ Generated.substrateRouting ∧
    ("gzip", "same") ∈ Generated.substrateRouting ∧
    ("non-seekable RawIOBase", "CachingStreamWrapper") ∈ Generated.substrateRouting ∧
    ("str", "UnsupportedSubstrateError") ∈ Generated.substrateRouting := by decide

/-- the exception raised for unsupported substrates is a library error -/
theorem unsupported_is_library_error :
    ("UnsupportedSubstrateError", "PyAsn1Error") ∈ Generated.errorSubclass := by decide

/-! ### S4 on the model: a definite-length container across a cache drop -/

/-- with a 4-octet buffer, SEQUENCE { INTEGER 5, INTEGER 7 } (`30 06 02 01 05 02 01 07`): the second
    component starts 5 octets into the cache, the mark set there drops and renumbers, and the
    container's `tell() - original_position < length` loop runs past its end into EndOfStreamError;
    on a seekable stream the element decodes -/
theorem s4_model_witness :
    (run .wrapped 4 [0x30, 0x06, 0x02, 0x01, 0x05, 0x02, 0x01, 0x07] true (streamP {} 8) {}).summary =
      (.err .eos, 3, []) ∧
    (run .seekable 4 [0x30, 0x06, 0x02, 0x01, 0x05, 0x02, 0x01, 0x07] true (streamP {} 8) {}).summary =
      (.done, 8, [8]) := by decide

/-! ### non-vacuity -/

/-- a history with a backward seek, a peek and a mark; outputs computed on both machines -/
example : Wrapper.runOps 8192 { raw := [1, 2, 3, 4, 5, 6] }
      [.read 3, .setMark, .read 2, .seekCur 2, .peek 3, .seekMark, .tell, .readAll] =
    [.bytes [1, 2, 3], .unit, .bytes [4, 5], .nat 3, .bytes [4, 5, 6], .nat 3, .nat 3, .bytes [4, 5, 6]] := by
  decide
example : Ref.preAll { data := [1, 2, 3, 4, 5, 6] }
      [.read 3, .setMark, .read 2, .seekCur 2, .peek 3, .seekMark, .tell, .readAll] = true ∧
    Ref.noDrop 8192 { data := [1, 2, 3, 4, 5, 6] }
      [.read 3, .setMark, .read 2, .seekCur 2, .peek 3, .seekMark, .tell, .readAll] = true := by decide
/-- a history across a drop (buffer of 2): octets agree, positions are renumbered -/
example : Wrapper.runOps 2 { raw := [1, 2, 3, 4, 5, 6] } [.read 3, .setMark, .tell, .read 2, .seekCur 1, .read 1] =
      [.bytes [1, 2, 3], .unit, .nat 0, .bytes [4, 5], .nat 1, .bytes [5]] ∧
    Ref.runOps { data := [1, 2, 3, 4, 5, 6] } [.read 3, .setMark, .tell, .read 2, .seekCur 1, .read 1] =
      [.bytes [1, 2, 3], .unit, .nat 3, .bytes [4, 5], .nat 4, .bytes [5]] := by decide

end Asn1.C11
