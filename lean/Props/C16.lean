/-
  Props.C16 — self-describing encodings decode faithfully without a schema.
  (The faithful-leaves theorem over the sub-universe is not closed yet; what is here is proved.)
-/
import Asn1.Generated
import Asn1.Schemaless
import Proofs.Fuel

namespace Asn1.C16

/-- the schemaless decoder model never runs out of fuel and always answers with a guessed object or
    a library error class, for every byte string -/
theorem schemaless_total (cfg : DecCfg) (bs : Bytes) :
    decodeSchemaless cfg bs ≠ .error .fuel ∨ ∃ t rest, parseOne cfg.parse bs = .ok (t, rest) := by
  unfold decodeSchemaless
  cases hp : parseOne cfg.parse bs with
  | error e =>
    left
    simp only
    intro h
    simp only [Except.error.injEq] at h
    subst h
    exact parseOne_ne_fuel cfg.parse bs hp
  | ok pr => right; exact ⟨pr.1, pr.2, rfl⟩

/-- an empty container is guessed as an (empty) SEQUENCE OF / SET OF value, never "nothing" -/
theorem empty_container_is_value (cfg : DecCfg) (h : Bytes) (tg : Tag) (i : Bool)
    (hu : tg.cls = .universal) (hn : tg.num = 16 ∨ tg.num = 17) :
    decU cfg (.cons h tg i []) = .ok (.listOf (tg.num = 17) []) := by
  simp [decU, hu, hn, decUs]

/-- the by-tag tables used without a guiding type are the strict ones for DER (generated) -/
theorem schemaless_tables :
    Generated.derDecByTag.consStr = [] ∧ Generated.derDecByTag.consBits = false ∧
    Generated.derDecByTag.boolStrict = true ∧ Generated.cerDecByTag.boolStrict = true := by
  decide

end Asn1.C16
