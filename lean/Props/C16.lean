/-
  Props.C16 — self-describing encodings decode faithfully without a schema.
  The leaves theorems are for types with universal tags and EXPLICIT tagging only, without SET / SET OF
  (whose wire order is not the declaration order) and without DEFAULT members (`Ty.selfDesc`).
-/
import Asn1.Generated
import Asn1.Schemaless
import Proofs.Fuel
import Proofs.SchemalessLeaves
import Proofs.Codec
import Proofs.Kernels

namespace Asn1.C16

/-- the schemaless decoder model never runs out of fuel and always answers with a guessed object or
    a library error class, for every byte string -/
theorem schemaless_total (cfg : DecCfg) (bs : Bytes) :
    decodeSchemaless cfg bs ≠ .error .fuel ∨ ∃ t rest, parseOne cfg.parse bs = .ok (t, rest) := by
  unfold decodeSchemaless
  cases hp : parseOne cfg.parse bs with
  | error e =>
    left
    simp only
    intro h
    simp only [Except.error.injEq] at h
    subst h
    exact parseOne_ne_fuel cfg.parse bs hp
  | ok pr => right; exact ⟨pr.1, pr.2, rfl⟩

/-- an empty container is guessed as an (empty) SEQUENCE OF / SET OF value, never "nothing" -/
theorem empty_container_is_value (cfg : DecCfg) (h : Bytes) (tg : Tag) (i : Bool)
    (hu : tg.cls = .universal) (hn : tg.num = 16 ∨ tg.num = 17) :
    decU cfg (.cons h tg i []) = .ok (.listOf (tg.num = 17) []) := by
  simp [decU, hu, hn, decUs]

/-- the by-tag tables used without a guiding type are the strict ones for DER (generated) -/
theorem schemaless_tables :
    Generated.derDecByTag.consStr = [] ∧ Generated.derDecByTag.consBits = false ∧
    Generated.derDecByTag.boolStrict = true ∧ Generated.cerDecByTag.boolStrict = true := by
  decide


/-- **every encoding the rules allow is decoded without a type to a value object with the value's
    leaves** (`Ty.selfDesc` types): for every BER form of the value — any length forms, definite or
    indefinite nesting, segmented strings, any TRUE octet, OPTIONAL members present or not — followed by
    any octets, the schemaless decoder returns an object (never a placeholder) whose scalar leaves, in
    order, are those of the value, and leaves the tail. -/
theorem schemaless_recovers_leaves (t : Ty) (v : Val) (x : TLV) (tail : Bytes)
    (hs : t.selfDesc = true) (hw : t.WF = true) (hx : x.WF) (hb : IsBer berProfile t v x) :
    ∃ u, decodeSchemaless Generated.berDecByTag (x.ser ++ tail) = .ok (u, tail) ∧
      u.leaves = leavesOf t v := by
  have hC : Compat berProfile Generated.berDecByTag :=
    { bool := fun _ => rfl, seg := fun _ => ⟨rfl, by decide⟩ }
  obtain ⟨u, hd, hl⟩ := leaves_ty berProfile Generated.berDecByTag hC t v x hs hw hb
  refine ⟨u, ?_, hl⟩
  unfold decodeSchemaless
  rw [parseOne_ser Generated.berDecByTag.parse x tail hx (Or.inl rfl)]
  simp [hd, Except.map]

/-- **DER, CER and BER encodings of a value all give its leaves back without a type**: what the three
    encoders write for a value of a `selfDesc` type is read by the schemaless decoder of the same
    codec as an object with the value's leaves and nothing left over. -/
theorem encodings_give_leaves (t : Ty) (v : Val) (hs : t.selfDesc = true) (hw : t.WF = true)
    (hty : HasType t v = true) (hn : noE3 true t v = true) :
    (∀ b, t.reg true Generated.derEnc true = true → encItem Generated.derEnc {} t v = .ok b →
        ∃ u, decodeSchemaless Generated.derDecByTag b = .ok (u, []) ∧ u.leaves = leavesOf t v) ∧
    (∀ b, t.reg true Generated.cerEnc false = true → encItem Generated.cerEnc {} t v = .ok b →
        ∃ u, decodeSchemaless Generated.cerDecByTag b = .ok (u, []) ∧ u.leaves = leavesOf t v) ∧
    (∀ b defMode maxChunk, t.reg true Generated.berEnc defMode = true →
        encItem Generated.berEnc { defMode := defMode, maxChunk := maxChunk } t v = .ok b →
        ∃ u, decodeSchemaless Generated.berDecByTag b = .ok (u, []) ∧ u.leaves = leavesOf t v) := by
  refine ⟨?_, ?_, ?_⟩
  · intro b hreg he
    have hR : EncRegion Generated.derEnc derProfile (Generated.derEnc.fixedChunk.getD ({} : EncOpts).maxChunk) :=
      { boolT := by decide, chunk := Or.inl rfl, setOmit := Or.inr rfl }
    obtain ⟨x, hb, hxw, _, hxd, hber⟩ := encode_spec Generated.derEnc derProfile true 0 hR false rfl t v b hreg hw hty hn he
    have hC : Compat derProfile Generated.derDecByTag := ⟨fun h => (by cases h), fun h => (by cases h)⟩
    obtain ⟨u, hd, hl⟩ := leaves_ty derProfile Generated.derDecByTag hC t v x hs hw hber
    refine ⟨u, ?_, hl⟩
    subst hb
    unfold decodeSchemaless
    have := parseOne_ser Generated.derDecByTag.parse x [] hxw (Or.inr (lenForm_allDef hxd rfl))
    rw [List.append_nil] at this
    rw [this]; simp [hd, Except.map]
  · intro b hreg he
    have hR : EncRegion Generated.cerEnc cerProfile (Generated.cerEnc.fixedChunk.getD ({} : EncOpts).maxChunk) :=
      { boolT := by decide, chunk := Or.inr rfl, setOmit := Or.inr rfl }
    obtain ⟨x, hb, hxw, _, _, hber⟩ := encode_spec Generated.cerEnc cerProfile false 1000 hR false rfl t v b hreg hw hty hn he
    have hC : Compat cerProfile Generated.cerDecByTag := ⟨fun h => (by cases h), fun _ => ⟨rfl, by decide⟩⟩
    obtain ⟨u, hd, hl⟩ := leaves_ty cerProfile Generated.cerDecByTag hC t v x hs hw hber
    refine ⟨u, ?_, hl⟩
    subst hb
    unfold decodeSchemaless
    have := parseOne_ser Generated.cerDecByTag.parse x [] hxw (Or.inl rfl)
    rw [List.append_nil] at this
    rw [this]; simp [hd, Except.map]
  · intro b defMode maxChunk hreg he
    have hR : EncRegion Generated.berEnc berProfile maxChunk :=
      { boolT := by decide, chunk := Or.inr rfl, setOmit := Or.inl rfl }
    obtain ⟨x, hb, hxw, _, _, hber⟩ := encode_spec Generated.berEnc berProfile defMode maxChunk hR false rfl t v b hreg hw hty
      (noE3_false t v) he
    have hC : Compat berProfile Generated.berDecByTag := ⟨fun _ => rfl, fun _ => ⟨rfl, by decide⟩⟩
    obtain ⟨u, hd, hl⟩ := leaves_ty berProfile Generated.berDecByTag hC t v x hs hw hber
    refine ⟨u, ?_, hl⟩
    subst hb
    unfold decodeSchemaless
    have := parseOne_ser Generated.berDecByTag.parse x [] hxw (Or.inl rfl)
    rw [List.append_nil] at this
    rw [this]; simp [hd, Except.map]

/-- the hypotheses are met by a nested record with an explicitly tagged member, an absent OPTIONAL
    and a SEQUENCE OF -/
example :
    let t : Ty := .seq (.cons .req (.tagged true .context 2 (.prim (.str 12)))
      (.cons .opt (.prim .boolean) (.cons .req (.seqOf (.seq (.cons .req (.prim .integer) .nil))) .nil)))
    let v : Val := .seq [.str [0x61], .absent, .seqOf [.seq [.int 5], .seq [.int (-1)]]]
    t.selfDesc = true ∧ t.WF = true ∧ HasType t v = true ∧ noE3 true t v = true ∧
      t.reg true Generated.derEnc true = true := by
  decide +kernel

example : leavesOf (.seq (.cons .req (.tagged true .context 2 (.prim (.str 12)))
      (.cons .opt (.prim .boolean) (.cons .req (.seqOf (.seq (.cons .req (.prim .integer) .nil))) .nil))))
    (.seq [.str [0x61], .absent, .seqOf [.seq [.int 5], .seq [.int (-1)]]])
    = [(12, .str [0x61]), (2, .int 5), (2, .int (-1))] := by
  simp [leavesOf, leavesF, leavesE, PrimTy.univNum]

/-! ### at the source level: what the decoder makes of a tag it has no codec for -/

/-- **an unknown tag is an explicit wrapper exactly when it is constructed and not universal, at the source level**: the
    `stTryAsExplicitTag` block of `SingleItemDecoder.__call__` (translated from /repo on this run into `GenK.explicitGuess`:
    the first tag's form and class parameters, the decoder's `defaultErrorState` a parameter) goes on to decode the contents as
    a nested element (state `stDecodeValue` = 6) for a constructed tag of a non-universal class, and to the error state
    otherwise - for every tag and every non-empty tag set -/
theorem source_unknown_tag_is_wrapper_or_error (t : Tag) (ts : Py.Tup) (hne : ts ≠ []) (errState : Int) :
    GenK.explicitGuess errState (t.cls.bits : Int) ((if t.constructed then 0x20 else 0 : Nat) : Int) ts =
      .ok (if t.constructed && t.cls != .universal then 6 else errState) := by
  unfold GenK.explicitGuess
  have he : ts.isEmpty = false := by cases ts with
    | nil => exact absurd rfl hne
    | cons a r => rfl
  cases hc : t.constructed <;> cases hk : t.cls <;> simp [he, TagClass.bits, pure, Except.pure, bind, Except.bind]

/-- with the error state the three decoders declare (`Generated`: 8 = stErrorCondition), a primitive unknown tag and an unknown
    universal tag are refused, a constructed context / application / private one is opened -/
example : GenK.explicitGuess 8 128 32 [0] = .ok 6 := by rfl
example : GenK.explicitGuess 8 128 0 [0] = .ok 8 := by rfl
example : GenK.explicitGuess 8 0 32 [0] = .ok 8 := by rfl

end Asn1.C16
