/-
  Props.C02 — DER and CER round trip; canonical output accepted by every wider decoder.
-/
import Asn1.Generated
import Proofs.Parse

namespace Asn1.C02

/-- framing: an all-definite tree (what DER produces) is read identically by the framing layer of
    all three decoder configurations of the source — the wider decoders accept the canonical form -/
theorem definite_framing_all_decoders (t : TLV) (tail : Bytes) (hw : t.WF) (hd : t.allDef = true) :
    parseOne Generated.derDecByType.parse (t.ser ++ tail) = .ok (t, tail) ∧
    parseOne Generated.cerDecByType.parse (t.ser ++ tail) = .ok (t, tail) ∧
    parseOne Generated.berDecByType.parse (t.ser ++ tail) = .ok (t, tail) :=
  ⟨parseOne_ser _ t tail hw (Or.inr hd), parseOne_ser _ t tail hw (Or.inr hd),
   parseOne_ser _ t tail hw (Or.inr hd)⟩

/-- framing: any tree (indefinite lengths included, what CER produces) is read identically by the
    CER and BER configurations -/
theorem indefinite_framing_cer_ber (t : TLV) (tail : Bytes) (hw : t.WF) :
    parseOne Generated.cerDecByType.parse (t.ser ++ tail) = .ok (t, tail) ∧
    parseOne Generated.berDecByType.parse (t.ser ++ tail) = .ok (t, tail) :=
  ⟨parseOne_ser _ t tail hw (Or.inl (by decide)), parseOne_ser _ t tail hw (Or.inl (by decide))⟩

/-- the encoder modes the source fixes for the canonical codecs (generated table) -/
theorem canonical_modes :
    Generated.derEnc.fixedDefMode = some true ∧ Generated.derEnc.fixedChunk = some 0 ∧
    Generated.cerEnc.fixedDefMode = some false ∧ Generated.cerEnc.fixedChunk = some 1000 ∧
    Generated.derEnc.boolTrue = 255 ∧ Generated.cerEnc.boolTrue = 255 ∧
    Generated.derEnc.sortSetOf = true ∧ Generated.cerEnc.sortSetOf = true ∧
    Generated.derEncMissingTypeIds = [] ∧ Generated.cerEncMissingTypeIds = [] ∧
    Generated.berEncMissingTypeIds = [] := by
  decide

end Asn1.C02
