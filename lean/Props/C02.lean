/-
  Props.C02 — DER and CER round trip; canonical output accepted by every wider decoder.
-/
import Asn1.Generated
import Proofs.Parse
import Proofs.Codec
import Proofs.Mono
import Proofs.KernelChunk

namespace Asn1.C02

/-- framing: an all-definite tree (what DER produces) is read identically by the framing layer of
    all three decoder configurations of the source — the wider decoders accept the canonical form -/
theorem definite_framing_all_decoders (t : TLV) (tail : Bytes) (hw : t.WF) (hd : t.allDef = true) :
    parseOne Generated.derDecByType.parse (t.ser ++ tail) = .ok (t, tail) ∧
    parseOne Generated.cerDecByType.parse (t.ser ++ tail) = .ok (t, tail) ∧
    parseOne Generated.berDecByType.parse (t.ser ++ tail) = .ok (t, tail) :=
  ⟨parseOne_ser _ t tail hw (Or.inr hd), parseOne_ser _ t tail hw (Or.inr hd),
   parseOne_ser _ t tail hw (Or.inr hd)⟩

/-- framing: any tree (indefinite lengths included, what CER produces) is read identically by the
    CER and BER configurations -/
theorem indefinite_framing_cer_ber (t : TLV) (tail : Bytes) (hw : t.WF) :
    parseOne Generated.cerDecByType.parse (t.ser ++ tail) = .ok (t, tail) ∧
    parseOne Generated.berDecByType.parse (t.ser ++ tail) = .ok (t, tail) :=
  ⟨parseOne_ser _ t tail hw (Or.inl (by decide)), parseOne_ser _ t tail hw (Or.inl (by decide))⟩

/-- the encoder modes the source fixes for the canonical codecs (generated table) -/
theorem canonical_modes :
    Generated.derEnc.fixedDefMode = some true ∧ Generated.derEnc.fixedChunk = some 0 ∧
    Generated.cerEnc.fixedDefMode = some false ∧ Generated.cerEnc.fixedChunk = some 1000 ∧
    Generated.derEnc.boolTrue = 255 ∧ Generated.cerEnc.boolTrue = 255 ∧
    Generated.derEnc.sortSetOf = true ∧ Generated.cerEnc.sortSetOf = true ∧
    Generated.derEncMissingTypeIds = [] ∧ Generated.cerEncMissingTypeIds = [] ∧
    Generated.berEncMissingTypeIds = [] := by
  decide


/-- the DER encoder tables lie in the region of the proof under the DER profile (FF for TRUE, no
    segmented strings), the CER tables under the CER profile (FF for TRUE, segments allowed) -/
theorem der_region (o : EncOpts) : EncRegion Generated.derEnc derProfile (Generated.derEnc.fixedChunk.getD o.maxChunk) :=
  { boolT := by decide, chunk := Or.inl rfl, setOmit := Or.inr rfl }

theorem cer_region (o : EncOpts) : EncRegion Generated.cerEnc cerProfile (Generated.cerEnc.fixedChunk.getD o.maxChunk) :=
  { boolT := by decide, chunk := Or.inr rfl, setOmit := Or.inr rfl }

theorem der_profile_all_decoders :
    Compat derProfile Generated.derDecByType ∧ Compat derProfile Generated.cerDecByType ∧
    Compat derProfile Generated.berDecByType :=
  ⟨⟨fun h => (by cases h), fun h => (by cases h)⟩, ⟨fun h => (by cases h), fun h => (by cases h)⟩,
   ⟨fun h => (by cases h), fun h => (by cases h)⟩⟩

theorem cer_profile_cer_ber :
    Compat cerProfile Generated.cerDecByType ∧ Compat cerProfile Generated.berDecByType :=
  ⟨⟨fun h => (by cases h), fun _ => ⟨rfl, by decide⟩⟩, ⟨fun h => (by cases h), fun _ => ⟨rfl, by decide⟩⟩⟩

/-- **DER round trip under the DER, CER and BER decoders** (types without ANY; REAL in its binary form, compared as the number it denotes; values to which
    finding E3 — a present OPTIONAL member with empty contents is left out — does not apply).
    The DER encoding of a value, followed by anything, decodes under each of the three decoders to
    the value (SET OF compared as a multiset: DER sorts it) and leaves exactly what followed. -/
theorem der_roundtrip_partial (o : EncOpts) (hi : o.ifNotEmpty = false) (t : Ty) (v : Val) (b tail : Bytes)
    (hreg : t.reg true Generated.derEnc true = true) (hwf : t.WF = true) (hty : HasType t v = true)
    (hn : noE3 true t v = true) (h : encItem Generated.derEnc o t v = .ok b) :
    (∃ w, decodeOne Generated.derDecByType t (b ++ tail) = .ok (w, tail) ∧ VEq t v w) ∧
    (∃ w, decodeOne Generated.cerDecByType t (b ++ tail) = .ok (w, tail) ∧ VEq t v w) ∧
    (∃ w, decodeOne Generated.berDecByType t (b ++ tail) = .ok (w, tail) ∧ VEq t v w) :=
  ⟨codec_roundtrip Generated.derEnc Generated.derDecByType derProfile o hi (der_region o)
      der_profile_all_decoders.1 (Or.inl rfl) t v b tail hreg hwf hty hn h,
   codec_roundtrip Generated.derEnc Generated.cerDecByType derProfile o hi (der_region o)
      der_profile_all_decoders.2.1 (Or.inl rfl) t v b tail hreg hwf hty hn h,
   codec_roundtrip Generated.derEnc Generated.berDecByType derProfile o hi (der_region o)
      der_profile_all_decoders.2.2 (Or.inl rfl) t v b tail hreg hwf hty hn h⟩

/-- **CER round trip under the CER and BER decoders** (same region; in CER's indefinite mode the
    region also excludes an explicit tag over BOOLEAN/INTEGER/ENUMERATED/NULL/OBJECT IDENTIFIER —
    finding E1).  Strings longer than 1000 octets are written in 1000-octet segments and read back. -/
theorem cer_roundtrip_partial (o : EncOpts) (hi : o.ifNotEmpty = false) (t : Ty) (v : Val) (b tail : Bytes)
    (hreg : t.reg true Generated.cerEnc false = true) (hwf : t.WF = true) (hty : HasType t v = true)
    (hn : noE3 true t v = true) (h : encItem Generated.cerEnc o t v = .ok b) :
    (∃ w, decodeOne Generated.cerDecByType t (b ++ tail) = .ok (w, tail) ∧ VEq t v w) ∧
    (∃ w, decodeOne Generated.berDecByType t (b ++ tail) = .ok (w, tail) ∧ VEq t v w) :=
  ⟨codec_roundtrip Generated.cerEnc Generated.cerDecByType cerProfile o hi (cer_region o)
      cer_profile_cer_ber.1 (Or.inr rfl) t v b tail hreg hwf hty hn h,
   codec_roundtrip Generated.cerEnc Generated.berDecByType cerProfile o hi (cer_region o)
      cer_profile_cer_ber.2 (Or.inr rfl) t v b tail hreg hwf hty hn h⟩

/-- the hypotheses are met by a record with an explicitly tagged member, a DEFAULT member equal to
    its default (left out by DER) and a SET OF -/
example :
    let t : Ty := .seq (.cons .req (.tagged true .context 5 (.prim .boolean))
      (.cons (.dflt (.int 7)) (.prim .integer) (.cons .req (.setOf (.prim (.str 4))) .nil)))
    let v : Val := .seq [.bool true, .int 7, .seqOf [.str [9, 9]]]
    t.reg true Generated.derEnc true = true ∧ t.WF = true ∧ HasType t v = true ∧ noE3 true t v = true ∧
      (encItem Generated.derEnc {} t v).toOption.isSome = true := by
  decide +kernel


/-- the region includes REAL: 12·2³ is written with the odd mantissa 3 and exponent 5 and read back as
    that number -/
example :
    let t : Ty := .seq (.cons .req (.prim .real) (.cons .req (.prim .integer) .nil))
    let v : Val := .seq [.real (.fin 12 2 3), .int 1]
    t.reg true Generated.derEnc true = true ∧ t.WF = true ∧ HasType t v = true ∧ noE3 true t v = true ∧
      (encItem Generated.derEnc {} t v).toOption = some [0x30, 0x08, 0x09, 0x03, 0x80, 0x05, 0x03, 0x02, 0x01, 0x01] := by
  decide +kernel

/-- the decoder tables form a chain: DER is a restriction of CER, CER of BER (generated tables) -/
theorem der_stricter_cer : Generated.derDecByType.Stricter Generated.cerDecByType :=
  { indef := fun h => (by cases h), bool := fun h => (by cases h), bits := fun h => (by cases h),
    strs := fun k h => (by simp [Generated.derDecByType] at h) }

theorem cer_stricter_ber : Generated.cerDecByType.Stricter Generated.berDecByType :=
  { indef := fun _ => rfl, bool := fun h => (by cases h), bits := fun _ => rfl, strs := fun _ h => h }

theorem der_stricter_ber : Generated.derDecByType.Stricter Generated.berDecByType :=
  { indef := fun h => (by cases h), bool := fun h => (by cases h), bits := fun h => (by cases h),
    strs := fun k h => (by simp [Generated.derDecByType] at h) }

/-- **decoders that accept the same octets agree** — for *any* octets and *any* type (no region):
    whatever DER accepts, CER and BER accept with the same value and remainder; whatever CER
    accepts, BER accepts with the same value and remainder.  Hence any two of the three decoders
    that both accept return the same abstract value. -/
theorem accepting_decoders_agree (t : Ty) (bs : Bytes) :
    (∀ r, decodeOne Generated.derDecByType t bs = .ok r → decodeOne Generated.cerDecByType t bs = .ok r) ∧
    (∀ r, decodeOne Generated.derDecByType t bs = .ok r → decodeOne Generated.berDecByType t bs = .ok r) ∧
    (∀ r, decodeOne Generated.cerDecByType t bs = .ok r → decodeOne Generated.berDecByType t bs = .ok r) :=
  ⟨fun r h => decodeOne_mono _ _ der_stricter_cer t bs r h,
   fun r h => decodeOne_mono _ _ der_stricter_ber t bs r h,
   fun r h => decodeOne_mono _ _ cer_stricter_ber t bs r h⟩

theorem two_accepting_decoders_same_value (t : Ty) (bs : Bytes) (r1 r2 : Val × Bytes)
    (h1 : decodeOne Generated.derDecByType t bs = .ok r1 ∨ decodeOne Generated.cerDecByType t bs = .ok r1)
    (h2 : decodeOne Generated.berDecByType t bs = .ok r2) : r1 = r2 := by
  rcases h1 with h1 | h1
  · have := (accepting_decoders_agree t bs).2.1 r1 h1
    rw [h2] at this; exact (Except.ok.inj this).symm
  · have := (accepting_decoders_agree t bs).2.2 r1 h1
    rw [h2] at this; exact (Except.ok.inj this).symm

/-! ### at the source level: the segmentation loop, translated from /repo on this run -/

/-- `OctetStringEncoder.encodeValue` (ber/encoder.py; the loop is translated by gen/py2lean.py into `GenK.octetChunks`,
    its `encodeFun` callback a function parameter): whatever the callback, no chunk size or a string that fits gives the
    octets in primitive form, anything longer the callback's answers for the consecutive `maxChunkSize`-octet pieces, in
    order, in constructed form -/
theorem source_segmentation (f : Py.Tup → Py.M Py.Tup) (bs : Bytes) (n : Nat) :
    GenK.octetChunks f (Kernels.bytesInts bs) (n : Int) =
      if n = 0 ∨ bs.length ≤ n then .ok (Kernels.bytesInts bs, false, true)
      else (Kernels.concatM f ((chunkBytes n bs.length bs).map Kernels.bytesInts)).map (fun r => (r, true, true)) :=
  Kernels.octetChunks_kernel f bs n

/-- with the translated header loop as the callback for one piece, the translated segmentation loop writes what the
    encoder model - about which the round-trip theorems above are stated - writes for an octet or character string of
    any length under any chunk size (CER: 1000) and any mode -/
theorem source_segmentation_is_model (cfg : EncCfg) (o : EncOpts) (k : Nat) (bs : Bytes) :
    GenK.octetChunks (Kernels.chunkFun true o.ifNotEmpty o.defMode) (Kernels.bytesInts bs) (o.maxChunk : Int) =
      Kernels.liftEnc (encValue cfg o (.prim (.str k)) (.str bs)) :=
  Kernels.octetChunks_is_model cfg o k bs

/-- non-vacuity: five octets under a chunk size of two are three OCTET STRING pieces `04 02 .. ..`, `04 02 .. ..`,
    `04 01 ..` in constructed form -/
example : GenK.octetChunks (Kernels.chunkFun true false false) [1, 2, 3, 4, 5] 2 =
    .ok ([4, 2, 1, 2, 4, 2, 3, 4, 4, 1, 5], true, true) := by rfl

end Asn1.C02
