/-
  Props.C05 — streaming decoder output is independent of the data arrival schedule.

  Model: Asn1/Stream.lean (`Prog`, `run`, `runSched`, `parseP`, `iterP`, `streamP`).
  A schedule is a list of chunks: an empty chunk is a "no data yet" poll, an empty last chunk is
  end-of-stream signalled after (rather than together with) the last octet.  Short reads are below
  the model's `read n` primitive: `readFromStream` collects what is readily available, so a read
  answers exactly when its n octets have arrived (tied to the code by the STREAM correspondence
  with capped reads).
-/
import Asn1.Generated
import Proofs.StreamIter
import Proofs.StreamRaw
import Proofs.StreamTyped
import Proofs.KernelReadTurn
import Props.C02
import Props.C09

namespace Asn1.C05

open Asn1.Stream

variable {ε α : Type}

/-- **schedule independence, for every program** that does not use the "read whatever is there"
    primitive, on every stream kind whose primitives are stable: feeding the input in any chunks,
    with any polls in between and the end signalled with or after the last octet, ends exactly as
    running on the complete, closed input does — same result or error, same position, same objects
    yielded in the same order. -/
theorem schedule_independent (k : Kind) (hk : k.Stable) (B : Nat) (p : Prog ε α) (hp : p.NoReadAll)
    (chunks : List Bytes) (s : St ε) :
    runSched k B [] chunks p s = run k B chunks.flatten true p s := by
  simpa using runSched_eq k hk B chunks [] p s hp

/-- stability of each primitive on K3 (seekable growing stream) … -/
theorem stable_K3 : Kind.Stable .seekable := stable_seekable
/-- … and on K4 (non-seekable stream behind CachingStreamWrapper) -/
theorem stable_K4 : Kind.Stable .wrapped := stable_wrapped

/-- the BytesIO kinds (K1, K2) are complete at construction: their end-of-stream fast path is not
    stable under growth, which is why a growing BytesIO subclass is outside the quantifier -/
theorem bytesIO_complete_only : ¬ Kind.Stable .bytesIO := bytesIO_not_stable

/-- **an underrun is reported only while octets are missing**: when a run suspends, the pending
    primitive needs an octet at a position that has not arrived, and the stream is still open -/
theorem underrun_only_when_missing (k : Kind) (B : Nat) (d : Bytes) (cl : Bool) (p p' : Prog ε α)
    (s s' : St ε) (h : run k B d cl p s = .susp p' s') :
    d.length < p'.needs s' ∧ cl = false ∧ k ≠ .bytesIO :=
  susp_needs k B d cl p s p' s' h

/-- **short reads are invisible**: `readFromStream` over raw `read()` calls each of which may hand
    out any non-zero number of the octets that are there (`capOf` arbitrary: pipes, sockets, capped
    reads) answers exactly as the model's `read n` primitive — the n octets once they have all arrived,
    an underrun while the stream is open, EndOfStreamError once it is closed.  So the schedule theorem,
    stated over `read n`, covers every placement of short reads. -/
theorem short_reads_invisible (k : Kind) (hk : k ≠ .bytesIO) (d : Bytes) (closed : Bool)
    (capOf : Nat → Nat) (pos n : Nat) (hp : pos ≤ d.length) :
    readFromStreamRaw d closed capOf pos n = readAns k d closed pos n :=
  readFromStreamRaw_eq_readAns k hk d closed capOf pos n hp

/-! ### at the source level: one turn of `readFromStream`, translated from /repo on this run -/

/-- one turn of the `while True:` loop of `readFromStream` (codec/streaming.py; translated by gen/py2lean.py into
    `GenK.readTurn`: the stream's position threaded through, what `substrate.read(n)` answers at a position a function
    parameter) on a raw stream that has received `d`, is `closed` or still open, and hands out at most `cap + 1` octets per
    call, is the model's `readFromStreamRaw` -/
theorem source_read_turn_is_model (d : Bytes) (closed : Bool) (cap pos n : Nat) (hn : n ≤ 1048576) (hp : pos ≤ d.length) :
    GenK.readTurn (Kernels.rdOf d closed cap) (pos : Int) (n : Int) =
      Kernels.liftAns pos (readFromStreamRaw d closed (fun _ => cap) pos n) :=
  Kernels.readTurn_kernel d closed cap pos n hn hp

/-- **underrun only while octets are missing, at the source level**: on any stream kind other than a complete `BytesIO`,
    whatever the sizes of the short reads, the translated turn hands out the `n` octets exactly when they have all
    arrived (the position moves past them), answers an underrun - the position back where the turn began - exactly
    while they have not and the stream is open, and raises EndOfStreamError exactly once it is closed -/
theorem source_underrun_only_when_missing (k : Kind) (hk : k ≠ .bytesIO) (d : Bytes) (closed : Bool) (cap pos n : Nat)
    (hn : n ≤ 1048576) (hp : pos ≤ d.length) :
    GenK.readTurn (Kernels.rdOf d closed cap) (pos : Int) (n : Int) =
      Kernels.liftAns pos (readAns k d closed pos n) := by
  rw [Kernels.readTurn_kernel d closed cap pos n hn hp, readFromStreamRaw_eq_readAns k hk d closed _ pos n hp]

/-- `isEndOfStream` (the branch for streams other than `io.BytesIO`; one turn of its retry loop, translated into
    `GenK.eosTurn`): "at the end" exactly when nothing is left and the stream is closed, an underrun exactly when nothing is
    left and it is still open, "not at the end" with the octet stepped back over otherwise - the model's `eosAns`; the
    iteration `stops` after the last object on exactly this answer -/
theorem source_end_of_stream_turn_is_model (k : Kind) (hk : k ≠ .bytesIO) (d : Bytes) (closed : Bool) (cap pos : Nat) :
    GenK.eosTurn (Kernels.rdOf d closed cap) (pos : Int) = Kernels.liftEos pos (eosAns k d closed pos) :=
  Kernels.eosTurn_kernel k hk d closed cap pos

/-- non-vacuity: four octets asked at position 1 of `1 2 3 4 5 6`, two octets per read: gathered over two reads; of
    `1 2 3` still open: underrun, position back at 1; closed: EndOfStreamError -/
example : GenK.readTurn (Kernels.rdOf [1, 2, 3, 4, 5, 6] false 1) 1 4 = .ok (some [2, 3, 4, 5], 5) := by rfl
example : GenK.readTurn (Kernels.rdOf [1, 2, 3] false 1) 1 4 = .ok (none, 1) := by rfl
example : GenK.readTurn (Kernels.rdOf [1, 2, 3] true 1) 1 4 = .error (.lib "EndOfStreamError") := by rfl
example : GenK.eosTurn (Kernels.rdOf [1, 2, 3] true 1) 3 = .ok (some true, 3) := by rfl
example : GenK.eosTurn (Kernels.rdOf [1, 2, 3] false 1) 3 = .ok (none, 3) := by rfl
example : GenK.eosTurn (Kernels.rdOf [1, 2, 3] false 1) 1 = .ok (some false, 1) := by rfl

/-- **no new errors**: an error under a schedule is the error of the complete input -/
theorem no_new_errors (k : Kind) (hk : k.Stable) (B : Nat) (p : Prog ε α) (hp : p.NoReadAll)
    (chunks : List Bytes) (s s' : St ε) (e : SErr)
    (h : runSched k B [] chunks p s = .err e s') : run k B chunks.flatten true p s = .err e s' := by
  rw [← schedule_independent k hk B p hp chunks s]; exact h

/-- an outcome reached while octets are still arriving is final (nothing is lost or redone later) -/
theorem early_outcome_final (k : Kind) (hk : k.Stable) (B : Nat) (a c : Bytes) (cl : Bool)
    (p : Prog ε α) (hp : p.NoReadAll) (s : St ε) :
    (∀ v s', run k B a false p s = .done v s' → run k B (a ++ c) cl p s = .done v s') ∧
    (∀ e s', run k B a false p s = .err e s' → run k B (a ++ c) cl p s = .err e s') :=
  run_final k hk B a c cl p hp s

/-- what the consumer of the iterator sees: underruns, then the final outcome -/
theorem consumer_view (k : Kind) (B : Nat) (chunks : List Bytes) (p : Prog ε α) (s : St ε) :
    ∃ pre, runSchedAll k B [] chunks p s = pre ++ [runSched k B [] chunks p s] ∧
      ∀ o ∈ pre, ∃ p' s', o = .susp p' s' :=
  runSchedAll_last k B chunks [] p s

/-- the streaming decoder over the framing layer is such a program -/
theorem streaming_decoder_schedulable (cfg : ParseCfg) (n : Nat) : (streamP cfg n).NoReadAll :=
  noReadAll_streamP cfg n

/-- **refinement**: where the list-level parser `parse` (about which Proofs/Parse.lean,
    Prefix.lean, Fuel.lean speak) succeeds on the octets at the current position, the stream
    program `parseP` returns the same tree and stops where `parse` stopped -/
theorem parseP_refines_parse (cfg : ParseCfg) (k : Kind) (B : Nat) (d : Bytes) (cl : Bool) (tf fuel : Nat)
    (hnd : NoDropK k B d) (bs : Bytes) (t : TLV) (r : Bytes) (h : parse cfg fuel bs = .ok (t, r))
    (htf : bs.length ≤ tf) (extra : Bytes) (s : St ε) (hat : At d s.pos (bs ++ extra)) (hb : s.base = 0) :
    ∃ s', run k B d cl (parseP cfg tf fuel) s = .done t s' ∧ At d s'.pos (r ++ extra) ∧
      s'.base = 0 ∧ s'.out = s.out :=
  run_parseP cfg k B d cl tf hnd fuel bs t r h htf extra s hat hb

/-- **the items of a stream of well-formed elements are yielded one by one under any schedule**:
    for every non-empty list of well-formed TLV trees (any tags, length forms, nesting, size), every
    partition of their concatenation into chunks with any polls and either close timing, on K3 —
    and on K4 as long as the stream fits the wrapper's buffer (S4 otherwise, see Props/C11) — the
    iterator yields exactly these elements in order, each ending where its encoding ends, and stops
    at the end of the data. -/
theorem stream_items_any_schedule (cfg : ParseCfg) (k : Kind) (hk : k.Stable) (B : Nat) (ts : List TLV)
    (hne : ts ≠ []) (hw : WFs ts) (ho : okForL cfg ts) (hnd : NoDropK k B (serList ts))
    (chunks : List Bytes) (hc : chunks.flatten = serList ts) :
    ∃ s', runSched k B [] chunks (streamP cfg (serList ts).length) {} = .done () s' ∧
      s'.pos = (serList ts).length ∧ s'.out = (ends 0 ts).reverse := by
  rw [schedule_independent k hk B _ (noReadAll_streamP cfg _) chunks, hc]
  exact run_streamP_items cfg k B ts hne hw ho hnd

/-! ### the typed end: what was encoded is what is yielded, under any schedule -/

/-- the trees a streaming run emitted, in order -/
def emitted (s : St (TLV × Nat)) : List TLV := s.out.reverse.map (·.1)

theorem ends_fst : ∀ (p : Nat) (ts : List TLV), (ends p ts).map (·.1) = ts
  | _, [] => rfl
  | p, t :: ts => by simp [ends, ends_fst _ ts]

/-- **a stream of encoded values is decoded to those values under any arrival schedule** (any encoder /
    decoder pair with a common profile; types of the codec region).  The values `vs` of type `t` are
    encoded one after the other; the octets arrive in any chunks, with any "no data yet" polls, the end
    signalled with or after the last octet, on a growing seekable stream (K3) — and on a non-seekable
    stream behind the caching wrapper (K4) as long as the stream fits its buffer (finding S4 otherwise).
    Then the streaming decoder stops normally at the end of the data, having yielded exactly as many
    elements as values were encoded, and the guided decoder reads the i-th element as the i-th value
    (up to the order of SET OF elements). -/
theorem stream_values_any_schedule (cfg : EncCfg) (dcfg : DecCfg) (pf : Profile) (o : EncOpts) (hi : o.ifNotEmpty = false)
    (hR : EncRegion cfg pf (cfg.fixedChunk.getD o.maxChunk)) (hC : Compat pf dcfg)
    (hparse : cfg.fixedDefMode.getD o.defMode = true ∨ dcfg.parse.allowIndef = true)
    (t : Ty) (hreg : t.reg true cfg (cfg.fixedDefMode.getD o.defMode) = true) (hwf : t.WF = true)
    (vs : List Val) (hne : vs ≠ []) (hv : ∀ v ∈ vs, HasType t v = true ∧ noE3 cfg.seqOmitEmpty t v = true)
    (bs : List Bytes) (henc : encodeAll cfg o t vs = .ok bs)
    (k : Kind) (hk : k.Stable) (B : Nat) (hnd : NoDropK k B bs.flatten)
    (chunks : List Bytes) (hc : chunks.flatten = bs.flatten) :
    ∃ s', runSched k B [] chunks (streamP dcfg.parse bs.flatten.length) {} = .done () s' ∧
      s'.pos = bs.flatten.length ∧ Decoded dcfg t vs (emitted s') := by
  obtain ⟨xs, hs, hl, hw, hdef, hd⟩ := encodeAll_trees cfg dcfg pf o hi hR hC t hreg hwf vs bs hv henc
  have hxne : xs ≠ [] := by
    intro h0; subst h0
    cases vs with
    | nil => exact hne rfl
    | cons _ _ => simp at hl
  have hok : okForL dcfg.parse xs := by
    rcases hparse with hp | hp
    · exact Or.inr (hdef hp)
    · exact Or.inl hp
  rw [hs] at hnd hc ⊢
  obtain ⟨s', hrun, hpos, hout⟩ := stream_items_any_schedule dcfg.parse k hk B xs hxne hw hok hnd chunks hc
  refine ⟨s', hrun, hpos, ?_⟩
  simp only [emitted, hout, List.reverse_reverse, ends_fst]
  exact hd

/-- instance: DER-encoded values streamed to the DER, CER or BER decoder; BER (any mode) to the BER decoder -/
theorem stream_values_der (o : EncOpts) (hi : o.ifNotEmpty = false) (t : Ty)
    (hreg : t.reg true Generated.derEnc true = true) (hwf : t.WF = true)
    (vs : List Val) (hne : vs ≠ []) (hv : ∀ v ∈ vs, HasType t v = true ∧ noE3 true t v = true)
    (bs : List Bytes) (henc : encodeAll Generated.derEnc o t vs = .ok bs)
    (k : Kind) (hk : k.Stable) (B : Nat) (hnd : NoDropK k B bs.flatten) (chunks : List Bytes) (hc : chunks.flatten = bs.flatten) :
    ∃ s', runSched k B [] chunks (streamP Generated.derDecByType.parse bs.flatten.length) {} = .done () s' ∧
      s'.pos = bs.flatten.length ∧ Decoded Generated.derDecByType t vs (emitted s') :=
  stream_values_any_schedule Generated.derEnc Generated.derDecByType derProfile o hi (C02.der_region o)
    C02.der_profile_all_decoders.1 (Or.inl rfl) t hreg hwf vs hne hv bs henc k hk B hnd chunks hc

theorem stream_values_ber (o : EncOpts) (hi : o.ifNotEmpty = false) (t : Ty)
    (hreg : t.reg true Generated.berEnc o.defMode = true) (hwf : t.WF = true)
    (vs : List Val) (hne : vs ≠ []) (hv : ∀ v ∈ vs, HasType t v = true)
    (bs : List Bytes) (henc : encodeAll Generated.berEnc o t vs = .ok bs)
    (k : Kind) (hk : k.Stable) (B : Nat) (hnd : NoDropK k B bs.flatten) (chunks : List Bytes) (hc : chunks.flatten = bs.flatten) :
    ∃ s', runSched k B [] chunks (streamP Generated.berDecByType.parse bs.flatten.length) {} = .done () s' ∧
      s'.pos = bs.flatten.length ∧ Decoded Generated.berDecByType t vs (emitted s') :=
  stream_values_any_schedule Generated.berEnc Generated.berDecByType berProfile o hi
    { boolT := by decide, chunk := Or.inr rfl, setOmit := Or.inl rfl } C09.ber_compat (Or.inr rfl) t hreg hwf vs hne
    (fun v h => ⟨hv v h, noE3_false t v⟩) bs henc k hk B hnd chunks hc

/-! ### obligations over the generated audit tables -/

/-- every `for x in <sub-generator>` loop of the decoder modules forwards underruns -/
theorem underrun_loops_forward : Generated.underrunLoops.all (·.2.2.2) = true := by decide

/-- every stream access in the decoder modules is one of the modelled primitives -/
theorem stream_access_modelled :
    Generated.streamAccess.all (fun r => r.2.2 ∈
      ["readFromStream", "peekIntoStream", "isEndOfStream", "substrate.tell", "substrate.seek",
       "substrate.markedPosition"]) = true := by decide

/-- the schedule-unstable primitives (`readFromStream` without a size, `peekIntoStream`) are used
    only inside debug-logging branches and by the one-shot `Decoder.__call__`, which runs on a
    complete input -/
theorem unstable_only_oneshot_or_log :
    Generated.unstableSites.all (fun r => r.2.2.2 || r.2.1 == "Decoder.__call__") = true := by decide

/-- end-of-stream is an insufficient-data error, which is a library error -/
theorem error_hierarchy :
    ("EndOfStreamError", "SubstrateUnderrunError") ∈ Generated.errorSubclass ∧
    ("SubstrateUnderrunError", "PyAsn1Error") ∈ Generated.errorSubclass := by decide

/-! ### non-vacuity -/

/-- INTEGER 5 followed by NULL, fed as `02 | (poll) | 01 05 05 | 00 | (close after)`: two objects
    ending at 3 and 5, then stop — and the same on the complete input -/
example : (runSched .seekable 8192 [] [[0x02], [], [0x01, 0x05, 0x05], [0x00], []]
    (streamP {} 5) {}).summary = (.done, 5, [3, 5]) := by decide
example : (run .seekable 8192 [0x02, 0x01, 0x05, 0x05, 0x00] true (streamP {} 5) {}).summary =
    (.done, 5, [3, 5]) := by decide
/-- an indefinite-length SEQUENCE split inside its end-of-octets marker, behind the wrapper -/
example : (runSched .wrapped 8192 [] [[0x30, 0x80, 0x02, 0x01, 0x05, 0x00], [0x00]]
    (streamP {} 7) {}).summary = (.done, 7, [7]) := by decide
/-- the stream still open in the middle of an element: an underrun, nothing yielded yet -/
example : (run .seekable 8192 [0x02, 0x01] false (streamP {} 5) {}).summary = (.susp, 2, []) := by decide
/-- six octets wanted, the raw stream hands out one octet per call: all six come back; only four there
    and open: underrun; closed: end of stream -/
example : readFromStreamRaw [1, 2, 3, 4, 5, 6, 7] false (fun _ => 0) 1 6 = .ok [2, 3, 4, 5, 6, 7] := by decide
example : readFromStreamRaw [1, 2, 3, 4, 5] false (fun _ => 0) 1 6 = .wait := by decide
example : readFromStreamRaw [1, 2, 3, 4, 5] true (fun i => i % 3) 1 6 = .eos := by decide
/-- closed there: EndOfStreamError -/
example : (run .seekable 8192 [0x02, 0x01] true (streamP {} 5) {}).summary = (.err .eos, 2, []) := by decide

/-- the hypotheses of `stream_items_any_schedule` are satisfiable: a well-formed two-item stream -/
example : WFs [TLV.prim [0x02, 0x01] ⟨.universal, false, 2⟩ [5], TLV.prim [0x05, 0x00] ⟨.universal, false, 5⟩ []] := by
  refine ⟨⟨⟨[0x02], [0x01], rfl, ?_, ?_⟩, rfl⟩, ⟨⟨[0x05], [0x00], rfl, ?_, ?_⟩, rfl⟩, trivial⟩
  all_goals intro r; rfl

end Asn1.C05
