/-
  Props.C17 — native-Python codec round trip and Python-value encoding equivalence.
  Property theorems only (lemmas live in Proofs/Native*.lean).  The model is lean/Asn1/Native.lean:
  `toNative`/`fromNative` mirror pyasn1/codec/native, `encodePy` the bare-value ("Python value +
  asn1Spec") branches of the BER/CER/DER encoders, `toTree` builds the plain-Python tree of a value.
  A Python float standing for a REAL is kept in the model as the exact value it denotes; the
  conversion float(Real) / Real(float) is outside the model (the check compares through float()).
-/
import Asn1.Native
import Proofs.NativeText
import Proofs.NativeRoundtrip
import Proofs.NativeTree

namespace Asn1.C17

open Asn1.Native

/-- the text form of a BIT STRING reads back as the same bits — the empty bit string included -/
theorem bits_text_roundtrip (bs : List Bool) : parseBits (bitsText bs) = .ok bs :=
  parseBits_bitsText bs

/-- the dotted text form of an OBJECT IDENTIFIER reads back as the same arcs -/
theorem oid_text (arcs : List Nat) : parseOid (oidText arcs) = .ok arcs :=
  parseOid_oidText arcs

/-- `int(str(n)) = n`: the decimal text of an arc reads back as the arc -/
theorem int_text (n : Nat) : Asn1.Time.pyInt (Asn1.Time.dec n) = some (Int.ofNat n) :=
  pyInt_dec n

/-- Native round trip: for every type of the universe (tagged, nested, with OPTIONAL / DEFAULT /
    CHOICE / ANY members) and every value of it, the native encoder succeeds and the native decoder
    under the same type reads its output back as exactly the same abstract content: absent OPTIONAL
    members stay absent, the empty BIT STRING stays empty, the chosen alternative stays chosen.
    (REAL: the exact value; the float step is outside the model.) -/
theorem native_roundtrip (T : Ty) (v : Val) (h : HasType T v = true) :
    ∃ p, toNative T v = .ok p ∧ fromNative T p = .ok v :=
  rt T v h

/-- Python-value encoding equivalence, for ANY encoder configuration and any options: encoding the
    plain tree of `v` (absent OPTIONAL members and DEFAULT members holding their default simply
    missing from the mapping) together with the type gives exactly what encoding the value gives —
    bytes or refusal.

    Full statement (without `defaultsOk`): `∀ T v, HasType T v → encodePy cfg o T (toTree T v) =
    encItem cfg o T v`.  It is restricted by the decidable guard `defaultsOk false T` (every DEFAULT
    member is of a scalar type other than REAL, with a well-typed default), which excludes exactly
    the region of the recorded findings T11 / T12 (DEFAULT comparison through `==` of constructed
    values / through floats). -/
theorem pytree_encoding_partial (cfg : EncCfg) (o : EncOpts) (T : Ty) (v : Val)
    (h : HasType T v = true) (hd : defaultsOk false T = true) :
    encodePy cfg o T (toTree T v) = encItem cfg o T v := by
  show finishItem cfg (normOpts cfg o) T (encValuePy cfg (normOpts cfg o) T (toTreeG false T v))
    = finishItem cfg (normOpts cfg o) T (encValue cfg (normOpts cfg o) T v)
  rw [pt cfg false T (normOpts cfg o) v h hd]

/-- the same when the mapping also GIVES the DEFAULT members that hold their default, provided `==`
    recognises the default in the given form (`defaultsOk true`: bool, int, '0101' text, OCTET STRING
    bytes, arc tuple).  Outside this guard lies finding D17 (see `default_given_as_bytes_differs`). -/
theorem pytree_encoding_given_partial (cfg : EncCfg) (o : EncOpts) (T : Ty) (v : Val)
    (h : HasType T v = true) (hd : defaultsOk true T = true) :
    encodePy cfg o T (toTreeG true T v) = encItem cfg o T v := by
  show finishItem cfg (normOpts cfg o) T (encValuePy cfg (normOpts cfg o) T (toTreeG true T v))
    = finishItem cfg (normOpts cfg o) T (encValue cfg (normOpts cfg o) T v)
  rw [pt cfg true T (normOpts cfg o) v h hd]

/-- the three configurations generated from the source -/
theorem pytree_encoding_ber (o : EncOpts) (T : Ty) (v : Val) (h : HasType T v = true)
    (hd : defaultsOk false T = true) :
    encodePy Generated.berEnc o T (toTree T v) = encItem Generated.berEnc o T v :=
  pytree_encoding_partial _ o T v h hd

theorem pytree_encoding_cer (o : EncOpts) (T : Ty) (v : Val) (h : HasType T v = true)
    (hd : defaultsOk false T = true) :
    encodePy Generated.cerEnc o T (toTree T v) = encItem Generated.cerEnc o T v :=
  pytree_encoding_partial _ o T v h hd

theorem pytree_encoding_der (o : EncOpts) (T : Ty) (v : Val) (h : HasType T v = true)
    (hd : defaultsOk false T = true) :
    encodePy Generated.derEnc o T (toTree T v) = encItem Generated.derEnc o T v :=
  pytree_encoding_partial _ o T v h hd

/-- the sort key the DER SET encoder computes from a bare CHOICE member is the one it computes
    from the value object, through any depth of nested untagged CHOICEs -/
theorem bare_set_key (ord : SetOrder) (T : Ty) (v : Val) (h : HasType T v = true) :
    setKeyPy ord T (toTree T v) = .ok (setKey ord T v) :=
  setKeyPy_tree false ord T v h

/-! ### the recorded finding D17 on its witness -/

/-- SEQUENCE { f0 PrintableString DEFAULT "a" } -/
def d17Ty : Ty := .seq (.cons (.dflt (.str [0x61])) (.prim (.str 19)) .nil)
def d17Val : Val := .seq [.str [0x61]]

/-- the mapping that gives the DEFAULT member as bytes `{'f0': b'a'}` is encoded WITH the member
    (30 03 13 01 61) although it holds the default, the value object without it (30 00): Python's
    `b'a' == PrintableString('a')` is False.  This is what the code does; `pytree_encoding_given_partial`
    excludes it through `defaultsOk true`. -/
theorem default_given_as_bytes_differs :
    encodePy Generated.derEnc {} d17Ty (toTreeG true d17Ty d17Val) = .ok [0x30, 0x03, 0x13, 0x01, 0x61]
    ∧ encItem Generated.derEnc {} d17Ty d17Val = .ok [0x30, 0x00]
    ∧ defaultsOk true d17Ty = false := by
  refine ⟨by rfl, by rfl, by decide⟩

/-! ### non-vacuity: a nested, tagged type with OPTIONAL, DEFAULT, CHOICE, SET and SEQUENCE OF -/

/-- SEQUENCE { f0 INTEGER, f1 [1] IMPLICIT BIT STRING OPTIONAL, f2 [2] EXPLICIT INTEGER DEFAULT 7,
      f3 CHOICE { f0 SEQUENCE OF OBJECT IDENTIFIER, f1 NULL, f2 CHOICE { f0 [5] BOOLEAN } },
      f4 [4] SET { f0 UTF8String DEFAULT "a", f1 [0] OCTET STRING OPTIONAL } } -/
def exTy : Ty :=
  .seq (.cons .req (.prim .integer)
       (.cons .opt (.tagged false .context 1 (.prim .bitString))
       (.cons (.dflt (.int 7)) (.tagged true .context 2 (.prim .integer))
       (.cons .req (.choice (.cons .req (.seqOf (.prim .oid))
                            (.cons .req (.prim .null)
                            (.cons .req (.choice (.cons .req (.tagged false .context 5 (.prim .boolean)) .nil))
                            .nil))))
       (.cons .req (.tagged false .context 4
              (.set (.cons (.dflt (.str [0x61])) (.prim (.str 12))
                    (.cons .opt (.tagged false .context 0 (.prim (.str 4))) .nil))))
       .nil)))))

/-- f1 absent, f2 holding its default, the nested CHOICE chosen, the inner DEFAULT not default -/
def exVal : Val :=
  .seq [.int 5, .absent, .int 7, .choice 2 (.choice 0 (.bool true)), .seq [.str [0x62], .absent]]

/-- the empty BIT STRING present, a SEQUENCE OF alternative, the inner OPTIONAL present -/
def exVal2 : Val :=
  .seq [.int (-1), .bits [], .int 8, .choice 0 (.seqOf [.oid [1, 3, 6], .oid [2, 999]]),
        .seq [.str [0x61], .str []]]

example : HasType exTy exVal = true := by decide
example : HasType exTy exVal2 = true := by decide
example : defaultsOk false exTy = true := by decide
/-- `defaultsOk true` fails here exactly because of the UTF8String DEFAULT (D17 region) -/
example : defaultsOk true exTy = false := by decide

example : ∃ p, toNative exTy exVal = .ok p ∧ fromNative exTy p = .ok exVal :=
  native_roundtrip _ _ (by decide)
example : ∃ p, toNative exTy exVal2 = .ok p ∧ fromNative exTy p = .ok exVal2 :=
  native_roundtrip _ _ (by decide)
example : encodePy Generated.derEnc {} exTy (toTree exTy exVal) = encItem Generated.derEnc {} exTy exVal :=
  pytree_encoding_der _ _ _ (by decide) (by decide)
example : encodePy Generated.cerEnc {} exTy (toTree exTy exVal2) = encItem Generated.cerEnc {} exTy exVal2 :=
  pytree_encoding_cer _ _ _ (by decide) (by decide)

end Asn1.C17
