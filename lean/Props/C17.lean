/-
  Props.C17 — native-Python codec round trip and Python-value encoding equivalence.
  Property theorems only (lemmas live in Proofs/Native*.lean).
-/
import Asn1.Native
import Proofs.NativeText

namespace Asn1.C17

open Asn1.Native

/-- the text form of a BIT STRING reads back as the same bits — the empty bit string included -/
theorem bits_text_roundtrip (bs : List Bool) : parseBits (bitsText bs) = .ok bs :=
  parseBits_bitsText bs

/-- the dotted text form of an OBJECT IDENTIFIER reads back as the same arcs -/
theorem oid_text (arcs : List Nat) : parseOid (oidText arcs) = .ok arcs :=
  parseOid_oidText arcs

/-- `int(str(n)) = n`: the decimal text of an arc reads back as the arc -/
theorem int_text (n : Nat) : Asn1.Time.pyInt (Asn1.Time.dec n) = some (Int.ofNat n) :=
  pyInt_dec n

example : parseBits (bitsText []) = .ok [] := bits_text_roundtrip []
example : parseOid (oidText [1, 3, 6, 1, 4, 1, 4294967296]) = .ok [1, 3, 6, 1, 4, 1, 4294967296] := oid_text _

end Asn1.C17
