/-
  Props.C19 — container objects refine their Python prototypes under any operation history.

  Object models (`Asn1.Container`: `SeqOf.step`, `Rec.step`, `Choice.step`) mirror
  pyasn1/type/univ.py as it is after the C19 `fix:` commits; the prototypes (`ListSpec`, `DictSpec`,
  `OptionSpec`) are plain list / dict / option programs.  Helper lemmas live in Proofs/Container*.
-/
import Asn1.Container
import Proofs.ContainerSeqOf
import Proofs.ContainerRec
import Proofs.ContainerChoice
import Proofs.ContainerDyn
import Proofs.KernelGate

namespace Asn1.C19
open Asn1.Container

/-- **SEQUENCE OF / SET OF refines the list prototype.**  From the object that represents any
    prototype state (`rep`: keys 0..n-1 in order; with or without a component type), along any
    history of allowed operations, every call returns what the prototype returns and the object
    ends as the representation of the prototype's final state — hence equal length, items,
    iteration order, isValue and abstract content after every step.
    `Allowed` leaves out what the documentation does not cover: writes beyond position N,
    `setComponentByPosition(i)` without value on an existing element of a container without component
    type, and (finding T5) reads beyond position N of a container with component type. -/
theorem seqOf_refines_list (typed : Bool) (s : ListSpec.St) (ops : List SeqOfOp)
    (hinv : ListSpec.Inv typed s) (hal : ListSpec.AllowedRun typed s ops) :
    SeqOf.run typed (ListSpec.rep typed s) ops =
      (ListSpec.rep typed (ListSpec.run typed s ops).1, (ListSpec.run typed s ops).2) :=
  run_rep s ops hinv hal

/-- the fresh object is the representation of "no list", so the theorem covers every history from
    a new `SequenceOf()` -/
theorem seqOf_refines_list_fresh (typed : Bool) (ops : List SeqOfOp)
    (hal : ListSpec.AllowedRun typed none ops) :
    SeqOf.run typed ⟨none⟩ ops =
      (ListSpec.rep typed (ListSpec.run typed none ops).1, (ListSpec.run typed none ops).2) :=
  run_rep none ops (by intro _ l hl; cases hl) hal

/-
  Full statement (false of the code, finding T4-eq; dynamic-name records not covered):
    theorem seq_refines_dict : Rec.Inv fields st → ∀ ops,
      (Rec.run fields st ops).2 = (DictSpec.run fields (absD st) ops).2 ∧ absD (…).1 = (…).1
-/
/-- **SEQUENCE / SET with declared fields refines the dict prototype**, for histories that avoid
    (finding T4-eq) `==` in a state where the library raises instead of answering and `encode` of
    an object that is not a value.  Outputs are equal step by step and the abstraction `absD`
    (placeholders and the noValue sentinel both read as "unset") commutes with every step. -/
theorem seq_refines_dict_partial (fields : List FK) (hN : fields.length ≠ 0) (st : RecSt)
    (hinv : Rec.Inv fields st) (ops : List RecOp)
    (hal : ∀ (pre : List RecOp) (op : RecOp) (post : List RecOp), ops = pre ++ op :: post →
      Rec.Allowed fields (Rec.run fields st pre).1 op = true) :
    (Rec.run fields st ops).2 = (DictSpec.run fields (Rec.absD st) ops).2 ∧
    Rec.absD (Rec.run fields st ops).1 = (DictSpec.run fields (Rec.absD st) ops).1 ∧
    Rec.Inv fields (Rec.run fields st ops).1 :=
  run_abs hinv hN ops hal

/-- **SEQUENCE / SET without componentType (dynamic names field-0, field-1, …) refines a growing
    list**: from the object that represents any prototype state, along any history of allowed
    operations (everything except `setComponentByPosition(i)` without value where it would store the
    noValue sentinel), results are equal step by step and the object stays the representation of
    the prototype state — names are exactly field-0 … field-(n-1) at all times. -/
theorem seq_dynamic_refines_list (s : DynSpec.St) (ops : List RecOp) (hal : DynSpec.AllowedRun s ops) :
    Rec.run [] (DynSpec.rep s) ops = (DynSpec.rep (DynSpec.run s ops).1, (DynSpec.run s ops).2) :=
  dyn_run s ops hal

/-- the T4-eq region is not empty: after `values()` touched the absent OPTIONAL member, `==` with
    a fresh equal record raises the library error where the dict prototype answers True -/
theorem eq_after_read_raises :
    let fields := [FK.req, FK.opt, FK.dflt 7]
    let st := (Rec.run fields ⟨some [], 0⟩ [.setItemName 0 (.py 1), .values]).1
    (Rec.step fields st (.eqTo [.val 1, .hole, .hole])).2 = .libErr ∧
    (DictSpec.step fields (Rec.absD st) (.eqTo [.val 1, .hole, .val 7])).2 = .bool true := by
  decide

/-- **CHOICE refines the option prototype** — every operation, no guard: outputs equal, the
    abstraction commutes, the shape invariant is kept.  Touching a non-selected alternative with
    `instantiate=True` is a mutator of the prototype as well (select by touching, DESIGN T3). -/
theorem choice_refines_option (n : Nat) (hn : n ≠ 0) (st : ChoiceSt) (hinv : Choice.Inv n st)
    (ops : List ChoiceOp) :
    (Choice.run n st ops).2 = (OptionSpec.run n (Choice.absO st) ops).2 ∧
    Choice.absO (Choice.run n st ops).1 = (OptionSpec.run n (Choice.absO st) ops).1 ∧
    Choice.Inv n (Choice.run n st ops).1 :=
  choice_run hn hinv ops

/-- **a CHOICE holds at most one alternative at any time**: after any history from the fresh
    object at most one slot is not `noValue` -/
theorem choice_at_most_one (n : Nat) (hn : n ≠ 0) (ops : List ChoiceOp) :
    Choice.held (Choice.run n ⟨some [], none⟩ ops).1 ≤ 1 :=
  held_le_one (choice_run hn (inv_fresh n) ops).2.2

/-
  Full statement (false of the code, finding T5): without the `Allowed` hypothesis.
-/
/-- **ill-formed operations raise and change nothing**, SEQUENCE OF / SET OF: a position outside
    the documented range or a refused value (for multi-element assignments: the first one) gives
    IndexError / PyAsn1Error and the very same object state.  The guard `Allowed` excludes exactly
    finding T5 (reading beyond position N of a container with component type). -/
theorem illformed_noop_seqOf_partial (typed : Bool) (s : ListSpec.St) (op : SeqOfOp)
    (hinv : ListSpec.Inv typed s) (hill : ListSpec.illFormed typed s op = true)
    (hal : ListSpec.Allowed typed s op = true) :
    (SeqOf.step typed (ListSpec.rep typed s) op).2.isErr = true ∧
    (SeqOf.step typed (ListSpec.rep typed s) op).1 = ListSpec.rep typed s := by
  obtain ⟨h1, h2⟩ := spec_illformed s op hill hal
  rw [(step_rep s op hinv hal).1]
  exact ⟨h1, by rw [h2]⟩

/-- finding T5 on the model: reading position 5 of a three-element SEQUENCE OF INTEGER does not
    raise and leaves a six-element, valueless object -/
theorem t5_read_beyond_end_grows :
    let st := ListSpec.rep true (some [some 1, some 2, some 3])
    (SeqOf.step true st (.getItem 5)).2 = .comp .ph ∧
    SeqOf.len (SeqOf.step true st (.getItem 5)).1 = 6 ∧
    SeqOf.isValue (SeqOf.step true st (.getItem 5)).1 = false := by
  decide

/-- … SEQUENCE / SET with declared fields: unknown name or tag, position outside the declared
    fields, refused value -/
theorem illformed_noop_seq (fields : List FK) (hN : fields.length ≠ 0) (st : RecSt)
    (hinv : Rec.Inv fields st) (op : RecOp) (hill : DictSpec.illFormed fields op = true) :
    (Rec.step fields st op).2.isErr = true ∧ (Rec.step fields st op).1 = st :=
  rec_illformed hinv hN op hill

/-- … CHOICE -/
theorem illformed_noop_choice (n : Nat) (hn : n ≠ 0) (st : ChoiceSt) (hinv : Choice.Inv n st)
    (op : ChoiceOp) (hill : choiceIllFormed n op = true) :
    (Choice.step n st op).2.isErr = true ∧ (Choice.step n st op).1 = st :=
  choice_illformed hn hinv op hill

/-- **reads change nothing**, SEQUENCE OF / SET OF: len, iteration, `in`, slices, count, index,
    prettyPrint, ==, encode, `getComponentByPosition(instantiate=False)` and `s[i]` /
    `getComponentByPosition(i)` on an existing position leave the object exactly as it was -/
theorem reads_preserve_seqOf (typed : Bool) (s : ListSpec.St) (op : SeqOfOp)
    (hinv : ListSpec.Inv typed s) (hr : ListSpec.isReader typed s op = true)
    (hal : ListSpec.Allowed typed s op = true) :
    (SeqOf.step typed (ListSpec.rep typed s) op).1 = ListSpec.rep typed s := by
  rw [(step_rep s op hinv hal).1, spec_reader s op hr]

/-- … SEQUENCE / SET: len, keys, `in`, prettyPrint, ==, every accessor with `instantiate=False`,
    instantiating accessors on a member that holds a value, and `encode` of a value object leave
    the prototype state — hence length, isValue and abstract content — unchanged.  (`values()`,
    `items()` and instantiating accessors on an unset member are touches: they allocate the slots
    and give a DEFAULT member its default; `abs` is still unchanged, see `touch_preserves_abs`.) -/
theorem reads_preserve_seq (fields : List FK) (hN : fields.length ≠ 0) (st : RecSt)
    (hinv : Rec.Inv fields st) (op : RecOp) (hr : DictSpec.isReader fields (Rec.absD st) op = true)
    (hal : Rec.Allowed fields st op = true) :
    Rec.absD (Rec.step fields st op).1 = Rec.absD st ∧
    Rec.abs fields (Rec.step fields st op).1 = Rec.abs fields st ∧
    Rec.isValue fields (Rec.step fields st op).1 = Rec.isValue fields st := by
  obtain ⟨_, h2, h3⟩ := step_abs hinv hN op hal
  have h : Rec.absD (Rec.step fields st op).1 = Rec.absD st := by rw [h2, dict_reader _ op hr]
  exact ⟨h, by rw [abs_spec h3 hN, abs_spec hinv hN, h], by rw [isValue_abs hN, isValue_abs hN, h]⟩

/-- … CHOICE: len, keys, `in`, values, items, getComponent, getName, prettyPrint, ==, encode never
    touch the object -/
theorem reads_preserve_choice (n : Nat) (st : ChoiceSt) (op : ChoiceOp) (hr : pureReader op = true) :
    (Choice.step n st op).1 = st :=
  impl_fst_reader n st op hr

/-- every dunder the scalar classes implement by forwarding to their payload is one `NoValue`
    plugs (or, for `__bytes__`, reaches the payload through the plugged `__index__`): on a schema
    object the payload is `noValue`, so the operation raises PyAsn1Error -/
theorem schema_scalar_ops_fail :
    Generated.scalarForwarded.all (fun d =>
      noValueRaises Generated.noValuePlugged d ||
      (d == "__bytes__" && noValueRaises Generated.noValuePlugged "__index__")) = true := by
  decide

/-! ### non-vacuity -/

/-- a history with appends, reverse, slice assignment, clone, reads and an ill-formed write is
    allowed from the fresh typed object … -/
example : ListSpec.AllowedRun true none
    [.append (.py 3), .extend [.py 1, .obj 2], .getItem 3, .setItem 3 (.py 9), .reverse,
     .setSlice (some 0) (some 2) [.py 5, .py 6], .clone true, .setItem (-9) (.py 1), .setItem 0 .bad, .contains 5, .encode] := by
  decide

/-- … and the prototype ends with the list [5, 6, 1, 3] -/
example : (ListSpec.run true none
    [.append (.py 3), .extend [.py 1, .obj 2], .getItem 3, .setItem 3 (.py 9), .reverse,
     .setSlice (some 0) (some 2) [.py 5, .py 6], .clone true, .contains 5, .encode]).1
    = some [some 5, some 6, some 1, some 3] := by
  decide

/-- the record invariant holds of the fresh object and of a padded one -/
example : Rec.Inv [FK.req, FK.opt, FK.dflt 7] ⟨some [], 0⟩ :=
  ⟨rfl, by intro l hl; cases hl; exact ⟨.inl rfl, by intro k d _; simp⟩⟩

example : DictSpec.illFormed [FK.req, FK.opt] (.setItemName 2 (.py 1)) = true := by decide
example : ListSpec.illFormed true (some [some 1]) (.getItem (-2)) = true := by decide
example : choiceIllFormed 2 (.setItemPos 2 (.py 1)) = true := by decide
example : Choice.Inv 2 ⟨some [], none⟩ := inv_fresh 2
example : (DynSpec.run none [.setItemPos 0 (.obj 4), .setItemPos 1 (.obj 5), .setItemName 0 (.py 7), .setItemPos 3 (.obj 1),
    .getItemName 1, .clone true, .keys]).1 = some [7, 5] := by decide

/-! ### at the source level: how SEQUENCE OF / SET OF objects read an index -/

/-- **index normalisation at the source level is the list model's**: the statement `if idx < 0: idx = len(self) + idx; if
    idx < 0: raise ...` as it stands in `SequenceOfAndSetOfBase.getComponentByPosition` and in `setComponentByPosition`
    (translated from /repo on this run into `GenK.seqOfGetIdx` / `GenK.seqOfSetIdx`, `len(self)` a parameter) computes the
    model's `SeqOf.normIdx` for every object state and every integer index: as a Python list counts, and the library's error
    - not a wrap-around - before the front -/
theorem source_index_normalisation_is_model (st : SeqOfSt) (i : Int) :
    GenK.seqOfGetIdx (SeqOf.len st : Int) i = Kernels.liftIdx (SeqOf.normIdx st i) ∧
      GenK.seqOfSetIdx (SeqOf.len st : Int) i = Kernels.liftIdx (SeqOf.normIdx st i) :=
  ⟨Kernels.seqOfGetIdx_kernel st i, Kernels.seqOfSetIdx_kernel st i⟩

/-- an index before the front of an `n`-element object is refused, never mapped onto an element -/
theorem source_index_before_front_is_refused (st : SeqOfSt) (i : Int) (h : i < -(SeqOf.len st : Int)) :
    GenK.seqOfGetIdx (SeqOf.len st : Int) i = .error (.lib "PyAsn1Error") := by
  rw [Kernels.seqOfGetIdx_kernel]
  have h0 : ¬ (0 ≤ i) := by omega
  have h1 : ¬ (0 ≤ (SeqOf.len st : Int) + i) := by omega
  simp [SeqOf.normIdx, h0, h1, Kernels.liftIdx]

/-- non-vacuity: three elements; -1 is the last, -3 the first, -4 refused -/
example : GenK.seqOfGetIdx 3 (-1) = .ok 2 := by rfl
example : GenK.seqOfGetIdx 3 (-3) = .ok 0 := by rfl
example : GenK.seqOfGetIdx 3 (-4) = .error (.lib "PyAsn1Error") := by rfl
example : GenK.seqOfSetIdx 3 5 = .ok 5 := by rfl

end Asn1.C19
