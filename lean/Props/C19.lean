/-
  Props.C19 — container objects refine their Python prototypes under any operation history.
-/
import Asn1.Container

namespace Asn1.C19
open Asn1.Container

/-- every dunder the scalar classes implement by forwarding to their payload is one `NoValue`
    plugs (or, for `__bytes__`, reaches the payload through the plugged `__index__`): on a schema
    object the payload is `noValue`, so the operation raises PyAsn1Error -/
theorem schema_scalar_ops_fail :
    Generated.scalarForwarded.all (fun d =>
      noValueRaises Generated.noValuePlugged d ||
      (d == "__bytes__" && noValueRaises Generated.noValuePlugged "__index__")) = true := by
  decide

end Asn1.C19
