/-
  Props.C03 — encoder output equals the X.690 encoding computed by an independent reference.
  (Content-octet characterisations are added as they are proved.)
-/
import Asn1.Generated
import Asn1.X690
import Proofs.TagLen

namespace Asn1.C03

/-- identifier octets: the encoder's octets are read back as the tag, for every class/format/number -/
theorem encodeTag_spec (t : Tag) (isConstructed : Bool) (rest : Bytes) :
    decodeTag (encodeTag t isConstructed ++ rest)
      = .ok (⟨t.cls, t.constructed || isConstructed, t.num⟩, rest) :=
  decodeTag_encodeTag t isConstructed rest

/-- length octets: short form below 128, otherwise the long form, read back as the length -/
theorem encodeLength_spec (n : Nat) (l : Bytes) (h : encodeLength n = some l) (rest : Bytes) :
    decodeLength (l ++ rest) = .ok (.definite n, rest) :=
  decodeLength_encodeLength n l h rest

/-- the short form is used exactly below 128 (boundary 127/128) -/
theorem encodeLength_short (n : Nat) (h : n < 128) : encodeLength n = some [UInt8.ofNat n] := by
  simp [encodeLength, h]

/-- the DER modes fixed in the source: definite lengths, no chunking, TRUE = FF, sorted SET OF,
    dynamic SET order (generated table) -/
theorem der_table :
    Generated.derEnc.fixedDefMode = some true ∧ Generated.derEnc.fixedChunk = some 0 ∧
    Generated.derEnc.boolTrue = 255 ∧ Generated.derEncBoolFalse = 0 ∧
    Generated.derEnc.sortSetOf = true ∧ Generated.derEnc.setOrder = .dynamic := by
  decide

end Asn1.C03
