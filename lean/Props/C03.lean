/-
  Props.C03 — encoder output equals the X.690 encoding computed by an independent reference.
  (Content-octet characterisations are added as they are proved.)
-/
import Asn1.Generated
import Asn1.X690
import Proofs.TagLen
import Proofs.X690Prim
import Proofs.X690Der
import Proofs.Kernels
import Proofs.KernelReal
import Proofs.KernelRealDec
import Proofs.KernelWrap
import Proofs.EncSpec
import Proofs.KernelSort

namespace Asn1.C03

/-- identifier octets: the encoder's octets are read back as the tag, for every class/format/number -/
theorem encodeTag_spec (t : Tag) (isConstructed : Bool) (rest : Bytes) :
    decodeTag (encodeTag t isConstructed ++ rest)
      = .ok (⟨t.cls, t.constructed || isConstructed, t.num⟩, rest) :=
  decodeTag_encodeTag t isConstructed rest

/-- length octets: short form below 128, otherwise the long form, read back as the length -/
theorem encodeLength_spec (n : Nat) (l : Bytes) (h : encodeLength n = some l) (rest : Bytes) :
    decodeLength (l ++ rest) = .ok (.definite n, rest) :=
  decodeLength_encodeLength n l h rest

/-- the short form is used exactly below 128 (boundary 127/128) -/
theorem encodeLength_short (n : Nat) (h : n < 128) : encodeLength n = some [UInt8.ofNat n] := by
  simp [encodeLength, h]

/-- the DER modes fixed in the source: definite lengths, no chunking, TRUE = FF, sorted SET OF,
    dynamic SET order (generated table) -/
theorem der_table :
    Generated.derEnc.fixedDefMode = some true ∧ Generated.derEnc.fixedChunk = some 0 ∧
    Generated.derEnc.boolTrue = 255 ∧ Generated.derEncBoolFalse = 0 ∧
    Generated.derEnc.sortSetOf = true ∧ Generated.derEnc.setOrder = .dynamic := by
  decide

/-! ### the encoder's octets are those of the independent X.690 transcription -/

/-- identifier octets (X.690 8.1.2), every class, form and tag number -/
theorem identifier_is_x690 (t : Tag) (isConstructed : Bool) :
    encodeTag t isConstructed = X690.ident t.cls (t.constructed || isConstructed) t.num :=
  (ident_eq t isConstructed).symm

/-- definite length octets in the fewest octets (X.690 8.1.3, 10.1), every length the encoder accepts -/
theorem length_is_x690 (n : Nat) (l : Bytes) (h : encodeLength n = some l) : l = X690.len n :=
  (len_eq n l h).symm

/-- INTEGER / ENUMERATED contents: two's complement in the fewest octets (X.690 8.3), every integer -/
theorem integer_is_x690 (z : Int) : intToBytes z = X690.intOctets z := (intOctets_eq z).symm

/-- BIT STRING contents: unused-bit count, bits from the top, unused bits zero (X.690 8.6, 11.2) -/
theorem bitstring_is_x690 (bs : List Bool) : bitsToContent bs = X690.bitOctets bs := (bitOctets_eq bs).symm

/-- OBJECT IDENTIFIER contents and the arcs refused (X.690 8.19) -/
theorem oid_is_x690 (arcs : List Nat) : oidToContent arcs = X690.oidOctets arcs := (oidOctets_eq arcs).symm

/-- REAL, binary encoding base 2 with odd mantissa and minimal exponent (X.690 8.5, 11.3) -/
theorem real_is_x690 (m e : Int) : realBinToContent m e = X690.realOctets (.fin m 2 e) := (realOctets_eq m e).symm

theorem der_cfg : DerCfg Generated.derEnc := ⟨by decide, by decide, by decide, by decide⟩

/-- **the DER encoder's output is the X.690 distinguished encoding**, for every type of the region
    (no ANY; REAL in base 2), every value of the type to which finding E3 (a present OPTIONAL member
    with empty contents is left out) does not apply, whatever options the caller passes:
    headers in the minimal definite form, minimal contents, FF for TRUE, DEFAULT-valued members
    absent, SET members in canonical tag order, SET OF elements in ascending order of their
    encodings — as computed by `X690.der`, which shares no code with the encoder model. -/
theorem der_encoder_is_x690 (o : EncOpts) (hi : o.ifNotEmpty = false) (t : Ty) (v : Val) (b : Bytes)
    (hreg : t.reg true Generated.derEnc true = true) (hwf : t.WF = true) (hty : HasType t v = true)
    (hn : noE3 true t v = true) (h : encItem Generated.derEnc o t v = .ok b) :
    X690.der t v = some b :=
  der_is_x690 Generated.derEnc der_cfg o rfl rfl hi t v b hreg hwf hty hn h

/-- the hypotheses are met by a SET with a DEFAULT member equal to its default, an explicitly and an
    implicitly tagged member out of tag order, and a SET OF with elements out of order -/
example :
    let t : Ty := .set (.cons .req (.tagged true .context 5 (.prim .boolean))
      (.cons (.dflt (.int 7)) (.prim .integer)
        (.cons .req (.tagged false .application 1 (.setOf (.prim (.str 4)))) .nil)))
    let v : Val := .seq [.bool true, .int 7, .seqOf [.str [9, 9], .str [1]]]
    t.reg true Generated.derEnc true = true ∧ t.WF = true ∧ HasType t v = true ∧ noE3 true t v = true := by
  decide +kernel

/-! ### the canonical length form, at every depth -/

/-- **CER: indefinite length exactly for constructed encodings, at every depth** (X.690 9.1).  Whatever the CER encoder
    writes for a value of the region, whatever options the caller passes, is the serialisation of a well-formed tree -
    an encoding of the value under the CER profile - in which every constructed node, however deep, has the
    indefinite form (`80 … 00 00`) and every primitive node the definite form (`TLV.lenForm false`) -/
theorem cer_length_form_everywhere (o : EncOpts) (hi : o.ifNotEmpty = false) (t : Ty) (v : Val) (b : Bytes)
    (hreg : t.reg true Generated.cerEnc false = true) (hwf : t.WF = true) (hty : HasType t v = true)
    (hn : noE3 true t v = true) (h : encItem Generated.cerEnc o t v = .ok b) :
    ∃ x : TLV, b = x.ser ∧ x.WF ∧ x.lenForm false = true ∧ IsBer cerProfile t v x := by
  have hR : EncRegion Generated.cerEnc cerProfile 1000 :=
    { boolT := by decide, chunk := Or.inr rfl, setOmit := Or.inr rfl }
  have h' : finishItem Generated.cerEnc (mkO false 1000 o.ifNotEmpty) t
      (encValue Generated.cerEnc (mkO false 1000 o.ifNotEmpty) t v) = .ok b := h
  obtain ⟨x, hb, hw, _, hf, hber⟩ := encode_spec Generated.cerEnc cerProfile false 1000 hR o.ifNotEmpty hi t v b hreg hwf hty hn h'
  exact ⟨x, hb, hw, hf, hber⟩

/-- DER: the definite form at every node, at every depth (X.690 10.1) -/
theorem der_length_form_everywhere (o : EncOpts) (hi : o.ifNotEmpty = false) (t : Ty) (v : Val) (b : Bytes)
    (hreg : t.reg true Generated.derEnc true = true) (hwf : t.WF = true) (hty : HasType t v = true)
    (hn : noE3 true t v = true) (h : encItem Generated.derEnc o t v = .ok b) :
    ∃ x : TLV, b = x.ser ∧ x.WF ∧ x.allDef = true ∧ IsBer derProfile t v x := by
  have hR : EncRegion Generated.derEnc derProfile 0 :=
    { boolT := by decide, chunk := Or.inl rfl, setOmit := Or.inr rfl }
  have h' : finishItem Generated.derEnc (mkO true 0 o.ifNotEmpty) t
      (encValue Generated.derEnc (mkO true 0 o.ifNotEmpty) t v) = .ok b := h
  obtain ⟨x, hb, hw, _, hf, hber⟩ := encode_spec Generated.derEnc derProfile true 0 hR o.ifNotEmpty hi t v b hreg hwf hty hn h'
  exact ⟨x, hb, hw, lenForm_allDef hf rfl, hber⟩

/-- BER: the caller's mode at every depth - definite everywhere under `defMode=True`, indefinite at every constructed
    node under `defMode=False` -/
theorem ber_length_form_everywhere (o : EncOpts) (hi : o.ifNotEmpty = false) (t : Ty) (v : Val) (b : Bytes)
    (hreg : t.reg true Generated.berEnc o.defMode = true) (hwf : t.WF = true) (hty : HasType t v = true)
    (h : encItem Generated.berEnc o t v = .ok b) :
    ∃ x : TLV, b = x.ser ∧ x.WF ∧ x.lenForm o.defMode = true ∧ IsBer berProfile t v x := by
  have hR : EncRegion Generated.berEnc berProfile o.maxChunk :=
    { boolT := by decide, chunk := Or.inr rfl, setOmit := Or.inl rfl }
  have h' : finishItem Generated.berEnc (mkO o.defMode o.maxChunk o.ifNotEmpty) t
      (encValue Generated.berEnc (mkO o.defMode o.maxChunk o.ifNotEmpty) t v) = .ok b := h
  obtain ⟨x, hb, hw, _, hf, hber⟩ := encode_spec Generated.berEnc berProfile o.defMode o.maxChunk hR o.ifNotEmpty hi t v b hreg hwf hty
    (noE3_false t v) h'
  exact ⟨x, hb, hw, hf, hber⟩

/-- non-vacuity: a record with an explicitly tagged SEQUENCE OF and an OCTET STRING, in CER: `30 80 A0 80 30 80 02 01 05 00 00 00 00 04 01 09 00 00` - indefinite at the three constructed levels, definite at the leaves -/
example :
    let t : Ty := .seq (.cons .req (.tagged true .context 0 (.seqOf (.prim .integer))) (.cons .req (.prim (.str 4)) .nil))
    let v : Val := .seq [.seqOf [.int 5], .str [9]]
    t.reg true Generated.cerEnc false = true ∧ t.WF = true ∧ HasType t v = true ∧ noE3 true t v = true := by
  decide +kernel
example :
    (encItem Generated.cerEnc {}
      (.seq (.cons .req (.tagged true .context 0 (.seqOf (.prim .integer))) (.cons .req (.prim (.str 4)) .nil)))
      (.seq [.seqOf [.int 5], .str [9]])).toOption =
        some [0x30, 0x80, 0xA0, 0x80, 0x30, 0x80, 0x02, 0x01, 0x05, 0, 0, 0, 0, 0x04, 0x01, 0x09, 0, 0] := by
  decide +kernel

/-- **FF for TRUE at the source level** (X.690 11.1): `BooleanEncoder.encodeValue` of cer/encoder.py - the CER and DER encoder
    of BOOLEAN - translated from the working tree (`GenK.cerBoolEnc`) writes one contents octet, `00` for FALSE and `FF` for
    every other value, in primitive form: what the encoder model writes under the CER and DER tables -/
theorem source_true_is_ff (b : Bool) :
    GenK.cerBoolEnc (if b then 1 else 0) = .ok (Kernels.bytesInts [UInt8.ofNat (if b then Generated.cerEnc.boolTrue else 0)], false, false) ∧
    GenK.cerBoolEnc (if b then 1 else 0) = .ok (Kernels.bytesInts [UInt8.ofNat (if b then Generated.derEnc.boolTrue else 0)], false, false) ∧
    ∀ z : Int, z ≠ 0 → GenK.cerBoolEnc z = .ok ([255], false, false) := by
  refine ⟨by cases b <;> rfl, by cases b <;> rfl, ?_⟩
  intro z hz
  unfold GenK.cerBoolEnc
  simp [hz, bind, Except.bind, pure, Except.pure]

/-- the BER encoder of BOOLEAN (`ber/encoder.py` `BooleanEncoder.encodeValue`, `value and (1,) or (0,)`): one contents octet,
    `01` for TRUE - the `boolTrue` the encoder model has under the BER table -/
theorem source_ber_true_is_01 (b : Bool) :
    GenK.berBoolEnc (if b then 1 else 0) =
      .ok (Kernels.bytesInts [UInt8.ofNat (if b then Generated.berEnc.boolTrue else 0)], false, false) := by
  cases b <;> rfl

/-- **SET OF order at the source level** (X.690 11.6): `SetOfEncoder.encodeValue` of cer/encoder.py - the CER and DER encoder
    of SET OF - translated from the working tree by gen/py2lean.py (`GenK.setOfSort`; the element encodings are its
    argument): for every list of element encodings the source writes them in ascending order of their octets padded with
    zeros to the longest one, ties in their original order - the encoder model's `sortSetOfChunks`, which
    `der_encoder_is_x690` identifies with the X.690 order -/
theorem source_setof_order_is_model (cs : List Bytes) :
    GenK.setOfSort (cs.map Kernels.bytesInts) = .ok (Kernels.bytesInts (sortSetOfChunks cs).flatten, true, true) :=
  Kernels.setOfSort_kernel cs

/-- (no hypotheses to meet; the ordering of concrete lists - `02 01 03`, `02 01 01`, `04 00`, `02 02 01 00` come out as
    `02 01 01`, `02 01 03`, `02 02 01 00`, `04 00` - is run through the compiled driver against the real method in every
    check: `List.mergeSort` is defined by well-founded recursion and does not reduce in the kernel) -/
example : GenK.setOfSort [[2, 1, 3]] = .ok ([2, 1, 3], true, true) := by rfl

/-! ### the source itself: the octet kernels translated from /repo on this run (`Asn1/GenKernels.lean`)

The definitions `GenK.encodeTag`, `GenK.encodeLength`, `GenK.oidEncode` are produced by `gen/py2lean.py`
from the bodies of `AbstractItemEncoder.encodeTag`, `AbstractItemEncoder.encodeLength` and
`ObjectIdentifierEncoder.encodeValue` as they are in the working tree; the statements below are therefore
about what the code says now, not about a hand copy. -/

/-- identifier octets written by the source = X.690 8.1.2, every class, form, number -/
theorem source_identifier_is_x690 (t : Tag) (isConstructed : Bool) :
    GenK.encodeTag (Kernels.tagTriple t) isConstructed
      = .ok (Kernels.bytesInts (X690.ident t.cls (t.constructed || isConstructed) t.num)) := by
  rw [Kernels.encodeTag_kernel, identifier_is_x690]

/-- definite length octets written by the source = X.690 8.1.3 in the fewest octets, for every length
    below 256^126; beyond that the source refuses ("Length octets overflow") -/
theorem source_length_is_x690 (indefOk : Bool) (n : Nat) :
    GenK.encodeLength indefOk (n : Int) true =
      if (be256 n).length ≤ 126 ∨ n < 128 then .ok (Kernels.bytesInts (X690.len n))
      else .error (.lib "PyAsn1Error") := by
  rw [Kernels.encodeLength_kernel]
  simp only [encLen, Bool.not_true, Bool.false_and, Bool.false_eq_true, if_false]
  cases h : encodeLength n with
  | some l =>
    have := length_is_x690 n l h
    subst this
    have hc : (be256 n).length ≤ 126 ∨ n < 128 := by
      unfold encodeLength at h
      by_cases h1 : n < 128
      · exact Or.inr h1
      · simp only [h1, if_false] at h
        by_cases h2 : (be256 n).length > 126
        · simp [h2] at h
        · exact Or.inl (by omega)
    simp [hc, Kernels.liftLen]
  | none =>
    have hc : ¬ ((be256 n).length ≤ 126 ∨ n < 128) := by
      unfold encodeLength at h
      by_cases h1 : n < 128
      · simp [h1] at h
      · simp only [h1, if_false] at h
        by_cases h2 : (be256 n).length > 126
        · intro hh; rcases hh with hh | hh <;> omega
        · simp [h2] at h
    simp [hc, Kernels.liftLen]

/-- in indefinite mode the source writes the single octet 80 exactly for the encoders that support it -/
theorem source_length_indefinite (n : Nat) : GenK.encodeLength true (n : Int) false = .ok [128] := by
  rw [Kernels.encodeLength_kernel]; rfl

/-- INTEGER / ENUMERATED contents: `to_bytes(value, signed=True)` of pyasn1/compat/integer.py, as it is in the
    source, writes the two's complement of every integer in the fewest octets (X.690 8.3) -/
theorem source_integer_is_x690 (z : Int) :
    GenK.toBytes z true 0 = .ok (Kernels.bytesInts (X690.intOctets z)) := by
  rw [Kernels.toBytes_kernel, integer_is_x690]

/-- `IntegerEncoder.encodeValue` of ber/encoder.py as it is in the source (zero written as one `00` octet unless the encoder
    class asks for the compact form - none of the three codecs does -, everything else handed to the translated `to_bytes`):
    the contents of every INTEGER / ENUMERATED are the X.690 8.3 octets, in primitive form -/
theorem source_integer_encoder_is_x690 (z : Int) :
    ∃ isOctets, GenK.intEncode false z = .ok (Kernels.bytesInts (X690.intOctets z), false, isOctets) := by
  unfold GenK.intEncode
  by_cases h : z = 0
  · subst h
    refine ⟨false, ?_⟩
    have : X690.intOctets 0 = [0] := by rw [← integer_is_x690]; decide +kernel
    simp [this, pure, Except.pure, Kernels.bytesInts]
  · refine ⟨true, ?_⟩
    simp only [h, decide_false, Bool.false_eq_true, if_false, bind, Except.bind, source_integer_is_x690, pure, Except.pure]

/-- OBJECT IDENTIFIER contents written by the source = X.690 8.19, with the same refusals -/
theorem source_oid_is_x690 (arcs : List Nat) :
    GenK.oidEncode (Kernels.ints arcs) = Kernels.liftOid (X690.oidOctets arcs) := by
  rw [Kernels.oidEncode_kernel, oid_is_x690]

/-- binary REAL contents written by the source (the body of `RealEncoder.encodeValue` from the first octet to the
    mantissa octets, encoding base 2 - the BER default and the base CER/DER force; the split of the mantissa into
    sign and magnitude by `_dropFloatingPoint`, which is float-capable code, is modelled and compared, not translated)
    = X.690 8.5/11.3: first octet with sign, base and exponent-length bits, exponent in minimal two's complement with
    its length octet when longer than three, odd mantissa; refusal beyond 255 exponent octets -/
theorem source_real_is_x690 (m e : Int) (hm : m ≠ 0) :
    GenK.realBin (if m < 0 then -1 else 1) (m.natAbs : Int) 2 e = Kernels.liftReal (X690.realOctets (.fin m 2 e)) := by
  rw [Kernels.realBin_kernel m e hm, real_is_x690]

/-- **CER length form, at the source level** (X.690 9.1: indefinite length exactly for constructed encodings): under one
    tag and in indefinite mode (`defMode` false - what CER fixes), the header loop of `AbstractItemEncoder.encode` as it is
    in the source (`GenK.wrapTags`) writes `80 … 00 00` around constructed contents and a definite length and no
    end-of-octets around primitive ones - every tag, every contents -/
theorem source_cer_length_form (t : Tag) (sub : Bytes) (isCons isOct : Bool) (hne : sub ≠ []) :
    GenK.wrapTags true false [Kernels.tagTriple t] false (Kernels.bytesInts sub) isCons isOct =
      (if isCons then .ok (Kernels.bytesInts (encodeTag t true ++ [0x80] ++ sub ++ [0, 0]))
       else Kernels.liftLen (match encodeLength sub.length with
         | some l => .ok (encodeTag t false ++ l ++ sub)
         | none => .error .refused)) := by
  have h := Kernels.wrapTags_kernel true false false isCons isOct t [] sub
  simp only [List.map_cons, List.map_nil] at h
  rw [h, Kernels.wrapTags_single]
  have he : sub.isEmpty = false := by cases sub <;> simp_all
  cases isCons
  · simp only [he, Bool.false_and, Bool.false_eq_true, if_false, Bool.and_false]
    cases encodeLength sub.length <;> simp [Kernels.liftLen]
  · simp [he, Kernels.liftLen]

/-- **DER of an INTEGER, end to end at the source level**: the octets the translated `to_bytes` writes, wrapped by the
    translated header loop of `AbstractItemEncoder.encode` (calling the translated `encodeTag` / `encodeLength`) under the
    INTEGER tag, are the X.690 distinguished encoding `X690.der` of that integer - for every integer whose contents fit
    the length octets (no translated piece is left to the hand model; `X690.der` shares no code with any of them) -/
theorem source_der_integer_is_x690 (z : Int) (l : Bytes) (hl : encodeLength (intToBytes z).length = some l) :
    ∃ c : Py.Tup, GenK.toBytes z true 0 = .ok c ∧
      GenK.wrapTags false false [[0, 0, 2]] true c false false =
        .ok (Kernels.bytesInts ((X690.der (.prim .integer) (.int z)).getD [])) := by
  refine ⟨Kernels.bytesInts (intToBytes z), Kernels.toBytes_kernel z, ?_⟩
  have ht : ([0, 0, 2] : Py.Tup) = Kernels.tagTriple ⟨.universal, false, 2⟩ := rfl
  have hne : intToBytes z ≠ [] := intToBytes_ne_nil z
  have he : (intToBytes z).isEmpty = false := by cases h : intToBytes z <;> simp_all
  have h := Kernels.wrapTags_kernel false false true false false ⟨.universal, false, 2⟩ [] (intToBytes z)
  simp only [List.map_cons, List.map_nil] at h
  rw [ht, h, Kernels.wrapTags_single]
  simp only [he, Bool.false_and, Bool.and_false, Bool.false_eq_true, if_false, hl, List.append_nil, Kernels.liftLen]
  congr 2
  have hder : X690.derElem (.prim .integer) (.int z) = some (X690.wrap .universal false 2 (X690.intOctets z)) := by
    simp [X690.derElem, X690.derBody, PrimTy.univNum]
  rw [identifier_is_x690, length_is_x690 _ l hl, integer_is_x690]
  simp [X690.der, hder, X690.wrap, Option.getD]

/-- the same for OBJECT IDENTIFIER: translated arc encoder, translated header loop = `X690.der` -/
theorem source_der_oid_is_x690 (arcs : List Nat) (c l : Bytes) (hc : oidToContent arcs = some c)
    (hl : encodeLength c.length = some l) :
    GenK.oidEncode (Kernels.ints arcs) = .ok (Kernels.bytesInts c, false, false) ∧
      GenK.wrapTags false false [[0, 0, 6]] true (Kernels.bytesInts c) false false =
        .ok (Kernels.bytesInts ((X690.der (.prim .oid) (.oid arcs)).getD [])) := by
  have hne : c ≠ [] := by
    intro h0; subst h0
    have := oidFromContent_oidToContent arcs [] hc
    simp [oidFromContent] at this
  refine ⟨by rw [Kernels.oidEncode_kernel, hc]; rfl, ?_⟩
  have hw := Kernels.wrap_prim_kernel false 6 c l hne hl
  rw [show ([[0, 0, 6]] : List Py.Tup) = [[0, 0, ((6 : Nat) : Int)]] from rfl, hw]
  congr 2
  have hx : X690.oidOctets arcs = some c := by rw [← oid_is_x690]; exact hc
  have hder : X690.derElem (.prim .oid) (.oid arcs) = some (X690.wrap .universal false 6 c) := by
    simp [X690.derElem, X690.derBody, PrimTy.univNum, hx]
  rw [identifier_is_x690, length_is_x690 _ l hl]
  simp [X690.der, hder, X690.wrap, Option.getD]

/-- the same for a non-zero binary REAL: translated contents writer (base 2), translated header loop = `X690.der` -/
theorem source_der_real_is_x690 (m e : Int) (hm : m ≠ 0) (c l : Bytes) (hc : realBinToContent m e = some c)
    (hl : encodeLength c.length = some l) :
    GenK.realBin (if m < 0 then -1 else 1) (m.natAbs : Int) 2 e = .ok (Kernels.bytesInts c) ∧
      GenK.wrapTags false false [[0, 0, 9]] true (Kernels.bytesInts c) false false =
        .ok (Kernels.bytesInts ((X690.der (.prim .real) (.real (.fin m 2 e))).getD [])) := by
  obtain ⟨fo, rest, hcr, _⟩ := Kernels.realBinToContent_head m e c hm hc
  have hne : c ≠ [] := by rw [hcr]; simp
  refine ⟨by rw [Kernels.realBin_kernel m e hm, hc]; rfl, ?_⟩
  have hw := Kernels.wrap_prim_kernel false 9 c l hne hl
  rw [show ([[0, 0, 9]] : List Py.Tup) = [[0, 0, ((9 : Nat) : Int)]] from rfl, hw]
  congr 2
  have hx : X690.realOctets (.fin m 2 e) = some c := by rw [← real_is_x690]; exact hc
  have hder : X690.derElem (.prim .real) (.real (.fin m 2 e)) = some (X690.wrap .universal false 9 c) := by
    simp [X690.derElem, X690.derBody, PrimTy.univNum, hx]
  rw [identifier_is_x690, length_is_x690 _ l hl]
  simp [X690.der, hder, X690.wrap, Option.getD]

/-- non-vacuity: [APPLICATION 16384] constructed; length 300; OID 2.999.3; -5 * 2^3, 12 * 2^298 = 3 * 2^300 (two exponent octets) -/
example : GenK.realBin (-1) 5 2 3 = .ok [192, 3, 5] := by rfl
example : GenK.realBin 1 12 2 298 = .ok [129, 1, 44, 3] := by rfl
example : GenK.encodeTag [64, 0, 16384] true = .ok [127, 129, 128, 0] := by rfl
example : GenK.encodeLength false 300 true = .ok [130, 1, 44] := by rfl
example : GenK.toBytes (-129) true 0 = .ok [255, 127] := by rfl
example : GenK.oidEncode [2, 999, 3] = .ok ([136, 55, 3], false, false) := by rfl

/-- on a record: the encoder's octets, and hence (by the theorem) those of the transcription -/
example :
    X690.der
      (.seq (.cons .req (.tagged true .context 5 (.prim .boolean))
        (.cons (.dflt (.int 7)) (.prim .integer)
          (.cons .req (.tagged false .application 1 (.setOf (.prim (.str 4)))) .nil))))
      (.seq [.bool true, .int 7, .seqOf [.str [9, 9]]])
      = some [0x30, 0x0b, 0xa5, 0x03, 0x01, 0x01, 0xff, 0x61, 0x04, 0x04, 0x02, 0x09, 0x09] := by
  have h : (encItem Generated.derEnc {}
      (.seq (.cons .req (.tagged true .context 5 (.prim .boolean))
        (.cons (.dflt (.int 7)) (.prim .integer)
          (.cons .req (.tagged false .application 1 (.setOf (.prim (.str 4)))) .nil))))
      (.seq [.bool true, .int 7, .seqOf [.str [9, 9]]])).toOption
        = some [0x30, 0x0b, 0xa5, 0x03, 0x01, 0x01, 0xff, 0x61, 0x04, 0x04, 0x02, 0x09, 0x09] := by
    decide +kernel
  cases he : encItem Generated.derEnc {}
      (.seq (.cons .req (.tagged true .context 5 (.prim .boolean))
        (.cons (.dflt (.int 7)) (.prim .integer)
          (.cons .req (.tagged false .application 1 (.setOf (.prim (.str 4)))) .nil))))
      (.seq [.bool true, .int 7, .seqOf [.str [9, 9]]]) with
  | error e => rw [he] at h; simp [Except.toOption] at h
  | ok b =>
    rw [he] at h
    simp only [Except.toOption, Option.some.injEq] at h
    subst h
    exact der_encoder_is_x690 {} rfl _ _ _ (by decide +kernel) (by decide +kernel) (by decide +kernel)
      (by decide +kernel) he

end Asn1.C03
