/-
  Props.C04 — DER/CER bytes depend only on the abstract value, not on how it was built.

  `encodeObj` (`Asn1.Container`) mirrors the encoders' value-object personality READING THE OBJECT
  (placeholders, noValue holes, lazily padded lists); `encItem` is the codec model on abstract
  content.  The theorems hold for every encoder configuration, in particular for the generated
  DER and CER ones (`Generated.derEnc`, `Generated.cerEnc`).
-/
import Asn1.Container
import Proofs.ContainerEnc
import Proofs.Canonical
import Proofs.Placed
import Props.C02
import Proofs.KernelSort

namespace Asn1.C04
open Asn1.Container

/-- **the object's encoding factors through its abstract content** — SEQUENCE OF / SET OF -/
theorem encodeObj_factors_seqOf (cfg : EncCfg) (typed isSet : Bool) (l : List (Option Int))
    (hinv : ListSpec.Inv typed (some l)) (zs : List Int) (h : ListSpec.allSet l = some zs) :
    SeqOf.encodeObj cfg typed isSet (ListSpec.rep typed (some l)) =
      encItem cfg {} (SeqOf.ty isSet) (.seqOf (zs.map .int)) :=
  seqOf_encodeObj_factors cfg typed isSet l hinv zs h

/-- … SEQUENCE / SET with declared fields (required / OPTIONAL / DEFAULT), whatever the slots hold
    besides the values: placeholders left by reads, noValue holes, an unpadded list -/
theorem encodeObj_factors_seq (cfg : EncCfg) (isSet : Bool) (fields : List FK) (hN : fields.length ≠ 0)
    (st : RecSt) (v : Val) (h : Rec.abs fields st = some v) :
    Rec.encodeObj cfg isSet fields st = encItem cfg {} (Rec.ty isSet fields st) v :=
  rec_encodeObj_factors cfg isSet fields hN st v h

/-- … CHOICE -/
theorem encodeObj_factors_choice (cfg : EncCfg) (n : Nat) (st : ChoiceSt) (v : Val)
    (h : Choice.abs st = some v) :
    Choice.encodeObj cfg n st = encItem cfg {} (Choice.ty n) v :=
  choice_encodeObj_factors cfg n st v h

/-- **equal abstract content ⇒ identical DER bytes and identical CER bytes**, however the two
    records were produced (any order of assignment, reads in between, placeholders, cloning) -/
theorem equal_abs_equal_bytes (isSet : Bool) (fields : List FK) (hN : fields.length ≠ 0)
    (st₁ st₂ : RecSt) (v : Val) (h₁ : Rec.abs fields st₁ = some v) (h₂ : Rec.abs fields st₂ = some v) :
    Rec.encodeObj Generated.derEnc isSet fields st₁ = Rec.encodeObj Generated.derEnc isSet fields st₂ ∧
    Rec.encodeObj Generated.cerEnc isSet fields st₁ = Rec.encodeObj Generated.cerEnc isSet fields st₂ := by
  have ht : Rec.ty isSet fields st₁ = Rec.ty isSet fields st₂ := by simp [Rec.ty, hN]
  constructor
  · rw [rec_encodeObj_factors _ isSet fields hN st₁ v h₁, rec_encodeObj_factors _ isSet fields hN st₂ v h₂, ht]
  · rw [rec_encodeObj_factors _ isSet fields hN st₁ v h₁, rec_encodeObj_factors _ isSet fields hN st₂ v h₂, ht]

/-! ### the whole type universe: one DER encoding, one CER encoding per abstract value

`canonical_encoding` (Proofs/Canonical.lean): for an encoder that sorts SET OF, two values that are the
same abstract value (`VEq`: SET OF compared as a multiset at every depth, REAL as the number denoted)
get the same octets.  Region: as for the codec theorems, and every DEFAULT member has a type on which
`VEq` is plain equality (`Ty.dfltExact`: the encoders decide omission of a DEFAULT member with `==` on
the stored components - a DEFAULT of SET OF or REAL type is the recorded finding T11's territory). -/

/-- **DER bytes depend only on the abstract value** -/
theorem der_bytes_depend_only_on_value_partial (o : EncOpts) (hi : o.ifNotEmpty = false) (t : Ty) (v v' : Val)
    (hreg : t.reg true Generated.derEnc true = true) (hwf : t.WF = true) (hd : t.dfltExact = true)
    (hty : HasType t v = true) (hn : noE3 true t v = true) (hv : VEq t v v') (b : Bytes)
    (h : encItem Generated.derEnc o t v = .ok b) : encItem Generated.derEnc o t v' = .ok b :=
  canonical_encoding Generated.derEnc derProfile o hi rfl (C02.der_region o) t v v' hreg hwf hd hty hn hv b h

/-- **CER bytes depend only on the abstract value** -/
theorem cer_bytes_depend_only_on_value_partial (o : EncOpts) (hi : o.ifNotEmpty = false) (t : Ty) (v v' : Val)
    (hreg : t.reg true Generated.cerEnc false = true) (hwf : t.WF = true) (hd : t.dfltExact = true)
    (hty : HasType t v = true) (hn : noE3 true t v = true) (hv : VEq t v v') (b : Bytes)
    (h : encItem Generated.cerEnc o t v = .ok b) : encItem Generated.cerEnc o t v' = .ok b :=
  canonical_encoding Generated.cerEnc cerProfile o hi rfl (C02.cer_region o) t v v' hreg hwf hd hty hn hv b h

/-- **any order of the members of a SET OF gives the same DER** - every element type of the region (the
    "full statement" this file used to carry as a comment next to the INTEGER-only theorem) -/
theorem setOf_perm_invariant (o : EncOpts) (hi : o.ifNotEmpty = false) (t : Ty) (xs ys : List Val)
    (hreg : t.reg true Generated.derEnc true = true) (hwf : t.WF = true) (hd : t.dfltExact = true)
    (hty : ∀ x ∈ xs, HasType t x = true) (hn : ∀ x ∈ xs, noE3 true t x = true) (p : xs.Perm ys) (b : Bytes)
    (h : encItem Generated.derEnc o (.setOf t) (.seqOf xs) = .ok b) :
    encItem Generated.derEnc o (.setOf t) (.seqOf ys) = .ok b := by
  refine der_bytes_depend_only_on_value_partial o hi (.setOf t) (.seqOf xs) (.seqOf ys) (by simpa [Ty.reg] using hreg)
    (by simpa [Ty.WF] using hwf) (by simpa [Ty.dfltExact] using hd) (by simpa [HasType] using hty)
    (by simpa [noE3] using hn) ?_ b h
  refine ⟨xs, ?_, p⟩
  have : ∀ (l : List Val), (∀ x ∈ l, HasType t x = true) → All2 (fun a b => VEq t a b) l l := by
    intro l
    induction l with
    | nil => intro _; trivial
    | cons a l ih => intro hl; exact ⟨veq_refl t a (hl a (by simp)), ih (fun x hx => hl x (by simp [hx]))⟩
  exact this xs hty

/-- **decoding a DER encoding and encoding the result again gives the same octets** (the decoder may hand back
    another representative of the abstract value - SET OF in wire order, a REAL normalised - the encoder does not care) -/
theorem der_reencode_partial (o : EncOpts) (hi : o.ifNotEmpty = false) (t : Ty) (v : Val) (b tail : Bytes)
    (hreg : t.reg true Generated.derEnc true = true) (hwf : t.WF = true) (hd : t.dfltExact = true)
    (hty : HasType t v = true) (hn : noE3 true t v = true) (h : encItem Generated.derEnc o t v = .ok b) :
    ∃ w, decodeOne Generated.derDecByType t (b ++ tail) = .ok (w, tail) ∧ encItem Generated.derEnc o t w = .ok b := by
  obtain ⟨w, hdec, hv⟩ := (C02.der_roundtrip_partial o hi t v b tail hreg hwf hty hn h).1
  exact ⟨w, hdec, der_bytes_depend_only_on_value_partial o hi t v w hreg hwf hd hty hn hv b h⟩

/-- the same for CER -/
theorem cer_reencode_partial (o : EncOpts) (hi : o.ifNotEmpty = false) (t : Ty) (v : Val) (b tail : Bytes)
    (hreg : t.reg true Generated.cerEnc false = true) (hwf : t.WF = true) (hd : t.dfltExact = true)
    (hty : HasType t v = true) (hn : noE3 true t v = true) (h : encItem Generated.cerEnc o t v = .ok b) :
    ∃ w, decodeOne Generated.cerDecByType t (b ++ tail) = .ok (w, tail) ∧ encItem Generated.cerEnc o t w = .ok b := by
  obtain ⟨w, hdec, hv⟩ := (C02.cer_roundtrip_partial o hi t v b tail hreg hwf hty hn h).1
  exact ⟨w, hdec, cer_bytes_depend_only_on_value_partial o hi t v w hreg hwf hd hty hn hv b h⟩

/-- the hypotheses are met by a non-trivial element type: SET OF (SET OF INTEGER), and by a record with a SET OF member,
    a REAL and a DEFAULT of exact type -/
example :
    let t : Ty := .setOf (.prim .integer)
    let r : Ty := .seq (.cons .req (.setOf (.tagged true .context 0 (.prim (.str 12)))) (.cons .req (.prim .real)
      (.cons (.dflt (.int 7)) (.prim .integer) .nil)))
    t.reg true Generated.derEnc true = true ∧ t.dfltExact = true ∧ t.WF = true ∧
    r.reg true Generated.derEnc true = true ∧ r.dfltExact = true ∧ r.WF = true ∧
    HasType r (.seq [.seqOf [.str [0x62], .str [0x61, 0x61]], .real (.fin 12 2 3), .int 7]) = true ∧
    VEq r (.seq [.seqOf [.str [0x62], .str [0x61, 0x61]], .real (.fin 12 2 3), .int 7])
          (.seq [.seqOf [.str [0x61, 0x61], .str [0x62]], .real (.fin 3 2 5), .int 7]) := by
  refine ⟨by decide, by decide, by decide, by decide, by decide, by decide, by decide, ?_⟩
  simp only [VEq, VEqFields, and_true]
  refine ⟨⟨[.str [0x62], .str [0x61, 0x61]], by simp [All2, VEq], List.Perm.swap _ _ _⟩, ?_⟩
  decide

/-
  Full statement (for every element type T; needs the encoder-soundness hub: every complete DER/CER
  element encoding is `identifier ++ definite length ++ contents`, or prefix-freeness of indefinite ones):
    theorem setOf_perm_invariant : xs ~ ys → encItem der (setOf T) (seqOf xs) = encItem der (setOf T) (seqOf ys)
-/
/-- **any order of adding SET OF members gives the same DER and the same CER bytes** — for SET OF
    INTEGER objects: two objects whose members are permutations of one another encode identically -/
theorem setOf_perm_invariant_partial (typed : Bool) (l₁ l₂ : List (Option Int)) (zs₁ zs₂ : List Int)
    (i₁ : ListSpec.Inv typed (some l₁)) (i₂ : ListSpec.Inv typed (some l₂))
    (h₁ : ListSpec.allSet l₁ = some zs₁) (h₂ : ListSpec.allSet l₂ = some zs₂) (p : zs₁.Perm zs₂) :
    SeqOf.encodeObj Generated.derEnc typed true (ListSpec.rep typed (some l₁)) =
      SeqOf.encodeObj Generated.derEnc typed true (ListSpec.rep typed (some l₂)) ∧
    SeqOf.encodeObj Generated.cerEnc typed true (ListSpec.rep typed (some l₁)) =
      SeqOf.encodeObj Generated.cerEnc typed true (ListSpec.rep typed (some l₂)) := by
  constructor
  · rw [seqOf_encodeObj_factors _ typed true l₁ i₁ zs₁ h₁, seqOf_encodeObj_factors _ typed true l₂ i₂ zs₂ h₂]
    exact setOf_int_perm Generated.derEnc rfl p
  · rw [seqOf_encodeObj_factors _ typed true l₁ i₁ zs₁ h₁, seqOf_encodeObj_factors _ typed true l₂ i₂ zs₂ h₂]
    exact setOf_int_perm Generated.cerEnc rfl p

/-- the general mechanism, for any element type: the SET OF sort gives the same list for every
    permutation of member encodings that are definite-length framed under one identifier (no two of
    them are zero-paddings of one another, so the padded sort key is injective and the stability of
    the sort is irrelevant) -/
theorem setOf_sort_perm_framed (hdr : Bytes) (xs ys : List Bytes) (p : xs.Perm ys)
    (hf : ∀ c ∈ xs, Framed hdr c) : sortSetOfChunks xs = sortSetOfChunks ys :=
  sortSetOfChunks_perm p (framed_padInj hdr xs hf)

/-- **at the source level: the order in which SET OF members were added does not reach the wire.**  `SetOfEncoder.encodeValue`
    of cer/encoder.py (CER and DER), translated from the working tree on this run (`GenK.setOfSort`), writes the same
    octets for every permutation of element encodings that are definite-length framed under one identifier (DER elements
    of one type) -/
theorem source_setof_order_insensitive (hdr : Bytes) (xs ys : List Bytes) (p : xs.Perm ys)
    (hf : ∀ c ∈ xs, Framed hdr c) :
    GenK.setOfSort (xs.map Kernels.bytesInts) = GenK.setOfSort (ys.map Kernels.bytesInts) := by
  rw [Kernels.setOfSort_kernel, Kernels.setOfSort_kernel, setOf_sort_perm_framed hdr xs ys p hf]

/-- **a DEFAULT component set explicitly to its default or left out**: same abstract content,
    hence (by `equal_abs_equal_bytes`) the same DER and CER bytes -/
theorem default_explicit_eq_absent (fields : List FK) (l : List Comp) (k : Nat) (d : Int)
    (hk : fields[k]? = some (FK.dflt d)) (hl : k < l.length) (hN : fields.length ≠ 0) (dyn : Nat) :
    Rec.abs fields ⟨some (l.set k (.val d)), dyn⟩ = Rec.abs fields ⟨some (l.set k .hole), dyn⟩ := by
  simp only [Rec.abs, hN, ne_eq, not_false_eq_true, if_true, absFields_default fields l k d hk hl]

/-- **cloning keeps the abstract content** (`clone(cloneValueFlag=True)`), for the three kinds -/
theorem clone_abs_seqOf (typed : Bool) (s : ListSpec.St) (hinv : ListSpec.Inv typed s) :
    SeqOf.abs (SeqOf.step typed (ListSpec.rep typed s) (.clone true)).1 = SeqOf.abs (ListSpec.rep typed s) :=
  seqOf_clone_abs typed s hinv

theorem clone_abs_seq (fields : List FK) (hN : fields.length ≠ 0) (st : RecSt) (hinv : Rec.Inv fields st) :
    Rec.abs fields (Rec.step fields st (.clone true)).1 = Rec.abs fields st :=
  rec_clone_abs fields hN st hinv

theorem clone_abs_choice (n : Nat) (hn : n ≠ 0) (st : ChoiceSt) (hinv : Choice.Inv n st) :
    Choice.abs (Choice.step n st (.clone true)).1 = Choice.abs st :=
  choice_clone_abs n hn st hinv

/-- **read-only uses in between do not matter**: every operation of a record history that is a
    reader or a touch (`values()`, `items()`, `s[name]` of an unset member, `encode`, `==`, …) leaves
    the abstract content — and with it the DER/CER bytes — unchanged.  Stated for all accessors at
    once: whatever is not a setter / clear / reset / clone keeps `abs`. -/
theorem touch_preserves_abs (fields : List FK) (hN : fields.length ≠ 0) (st : RecSt)
    (hinv : Rec.Inv fields st) (hval : st.comps.isSome = true) (op : RecOp)
    (hacc : match op with
      | .getItemPos _ | .getItemName _ | .getPos _ _ | .getName _ _ | .getType _ _ | .len | .keys
      | .contains _ | .pretty => True
      | _ => False) :
    Rec.abs fields (Rec.step fields st op).1 = Rec.abs fields st := by
  have hal : Rec.Allowed fields st op = true := by cases op <;> first | rfl | exact hacc.elim
  obtain ⟨_, h2, h3⟩ := step_abs hinv hN op hal
  rw [abs_spec h3 hN, abs_spec hinv hN, h2]
  -- on the prototype: reading a key either changes nothing or allocates / stores the default
  have hget : ∀ i inst, DictSpec.abs fields (DictSpec.getAt fields (Rec.absD st) i inst).1 =
      DictSpec.abs fields (Rec.absD st) := by
    intro i inst
    unfold DictSpec.getAt
    cases hcur : DictSpec.cur fields (Rec.absD st) i with
    | some z => rfl
    | none =>
      simp only
      split
      · rfl
      · cases hk : pyIdx fields.length i with
        | none => rfl
        | some k =>
          simp only
          cases hfk : fields[k]? with
          | none => rfl
          | some fk =>
            simp only
            cases hs : Rec.absD st with
            | none => simp [Rec.absD] at hs; simp [hs] at hval
            | some l =>
              rw [hs] at hcur
              exact abs_touch fields l k fk hfk (by
                simp only [DictSpec.cur, hk, Option.getD_some] at hcur
                exact hcur)
  cases op with
  | getItemPos i => simpa [DictSpec.step] using hget i true
  | getPos i inst => exact hget i inst
  | getItemName k =>
    simp only [DictSpec.step]
    cases DictSpec.posOfName fields k with
    | none => rfl
    | some i => exact hget i true
  | getName k inst =>
    simp only [DictSpec.step]
    cases DictSpec.posOfName fields k with
    | none => rfl
    | some i => exact hget i inst
  | getType k inst =>
    simp only [DictSpec.step]
    cases DictSpec.posOfName fields k with
    | none => rfl
    | some i => exact hget i inst
  | len => simp only [DictSpec.step]; cases Rec.absD st <;> rfl
  | keys => rfl
  | contains _ => rfl
  | pretty => simp only [DictSpec.step]; cases Rec.absD st <;> rfl
  | setItemPos _ _ | setItemName _ _ | setPos _ _ | setName _ _ | setType _ _ | setNone _ | clear | reset
    | clone _ | values | items | eqTo _ | encode _ => exact hacc.elim

/-! ### non-vacuity -/

/-- two different construction histories of SEQUENCE { a INTEGER, b INTEGER OPTIONAL, c INTEGER DEFAULT 7 }
    — fields assigned in another order, the default set explicitly, reads in between — reach the
    same abstract value through different object states, and the theorem applies: identical DER -/
def exFields : List FK := [FK.req, FK.opt, FK.dflt 7]
def exSt₁ : RecSt := (Rec.run exFields ⟨some [], 0⟩ [.setItemName 0 (.py 1)]).1
def exSt₂ : RecSt :=
  (Rec.run exFields ⟨some [], 0⟩ [.setItemName 2 (.py 7), .values, .setPos 0 (.obj 1), .getItemName 1]).1

example : Rec.abs exFields exSt₁ = some (.seq [.int 1, .absent, .int 7]) := rfl
example : Rec.abs exFields exSt₂ = some (.seq [.int 1, .absent, .int 7]) := rfl
example : exSt₁ ≠ exSt₂ := by decide
example : Rec.encodeObj Generated.derEnc false exFields exSt₁ = Rec.encodeObj Generated.derEnc false exFields exSt₂ :=
  (equal_abs_equal_bytes false exFields (by decide) exSt₁ exSt₂ _ rfl rfl).1

example : Generated.derEnc.sortSetOf = true ∧ Generated.cerEnc.sortSetOf = true := ⟨rfl, rfl⟩

end Asn1.C04
