/-
  Props.C01 — BER encode/decode round trip under every encoder mode.
-/
import Asn1.Generated
import Proofs.Parse
import Proofs.Fuel
import Proofs.RoundTrip
import Proofs.Kernels
import Proofs.KernelRealDec
import Proofs.KernelLen

namespace Asn1.C01

/-- framing half of the round trip: any well-formed element, in any length form and any mix of
    definite/indefinite nesting, followed by any bytes, is read back as itself with the tail intact -/
theorem framing_roundtrip (t : TLV) (tail : Bytes) (hw : t.WF) :
    parseOne Generated.berDecByType.parse (t.ser ++ tail) = .ok (t, tail) :=
  parseOne_ser _ t tail hw (Or.inl (by decide))

/-- the BER codec tables extracted from the source are inside the region of the round-trip proof -/
theorem ber_region (o : EncOpts) (hi : o.ifNotEmpty = false) :
    Region Generated.berEnc Generated.berDecByType o :=
  { seqOmit := rfl, setOrd := rfl, sortOf := rfl, chunk := Or.inr ⟨rfl, by decide⟩, ine := hi,
    bool := by intro b hd tg; cases b <;> rfl }

theorem ber_region_byTag (o : EncOpts) (hi : o.ifNotEmpty = false) :
    Region Generated.berEnc Generated.berDecByTag o :=
  { seqOmit := rfl, setOrd := rfl, sortOf := rfl, chunk := Or.inr ⟨rfl, by decide⟩, ine := hi,
    bool := by intro b hd tg; cases b <;> rfl }

/-- **BER round trip, every encoder mode** (partial in the type universe only: types without ANY and
    REAL; in indefinite mode no explicit tag over BOOLEAN/INTEGER/ENUMERATED/NULL/OBJECT IDENTIFIER —
    that is finding E1, where the real encoder writes a stray end-of-octets).
    For every well-formed type of the region, every complete value of it, definite or indefinite
    mode, every `maxChunkSize`, any nesting depth, any tag classes and numbers, any lengths:
    whatever `encode` returns, followed by any octets, `decode` against the same type gives back
    the value and exactly those octets. -/
theorem ber_roundtrip_partial (defMode : Bool) (maxChunk : Nat) (t : Ty) (v : Val) (b tail : Bytes)
    (hreg : t.reg false Generated.berEnc defMode = true) (hwf : t.WF = true) (hty : HasType t v = true)
    (h : encItem Generated.berEnc { defMode := defMode, maxChunk := maxChunk } t v = .ok b) :
    decodeOne Generated.berDecByType t (b ++ tail) = .ok (v, tail) :=
  roundtrip_item Generated.berEnc Generated.berDecByType { defMode := defMode, maxChunk := maxChunk }
    (ber_region _ rfl) rfl t v b tail hreg hwf hty h

/-- the hypotheses are met by a non-trivial case: a SEQUENCE with an explicitly tagged OCTET STRING,
    an absent OPTIONAL and a SET OF INTEGER, in indefinite mode with one-octet chunks -/
example :
    let t : Ty := .seq (.cons .req (.tagged true .context 0 (.prim (.str 4)))
      (.cons .opt (.prim .boolean) (.cons .req (.setOf (.prim .integer)) .nil)))
    let v : Val := .seq [.str [1, 2], .absent, .seqOf [.int 5, .int (-300)]]
    t.reg false Generated.berEnc false = true ∧ t.WF = true ∧ HasType t v = true ∧
      (encItem Generated.berEnc { defMode := false, maxChunk := 1 } t v).toOption.isSome = true := by
  decide +kernel

/-! ### at the source level: kernels translated from /repo on this run (gen/py2lean.py → Asn1/GenKernels.lean) -/

/-- **OBJECT IDENTIFIER contents round-trip through the source's own loops**: what the body of
    `ObjectIdentifierEncoder.encodeValue` writes for a tuple of arcs, the body of
    `ObjectIdentifierPayloadDecoder.valueDecoder` reads back as those arcs — every arc list the encoder
    accepts, arcs of any size -/
theorem source_oid_roundtrip (arcs : List Nat) (c : Bytes) (h : oidToContent arcs = some c) :
    GenK.oidEncode (Kernels.ints arcs) = .ok (Kernels.bytesInts c, false, false) ∧
    GenK.oidDecode (Kernels.bytesInts c) = .ok (Kernels.ints arcs) := by
  have hd := oidFromContent_oidToContent arcs c h
  have hne : c ≠ [] := by
    intro hc; subst hc; simp [oidFromContent] at hd
  refine ⟨by rw [Kernels.oidEncode_kernel, h]; rfl, ?_⟩
  rw [Kernels.oidDecode_kernel c hne, hd]
  rfl

/-- **INTEGER contents**: `to_bytes(value, signed=True)` as it is in the source writes octets that the
    decoder model's `from_bytes` reads back as the value, for every integer -/
theorem source_integer_roundtrip (z : Int) :
    ∃ c : Bytes, GenK.toBytes z true 0 = .ok (Kernels.bytesInts c) ∧ intFromBytes c = z :=
  ⟨intToBytes z, Kernels.toBytes_kernel z, intFromBytes_intToBytes z⟩

/-- the same with the decoder side at the source level too: the octets the translated `to_bytes` writes, the
    translated body of `IntegerPayloadDecoder.valueDecoder` (which calls the translated `from_bytes`) reads back as
    the integer - every integer -/
theorem source_integer_roundtrip_both (z : Int) :
    ∃ c : Py.Tup, GenK.toBytes z true 0 = .ok c ∧ GenK.intDecode c = .ok z :=
  ⟨Kernels.bytesInts (intToBytes z), Kernels.toBytes_kernel z, by
    rw [Kernels.intDecode_kernel, intFromBytes_intToBytes]⟩

example : GenK.intDecode [255, 127] = .ok (-129) := by rfl

/-- **binary REAL contents, at the source level**: what the translated body of `RealEncoder.encodeValue` writes for a
    non-zero mantissa and any exponent (encoding base 2), the translated binary branch of
    `RealPayloadDecoder.valueDecoder` reads back as a (mantissa, 2, exponent) triple denoting the same number
    (`realKey` = the normal form with odd mantissa) -/
theorem source_real_roundtrip (m e : Int) (hm : m ≠ 0) (c : Bytes) (h : realBinToContent m e = some c) :
    GenK.realBin (if m < 0 then -1 else 1) (m.natAbs : Int) 2 e = .ok (Kernels.bytesInts c) ∧
    ∃ (fo : UInt8) (rest : Bytes) (p e' : Int), c = fo :: rest ∧
      GenK.realDec (fo.toNat : Int) (Kernels.bytesInts rest) = .ok [p, 2, e'] ∧
      realKey (.fin p 2 e') = realKey (.fin m 2 e) := by
  refine ⟨by rw [Kernels.realBin_kernel m e hm, h]; rfl, ?_⟩
  obtain ⟨fo, rest, hc, hfo⟩ := Kernels.realBinToContent_head m e c hm h
  obtain ⟨r, hr, hk⟩ := realFromContent_realBinToContent m e c hm h
  subst hc
  have hkey : ∃ p' e', realKey (.fin m 2 e) = .fin p' 2 e' := by
    simp only [realKey, hm, if_false, if_true]; exact ⟨_, _, rfl⟩
  obtain ⟨p', e'', hkey⟩ := hkey
  rw [hkey] at hk
  cases r with
  | pinf => simp [realKey] at hk
  | minf => simp [realKey] at hk
  | fin p b e' =>
    have hb2 : b = 2 := by
      simp only [realKey] at hk
      split at hk
      · cases hk
      · split at hk
        · assumption
        · cases hk; rfl
    subst hb2
    refine ⟨fo, rest, p, e', rfl, ?_, by rw [hkey]; exact hk⟩
    rw [Kernels.realDec_kernel fo rest hfo, hr]
    rfl

example : GenK.realDec 192 [3, 5] = .ok [-5, 2, 3] := by rfl

example : GenK.oidDecode [43, 6, 1, 4, 1, 134, 141, 31] = .ok [1, 3, 6, 1, 4, 1, 99999] := by rfl


end Asn1.C01
