/-
  Props.C01 — BER encode/decode round trip under every encoder mode.
-/
import Asn1.Generated
import Proofs.Parse
import Proofs.Fuel
import Proofs.RoundTrip

namespace Asn1.C01

/-- framing half of the round trip: any well-formed element, in any length form and any mix of
    definite/indefinite nesting, followed by any bytes, is read back as itself with the tail intact -/
theorem framing_roundtrip (t : TLV) (tail : Bytes) (hw : t.WF) :
    parseOne Generated.berDecByType.parse (t.ser ++ tail) = .ok (t, tail) :=
  parseOne_ser _ t tail hw (Or.inl (by decide))

/-- the BER codec tables extracted from the source are inside the region of the round-trip proof -/
theorem ber_region (o : EncOpts) (hc : o.maxChunk = 0) (hi : o.ifNotEmpty = false) :
    Region Generated.berEnc Generated.berDecByType o :=
  { seqOmit := rfl, setOrd := rfl, sortOf := rfl, chunk := hc, ine := hi,
    bool := by intro b hd tg; cases b <;> rfl }

theorem ber_region_byTag (o : EncOpts) (hc : o.maxChunk = 0) (hi : o.ifNotEmpty = false) :
    Region Generated.berEnc Generated.berDecByTag o :=
  { seqOmit := rfl, setOrd := rfl, sortOf := rfl, chunk := hc, ine := hi,
    bool := by intro b hd tg; cases b <;> rfl }

/-- **BER round trip** (partial: `maxChunkSize = 0`; types without ANY and REAL; in indefinite mode
    no explicit tag over BOOLEAN/INTEGER/ENUMERATED/NULL/OBJECT IDENTIFIER — finding E1).
    For every well-formed type of the region, every complete value of it, definite or indefinite
    mode, any nesting depth, any tag numbers and lengths: whatever `encode` returns, followed by
    any octets, `decode` against the same type gives back the value and exactly those octets. -/
theorem ber_roundtrip_partial (defMode : Bool) (t : Ty) (v : Val) (b tail : Bytes)
    (hreg : t.reg Generated.berEnc defMode = true) (hwf : t.WF = true) (hty : HasType t v = true)
    (h : encItem Generated.berEnc { defMode := defMode } t v = .ok b) :
    decodeOne Generated.berDecByType t (b ++ tail) = .ok (v, tail) :=
  roundtrip_item Generated.berEnc Generated.berDecByType { defMode := defMode }
    (ber_region _ rfl rfl) rfl t v b tail hreg hwf hty h

/-- the hypotheses are met by a non-trivial case: a SEQUENCE with an explicitly tagged OCTET STRING,
    an absent OPTIONAL and a SET OF INTEGER, in indefinite mode -/
example :
    let t : Ty := .seq (.cons .req (.tagged true .context 0 (.prim (.str 4)))
      (.cons .opt (.prim .boolean) (.cons .req (.setOf (.prim .integer)) .nil)))
    let v : Val := .seq [.str [1, 2], .absent, .seqOf [.int 5, .int (-300)]]
    t.reg Generated.berEnc false = true ∧ t.WF = true ∧ HasType t v = true ∧
      (encItem Generated.berEnc { defMode := false } t v).toOption.isSome = true := by
  decide +kernel

end Asn1.C01
