/-
  Props.C01 — BER encode/decode round trip under every encoder mode.
  (Semantic round trip theorems are added as the proof of the schema layer proceeds; what is here
  is proved.)
-/
import Asn1.Generated
import Proofs.Parse
import Proofs.Fuel

namespace Asn1.C01

/-- framing half of the round trip: any well-formed element, in any length form and any mix of
    definite/indefinite nesting, followed by any bytes, is read back as itself with the tail intact -/
theorem framing_roundtrip (t : TLV) (tail : Bytes) (hw : t.WF) :
    parseOne Generated.berDecByType.parse (t.ser ++ tail) = .ok (t, tail) :=
  parseOne_ser _ t tail hw (Or.inl (by decide))

end Asn1.C01
