/-
  Props.C20 — time values convert to and from datetime without changing the instant.
-/
import Asn1.Time

namespace Asn1.C20
open Asn1.Time

end Asn1.C20
