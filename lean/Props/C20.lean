/-
  Props.C20 — time values convert to and from datetime without changing the instant.
  Property theorems only (lemmas: Proofs/TimeDigits, Proofs/TimeRoundtrip, Proofs/TimeCanon, Proofs/TimeInstant).
  The model (Asn1/Time.lean) mirrors /repo after the three C20 `fix:` commits.
-/
import Proofs.TimeRoundtrip
import Proofs.TimeCanon
import Proofs.TimeInstant
import Asn1.Generated
import Proofs.KernelTime

namespace Asn1.C20
open Asn1.Time

/-- GeneralizedTime: every datetime with millisecond precision and a whole-minute offset of less than a day
    (what `datetime` can hold) is written by `fromDateTime` and read back by `asDateTime` with the same
    fields — hence the same instant — and the same offset; a naive datetime comes back as UTC. -/
theorem gt_roundtrip (dt : DT) (v : ValidDT dt) (hms : dt.micro % 1000 = 0) :
    asDateTime gt (fromDateTime gt dt) = .ok { dt with off := some (dt.off.getD 0) } :=
  asDateTime_fromDateTime_gt v hms

/-- UTCTime: second precision, and the year inside the window 1969..2068 in which strptime's `%y`
    (hence pyasn1) places two-digit years. -/
theorem utc_roundtrip (dt : DT) (v : ValidDT dt) (hy : 1969 ≤ dt.year ∧ dt.year ≤ 2068) (hs : dt.micro = 0) :
    asDateTime utc (fromDateTime utc dt) = .ok { dt with off := some (dt.off.getD 0) } :=
  asDateTime_fromDateTime_utc v hy hs

/-- whatever the CER/DER encoders emit for a time value with at most one decimal point ends in `Z`,
    contains no comma and no offset sign, respects the type's length window, and its fraction — the text
    between the decimal point and the `Z` — is non-empty (no dangling point) and free of zeros, in
    particular of trailing zeros. -/
theorem canon_shape (k : Kind) (s s' : List Char) (h : canonTime k s = .ok s') (h1 : s.count '.' ≤ 1) :
    s'.getLast? = some 'Z' ∧ ',' ∉ s' ∧ '+' ∉ s' ∧ '-' ∉ s'
      ∧ (∀ pre frac, s' = pre ++ '.' :: (frac ++ ['Z']) → frac ≠ [] ∧ '0' ∉ frac ∧ frac.getLast? ≠ some '0')
      ∧ k.minLength < s'.length ∧ s'.length < k.maxLength := by
  obtain ⟨a, b, c, d, e⟩ := canonTime_shape h h1
  obtain ⟨_, _, _, _, _, l1, l2⟩ := canonTime_ok h
  refine ⟨a, b, c, d, ?_, l1, l2⟩
  intro pre frac hs
  obtain ⟨n, z⟩ := e pre frac hs
  exact ⟨n, z, fun hl => z (List.mem_of_getLast? hl)⟩

/-- values without a decimal point (every UTCTime, GeneralizedTime without fraction) are emitted unchanged,
    so they trivially denote the same instant -/
theorem canon_identity_without_fraction (k : Kind) (s s' : List Char) (h : canonTime k s = .ok s')
    (hd : '.' ∉ s) : s' = s := by
  obtain ⟨_, _, _, _, e, _, _⟩ := canonTime_ok h
  rw [if_neg hd] at e; exact e

/-- PARTIAL (known finding `canon-inner-zero-deleted`, pinned by
    tests/codec/cer/test_encoder.py::GeneralizedTimeEncoderTestCase::testWithSubsecondsWithZeros).
    Full statement demanded by C20:
      ∀ main frac, AllDig main → AllDig frac → frac ≠ [] →
        canonTime gt (main ++ '.' :: (frac ++ ['Z'])) = .ok s' → instant gt s' = instant gt (main ++ '.' :: (frac ++ ['Z']))
    It is false where the fraction has a `0` before a non-zero digit (see `canon_inner_zero_counterexample`).
    Proved here for exactly the complement: the fraction is a zero-free digit string `f` followed by `n` zeros. -/
theorem canon_instant_partial (main f : List Char) (n : Nat) (s' : List Char)
    (hm : AllDig main) (hf : AllDig f) (h0 : '0' ∉ f) (hne : f ≠ [] ∨ n ≠ 0)
    (h : canonTime gt (main ++ '.' :: (f ++ List.replicate n '0' ++ ['Z'])) = .ok s') :
    instant gt s' = instant gt (main ++ '.' :: (f ++ List.replicate n '0' ++ ['Z'])) :=
  canonTime_instant hm hf h0 hne h

/-- what the code does inside the finding's region, on the witness: the interior zeros go, the instant moves -/
theorem canon_inner_zero_counterexample :
    canonTime gt "20170801120112.10203Z".toList = .ok "20170801120112.123Z".toList
      ∧ instant gt "20170801120112.123Z".toList ≠ instant gt "20170801120112.10203Z".toList := by
  decide

/-- a value that X.680 reads as local time or with a non-zero UTC offset is refused with a library error
    (never emitted, never another exception) -/
theorem canon_refuses_nonutc (k : Kind) (s : List Char) (i : Instant)
    (h : instant k s = some i) (ho : i.off ≠ some 0) : canonTime k s = .error .liberr :=
  canonTime_refuses_nonutc h ho

/-- the CER and the DER encoder tables (generated from the source on every run) both serve the two time
    types with the classes whose `encodeValue` is `canonTime`: one model covers both codecs -/
theorem time_encoder_rows_match_source :
    Generated.cerEncRows.lookup "GeneralizedTime" = some "cer.GeneralizedTimeEncoder"
    ∧ Generated.derEncRows.lookup "GeneralizedTime" = some "cer.GeneralizedTimeEncoder"
    ∧ Generated.cerEncRows.lookup "UTCTime" = some "cer.UTCTimeEncoder"
    ∧ Generated.derEncRows.lookup "UTCTime" = some "cer.UTCTimeEncoder" := by decide

/-! ### at the source level: the canonicaliser translated from /repo on this run -/

/-- the model's two kinds carry the class attributes of the source (generated table) -/
theorem time_kinds_match_source :
    Generated.timeKinds =
      [("gt", gt.yearsDigits, gt.hasSubsecond, gt.optionalMinutes, gt.shortTZ, gt.minLength, gt.maxLength),
       ("utc", utc.yearsDigits, utc.hasSubsecond, utc.optionalMinutes, utc.shortTZ, utc.minLength, utc.maxLength)] := by
  rfl

/-- **the body of `TimeEncoderMixIn.encodeValue`** (cer/encoder.py, between `asNumbers()` and the hand-over to the string
    encoder; translated by gen/py2lean.py into `GenK.timeCanon`) **computes the model's `canonTime`**, for every text and
    both time types - so `canon_shape`, `canon_instant_partial`, `canon_refuses_nonutc`, … are statements about what the
    source does now -/
theorem source_canonicaliser_is_model (k : Kind) (s : List Char) :
    GenK.timeCanon (k.maxLength : Int) (k.minLength : Int) (Kernels.I s) = Kernels.liftTime (canonTime k s) :=
  Kernels.timeCanon_kernel k s

/-- whatever text the source's canonicaliser lets through is the model's answer, hence has the canonical shape -/
theorem source_canon_accepts_only_model_output (k : Kind) (s : List Char) (r : Py.Tup)
    (h : GenK.timeCanon (k.maxLength : Int) (k.minLength : Int) (Kernels.I s) = .ok r) :
    ∃ s', canonTime k s = .ok s' ∧ r = Kernels.I s' := by
  rw [Kernels.timeCanon_kernel] at h
  cases hc : canonTime k s with
  | ok s' => rw [hc] at h; simp only [Kernels.liftTime, Except.ok.injEq] at h; exact ⟨s', rfl, h.symm⟩
  | error e => rw [hc] at h; cases e <;> simp [Kernels.liftTime] at h

example : GenK.timeCanon 20 12 (Kernels.I "20170801120112.1020Z".toList) = .ok (Kernels.I "20170801120112.12Z".toList) := by rfl

/-- any offset sign is refused, also `+0000` -/
theorem canon_refuses_sign (k : Kind) (s : List Char) (h : '+' ∈ s ∨ '-' ∈ s) :
    canonTime k s = .error .liberr :=
  canonTime_refuses_sign k h

/-- UTCTime: the text `fromDateTime` writes, read per X.680 §47 (two-digit year in the strptime window),
    denotes the datetime's own instant with its own offset. -/
theorem utc_text_instant (dt : DT) (v : ValidDT dt) (hy : 1969 ≤ dt.year ∧ dt.year ≤ 2068) (hs : dt.micro = 0) :
    instant utc (fromDateTime utc dt) = some ({ dt with off := some (dt.off.getD 0) } : DT).instant :=
  instant_fromDateTime_utc v hy hs

/-- PARTIAL (known finding `from-fraction-unpadded`, pinned by
    tests/type/test_useful.py::GeneralizedTimeTestCase::testFromDateTime).
    Full statement: ∀ dt, ValidDT dt → dt.micro % 1000 = 0 →
        instant gt (fromDateTime gt dt) = some { dt with off := some (dt.off.getD 0) }.instant
    It is false for 0 < ms < 100 (`'.%d' % ms` is not zero-padded; see `from_fraction_counterexample`); the
    library's own `asDateTime` undoes the error, so `gt_roundtrip` is unaffected. Proved for the complement. -/
theorem from_instant_partial (dt : DT) (v : ValidDT dt) (hms : dt.micro % 1000 = 0)
    (hg : dt.micro = 0 ∨ 100000 ≤ dt.micro) :
    instant gt (fromDateTime gt dt) = some ({ dt with off := some (dt.off.getD 0) } : DT).instant :=
  instant_fromDateTime_gt v hms hg

/-- inside the finding's region: 5 ms is written `.5`, which X.680 reads as 500 ms -/
theorem from_fraction_counterexample :
    fromDateTime gt ⟨2017, 7, 11, 0, 1, 2, 5000, none⟩ = "20170711000102.5Z".toList
      ∧ instant gt "20170711000102.5Z".toList = some ⟨2017, 7, 11, 62500000, 0, some 0⟩
      ∧ (⟨2017, 7, 11, 0, 1, 2, 5000, some 0⟩ : DT).instant = ⟨2017, 7, 11, 62005000, 0, some 0⟩ := by
  refine ⟨?_, by decide, by decide⟩
  rw [fromDateTime_gt, dec_lt (by decide)]
  decide

/-- known finding `as-fraction-integer-ms` (pinned by tests/type/test_useful.py testToDateTime2..6) on its
    witness: `asDateTime` reads `.12` as 12 ms where X.680 reads 120 ms; four digits leak a ValueError -/
theorem as_fraction_counterexample :
    asDateTime gt "20170711000102.12Z".toList = .ok ⟨2017, 7, 11, 0, 1, 2, 12000, some 0⟩
      ∧ instant gt "20170711000102.12Z".toList = some ⟨2017, 7, 11, 62120000, 0, some 0⟩
      ∧ asDateTime gt "20170711000102.1234Z".toList = .error (.leak "ValueError") := by
  decide

/-! ### non-vacuity -/

def sample : DT := ⟨2017, 7, 11, 0, 1, 2, 3000, some (-90)⟩

theorem sample_valid : ValidDT sample :=
  ⟨by decide, by decide, by decide, by decide, by decide, by decide, by decide,
   by intro o h; cases h; decide⟩

example : asDateTime gt (fromDateTime gt sample) = .ok sample := gt_roundtrip sample sample_valid (by decide)
example : asDateTime gt "20170711000102.3-0130".toList = .ok sample := by decide
example : asDateTime utc (fromDateTime utc { sample with micro := 0, off := none })
    = .ok { sample with micro := 0, off := some 0 } :=
  utc_roundtrip _ ⟨by decide, by decide, by decide, by decide, by decide, by decide, by decide,
    by intro o h; cases h⟩ (by decide) rfl
example : asDateTime utc "170711000102+0530".toList = .ok ⟨2017, 7, 11, 0, 1, 2, 0, some 330⟩ := by decide

example : canonTime gt "201708011201.10000Z".toList = .ok "201708011201.1Z".toList := by decide
example : ("201708011201.10000Z".toList).count '.' ≤ 1 := by decide
example : canonTime gt "20170801120112.000Z".toList = .ok "20170801120112Z".toList := by decide
example : canonTime utc "9908011201Z".toList = .ok "9908011201Z".toList := by decide
/-- `canon_instant_partial` instantiated: main = 201708011201, f = 1, n = 4 -/
example : instant gt "201708011201.1Z".toList = instant gt "201708011201.10000Z".toList :=
  canon_instant_partial "201708011201".toList ['1'] 4 _ (by decide) (by decide) (by decide) (Or.inl (by decide))
    (by decide)
example : instant gt "2017080112.5+0130".toList = some ⟨2017, 8, 1, 45000000000, 0, some 90⟩ := by decide
example : canonTime gt "2017080112.5+0130".toList = .error .liberr :=
  canon_refuses_nonutc gt _ ⟨2017, 8, 1, 45000000000, 0, some 90⟩ (by decide) (by decide)
example : instant gt "20170801120112".toList = some ⟨2017, 8, 1, 43272000000, 0, none⟩ := by decide
example : canonTime gt "20170801120112".toList = .error .liberr :=
  canon_refuses_nonutc gt _ _ (by decide : instant gt "20170801120112".toList = some ⟨2017, 8, 1, 43272000000, 0, none⟩)
    (by decide)

example : instant gt (fromDateTime gt { sample with micro := 120000 })
    = some (⟨2017, 7, 11, 0, 1, 2, 120000, some (-90)⟩ : DT).instant :=
  from_instant_partial _ ⟨by decide, by decide, by decide, by decide, by decide, by decide, by decide,
    by intro o h; cases h; decide⟩ (by decide) (Or.inr (by decide))
example : instant utc (fromDateTime utc { sample with micro := 0 })
    = some (⟨2017, 7, 11, 0, 1, 2, 0, some (-90)⟩ : DT).instant :=
  utc_text_instant _ ⟨by decide, by decide, by decide, by decide, by decide, by decide, by decide,
    by intro o h; cases h; decide⟩ (by decide) rfl

end Asn1.C20
