/-
  Props.C07 — decoding consumes exactly one encoding and preserves what follows.
-/
import Asn1.Generated
import Proofs.Parse
import Proofs.Fuel

namespace Asn1.C07

/-- **exact consumption**: a well-formed element `t` followed by arbitrary bytes `tail` (empty, zeros,
    another encoding, garbage) is framed as exactly `t`, and `tail` is returned untouched — for every
    tree: any tags, any length forms, definite or indefinite nesting, any size. -/
theorem tail_preserved (cfg : ParseCfg) (t : TLV) (tail : Bytes) (hw : t.WF) (ho : t.okFor cfg) :
    parseOne cfg (t.ser ++ tail) = .ok (t, tail) :=
  parseOne_ser cfg t tail hw ho

/-- the guided decoder returns the remainder the framing layer computed: whatever value it builds,
    the remainder is exactly `tail` -/
theorem decodeOne_tail (cfg : DecCfg) (ty : Ty) (t : TLV) (tail : Bytes) (v : Val) (rest : Bytes)
    (hw : t.WF) (ho : t.okFor cfg.parse)
    (h : decodeOne cfg ty (t.ser ++ tail) = .ok (v, rest)) : rest = tail := by
  unfold decodeOne at h
  rw [parseOne_ser cfg.parse t tail hw ho] at h
  simp only at h
  cases hd : decTy cfg ty t with
  | error e => rw [hd] at h; simp [Except.map] at h
  | ok v' => rw [hd] at h; simp [Except.map] at h; exact h.2.symm

/-- a stream of elements back to back: framing the first leaves exactly the others (by induction
    this gives one object per encoding and the position after object i = |e₁…eᵢ|) -/
theorem stream_first (cfg : ParseCfg) (t : TLV) (ts : List TLV) (hw : t.WF) (ho : t.okFor cfg) :
    parseOne cfg (serList (t :: ts)) = .ok (t, serList ts) := by
  simp only [serList]
  exact parseOne_ser cfg t _ hw ho

/-- every successful framing step consumes at least two octets: no object is delivered twice and
    the position strictly advances -/
theorem progress (cfg : ParseCfg) (bs : Bytes) (t : TLV) (rest : Bytes)
    (h : parseOne cfg bs = .ok (t, rest)) : rest.length + 2 ≤ bs.length :=
  parse_consumes cfg _ bs t rest h

end Asn1.C07
