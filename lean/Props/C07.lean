/-
  Props.C07 — decoding consumes exactly one encoding and preserves what follows.
-/
import Asn1.Generated
import Proofs.Parse
import Proofs.Fuel
import Proofs.RoundTrip

namespace Asn1.C07

/-- **exact consumption**: a well-formed element `t` followed by arbitrary bytes `tail` (empty, zeros,
    another encoding, garbage) is framed as exactly `t`, and `tail` is returned untouched — for every
    tree: any tags, any length forms, definite or indefinite nesting, any size. -/
theorem tail_preserved (cfg : ParseCfg) (t : TLV) (tail : Bytes) (hw : t.WF) (ho : t.okFor cfg) :
    parseOne cfg (t.ser ++ tail) = .ok (t, tail) :=
  parseOne_ser cfg t tail hw ho

/-- the guided decoder returns the remainder the framing layer computed: whatever value it builds,
    the remainder is exactly `tail` -/
theorem decodeOne_tail (cfg : DecCfg) (ty : Ty) (t : TLV) (tail : Bytes) (v : Val) (rest : Bytes)
    (hw : t.WF) (ho : t.okFor cfg.parse)
    (h : decodeOne cfg ty (t.ser ++ tail) = .ok (v, rest)) : rest = tail := by
  unfold decodeOne at h
  rw [parseOne_ser cfg.parse t tail hw ho] at h
  simp only at h
  cases hd : decTy cfg ty t with
  | error e => rw [hd] at h; simp [Except.map] at h
  | ok v' => rw [hd] at h; simp [Except.map] at h; exact h.2.symm

/-- a stream of elements back to back: framing the first leaves exactly the others (by induction
    this gives one object per encoding and the position after object i = |e₁…eᵢ|) -/
theorem stream_first (cfg : ParseCfg) (t : TLV) (ts : List TLV) (hw : t.WF) (ho : t.okFor cfg) :
    parseOne cfg (serList (t :: ts)) = .ok (t, serList ts) := by
  simp only [serList]
  exact parseOne_ser cfg t _ hw ho

/-- every successful framing step consumes at least two octets: no object is delivered twice and
    the position strictly advances -/
theorem progress (cfg : ParseCfg) (bs : Bytes) (t : TLV) (rest : Bytes)
    (h : parseOne cfg bs = .ok (t, rest)) : rest.length + 2 ≤ bs.length :=
  parse_consumes cfg _ bs t rest h


/-- **encoder output followed by anything**: the encoding the BER encoder produces (any mode; region
    of `Asn1.Ty.reg`, which in indefinite mode excludes finding E1) is consumed exactly — the value
    comes back and the tail is returned untouched, whatever it is -/
theorem encoding_then_tail (defMode : Bool) (maxChunk : Nat) (t : Ty) (v : Val) (b tail : Bytes)
    (hreg : t.reg false Generated.berEnc defMode = true) (hwf : t.WF = true) (hty : HasType t v = true)
    (h : encItem Generated.berEnc { defMode := defMode, maxChunk := maxChunk } t v = .ok b) :
    decodeOne Generated.berDecByType t (b ++ tail) = .ok (v, tail) :=
  roundtrip_item Generated.berEnc Generated.berDecByType { defMode := defMode, maxChunk := maxChunk }
    { seqOmit := rfl, setOrd := rfl, sortOf := rfl, chunk := Or.inr ⟨rfl, by decide⟩, ine := rfl,
      bool := by intro b hd tg; cases b <;> rfl } rfl t v b tail hreg hwf hty h

/-- two encodings back to back: the first decode leaves exactly the second encoding, which then
    decodes to the second value with nothing left -/
theorem two_encodings (defMode : Bool) (maxChunk : Nat) (t1 t2 : Ty) (v1 v2 : Val) (b1 b2 : Bytes)
    (hr1 : t1.reg false Generated.berEnc defMode = true) (hw1 : t1.WF = true) (ht1 : HasType t1 v1 = true)
    (hr2 : t2.reg false Generated.berEnc defMode = true) (hw2 : t2.WF = true) (ht2 : HasType t2 v2 = true)
    (h1 : encItem Generated.berEnc { defMode := defMode, maxChunk := maxChunk } t1 v1 = .ok b1)
    (h2 : encItem Generated.berEnc { defMode := defMode, maxChunk := maxChunk } t2 v2 = .ok b2) :
    decodeOne Generated.berDecByType t1 (b1 ++ b2) = .ok (v1, b2) ∧
      decodeOne Generated.berDecByType t2 b2 = .ok (v2, []) := by
  refine ⟨encoding_then_tail defMode maxChunk t1 v1 b1 b2 hr1 hw1 ht1 h1, ?_⟩
  have := encoding_then_tail defMode maxChunk t2 v2 b2 [] hr2 hw2 ht2 h2
  simpa using this

end Asn1.C07
