/-
  Props.C07 — decoding consumes exactly one encoding and preserves what follows.
-/
import Asn1.Generated
import Proofs.Parse
import Proofs.Fuel
import Proofs.RoundTrip
import Proofs.KernelLen
import Proofs.KernelTag

namespace Asn1.C07

/-- **exact consumption**: a well-formed element `t` followed by arbitrary bytes `tail` (empty, zeros,
    another encoding, garbage) is framed as exactly `t`, and `tail` is returned untouched — for every
    tree: any tags, any length forms, definite or indefinite nesting, any size. -/
theorem tail_preserved (cfg : ParseCfg) (t : TLV) (tail : Bytes) (hw : t.WF) (ho : t.okFor cfg) :
    parseOne cfg (t.ser ++ tail) = .ok (t, tail) :=
  parseOne_ser cfg t tail hw ho

/-- the guided decoder returns the remainder the framing layer computed: whatever value it builds,
    the remainder is exactly `tail` -/
theorem decodeOne_tail (cfg : DecCfg) (ty : Ty) (t : TLV) (tail : Bytes) (v : Val) (rest : Bytes)
    (hw : t.WF) (ho : t.okFor cfg.parse)
    (h : decodeOne cfg ty (t.ser ++ tail) = .ok (v, rest)) : rest = tail := by
  unfold decodeOne at h
  rw [parseOne_ser cfg.parse t tail hw ho] at h
  simp only at h
  cases hd : decTy cfg ty t with
  | error e => rw [hd] at h; simp [Except.map] at h
  | ok v' => rw [hd] at h; simp [Except.map] at h; exact h.2.symm

/-- a stream of elements back to back: framing the first leaves exactly the others (by induction
    this gives one object per encoding and the position after object i = |e₁…eᵢ|) -/
theorem stream_first (cfg : ParseCfg) (t : TLV) (ts : List TLV) (hw : t.WF) (ho : t.okFor cfg) :
    parseOne cfg (serList (t :: ts)) = .ok (t, serList ts) := by
  simp only [serList]
  exact parseOne_ser cfg t _ hw ho

/-- every successful framing step consumes at least two octets: no object is delivered twice and
    the position strictly advances -/
theorem progress (cfg : ParseCfg) (bs : Bytes) (t : TLV) (rest : Bytes)
    (h : parseOne cfg bs = .ok (t, rest)) : rest.length + 2 ≤ bs.length :=
  parse_consumes cfg _ bs t rest h


/-- **encoder output followed by anything**: the encoding the BER encoder produces (any mode; region
    of `Asn1.Ty.reg`, which in indefinite mode excludes finding E1) is consumed exactly — the value
    comes back and the tail is returned untouched, whatever it is -/
theorem encoding_then_tail (defMode : Bool) (maxChunk : Nat) (t : Ty) (v : Val) (b tail : Bytes)
    (hreg : t.reg false Generated.berEnc defMode = true) (hwf : t.WF = true) (hty : HasType t v = true)
    (h : encItem Generated.berEnc { defMode := defMode, maxChunk := maxChunk } t v = .ok b) :
    decodeOne Generated.berDecByType t (b ++ tail) = .ok (v, tail) :=
  roundtrip_item Generated.berEnc Generated.berDecByType { defMode := defMode, maxChunk := maxChunk }
    { seqOmit := rfl, setOrd := rfl, sortOf := rfl, chunk := Or.inr ⟨rfl, by decide⟩, ine := rfl,
      bool := by intro b hd tg; cases b <;> rfl } rfl t v b tail hreg hwf hty h

/-- two encodings back to back: the first decode leaves exactly the second encoding, which then
    decodes to the second value with nothing left -/
theorem two_encodings (defMode : Bool) (maxChunk : Nat) (t1 t2 : Ty) (v1 v2 : Val) (b1 b2 : Bytes)
    (hr1 : t1.reg false Generated.berEnc defMode = true) (hw1 : t1.WF = true) (ht1 : HasType t1 v1 = true)
    (hr2 : t2.reg false Generated.berEnc defMode = true) (hw2 : t2.WF = true) (ht2 : HasType t2 v2 = true)
    (h1 : encItem Generated.berEnc { defMode := defMode, maxChunk := maxChunk } t1 v1 = .ok b1)
    (h2 : encItem Generated.berEnc { defMode := defMode, maxChunk := maxChunk } t2 v2 = .ok b2) :
    decodeOne Generated.berDecByType t1 (b1 ++ b2) = .ok (v1, b2) ∧
      decodeOne Generated.berDecByType t2 b2 = .ok (v2, []) := by
  refine ⟨encoding_then_tail defMode maxChunk t1 v1 b1 b2 hr1 hw1 ht1 h1, ?_⟩
  have := encoding_then_tail defMode maxChunk t2 v2 b2 [] hr2 hw2 ht2 h2
  simpa using this


/-! ### at the source level: the header the encoder writes is what the decoder's blocks consume - no more, no less -/

/-- the length octets the model writes: one octet below 128, else `0x80 + k` followed by exactly `k` octets -/
theorem encodeLength_shape (n : Nat) (b : UInt8) (lb : Bytes) (h : encodeLength n = some (b :: lb)) :
    (b.toNat < 128 ∧ lb = []) ∨ (128 < b.toNat ∧ b.toNat % 128 = lb.length) := by
  unfold encodeLength at h
  by_cases hs : n < 0x80
  · simp only [hs, if_true, Option.some.injEq, List.cons.injEq] at h
    obtain ⟨hb, hl⟩ := h
    left
    refine ⟨?_, hl.symm⟩
    rw [← hb]
    have hmod : (UInt8.ofNat n).toNat = n := toNat_ofNat_lt n (by omega)
    omega
  · simp only [hs, if_false] at h
    by_cases hlen : (be256 n).length > 126
    · simp [hlen] at h
    · simp only [hlen, if_false, Option.some.injEq, List.cons.injEq] at h
      obtain ⟨hb, hl⟩ := h
      right
      have hpos : 0 < (be256 n).length := beDigits_length_pos 254 n (by omega)
      have hll : lb.length = (be256 n).length := by rw [← hl]; simp [natsToBytes]
      have hmod : (UInt8.ofNat (0x80 + (be256 n).length)).toNat = 128 + (be256 n).length := toNat_ofNat_lt _ (by omega)
      rw [← hb, hmod, hll]
      omega

/-- **a header written by the source's encoder is consumed exactly by the source's decoder, whatever follows**: for every
    tag, either form, every contents length up to `sys.maxsize` and every `tail`, the translated `encodeTag` and
    `encodeLength` write `ident` and `b :: lb`; on `ident ++ b :: lb ++ tail` the translated `stDecodeTag` block reads the
    tag back having consumed exactly `|ident|` octets, and the translated `stDecodeLength` block - handed the first length
    octet and the `b mod 128` octets after it, which is what it asks the stream for in the long form - answers `n`, and
    those octets are exactly `lb`: none of `tail` is read -/
theorem source_header_consumed_exactly (t : Tag) (ic allowIndef indefOk : Bool) (n : Nat) (hn : n ≤ 9223372036854775807)
    (tail : Bytes) :
    ∃ (ident : Bytes) (b : UInt8) (lb : Bytes),
      GenK.encodeTag (Kernels.tagTriple t) ic = .ok (Kernels.bytesInts ident) ∧
      GenK.encodeLength indefOk (n : Int) true = .ok (Kernels.bytesInts (b :: lb)) ∧
      GenK.decodeTag (Kernels.bytesInts (ident ++ ((b :: lb) ++ tail))) =
        .ok [(t.cls.bits : Int), if (t.constructed || ic) then 32 else 0, (t.num : Int), (ident.length : Int)] ∧
      GenK.decodeLength allowIndef (b.toNat : Int) (Kernels.bytesInts ((lb ++ tail).take (b.toNat % 128))) = .ok (n : Int) ∧
      ((b.toNat < 128 ∧ lb = []) ∨ (128 < b.toNat ∧ (lb ++ tail).take (b.toNat % 128) = lb)) := by
  have hfits : ∃ l, encodeLength n = some l := by
    unfold encodeLength
    by_cases hs : n < 0x80
    · exact ⟨_, by simp only [hs, if_true]; rfl⟩
    · have hlen : (be256 n).length ≤ 8 := Kernels.be256_length_le 8 n (by
        show n < 256 ^ 8
        omega)
      have : ¬ (be256 n).length > 126 := by omega
      exact ⟨_, by simp only [hs, this, if_false]; rfl⟩
  obtain ⟨l, hl⟩ := hfits
  have hdec := decodeLength_encodeLength n l hl
  have hne : l ≠ [] := by
    intro h0; subst h0
    have := hdec []
    simp [decodeLength] at this
  obtain ⟨b, lb, rfl⟩ := List.exists_cons_of_ne_nil hne
  refine ⟨encodeTag t ic, b, lb, Kernels.encodeTag_kernel t ic, ?_, ?_, ?_, ?_⟩
  · rw [Kernels.encodeLength_kernel]
    simp [encLen, hl, Kernels.liftLen]
  · rw [Kernels.decodeTag_kernel, decodeTag_encodeTag]
    simp only [Kernels.liftDecTag, List.length_append, Nat.add_sub_cancel]
  · rw [Kernels.decodeLength_kernel allowIndef b (lb ++ tail)]
    have := hdec tail
    simp only [List.cons_append] at this
    rw [this]
    have : ¬ ((n : Int) > 9223372036854775807) := by omega
    simp [Kernels.liftDecLen, this]
  · rcases encodeLength_shape n b lb hl with h | ⟨h1, h2⟩
    · exact Or.inl h
    · exact Or.inr ⟨h1, by rw [h2]; simp⟩

/-- non-vacuity: `[APPLICATION 40]` constructed over 300 octets of contents is `7F 28 82 01 2C`; the identifier block stops
    after two octets, the length block reads the two octets after `82` and answers 300 -/
example : GenK.decodeTag [0x7F, 0x28, 0x82, 0x01, 0x2C, 0xAA, 0xBB] = .ok [64, 32, 40, 2] := by rfl
example : GenK.decodeLength true 0x82 [0x01, 0x2C] = .ok 300 := by rfl

end Asn1.C07
