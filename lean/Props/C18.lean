/-
  Props.C18 — open types (ANY DEFINED BY): what an ANY field captures, and what decoding the
  captured octets with the mapped type gives.
-/
import Asn1.Generated
import Proofs.Parse
import Proofs.OpenType
import Props.C02
import Props.C09
import Proofs.KernelGate

namespace Asn1.C18

/-- **an untagged ANY holds exactly the complete encoding of the element it stands for** — any
    well-formed element (scalar or constructed, definite or indefinite, any length form), with any
    bytes following.  `anyOk`: neither the element nor anything reached through indefinite-length
    levels carries the tag `[UNIVERSAL 0]`, which ANY refuses (end-of-octets is in its skip list). -/
theorem any_captures_complete_encoding (cfg : DecCfg) (t : TLV) (tail : Bytes)
    (hw : t.WF) (ho : t.okFor cfg.parse) (hne : t.anyOk = true) :
    decodeOne cfg .any (t.ser ++ tail) = .ok (.any t.ser, tail) := by
  unfold decodeOne
  rw [parseOne_ser cfg.parse t tail hw ho]
  simp [decTy, hne, Except.map]

/-- an EXPLICITly tagged ANY holds the complete encoding of the element inside the wrapper -/
theorem explicit_any_captures_inner (cfg : DecCfg) (cls : TagClass) (num : Nat) (h : Bytes) (tg : Tag)
    (i : Bool) (inner : TLV) (htag : tg.cls = cls ∧ tg.num = num)
    (hne : inner.anyOk = true) :
    decTy cfg (.tagged true cls num .any) (.cons h tg i [inner]) = .ok (.any inner.ser) := by
  simp [decTy, htag, hne]

/-- second pass: decoding the captured octets with the mapped type is decoding the inner element
    with that type (resolution = composition; nothing of the container leaks into it) -/
theorem resolve_captured (cfg : DecCfg) (ty : Ty) (inner : TLV) (hw : inner.WF) (ho : inner.okFor cfg.parse) :
    decodeOne cfg ty inner.ser = (decTy cfg ty inner).map (·, []) := by
  unfold decodeOne
  have := parseOne_ser cfg.parse inner [] hw ho
  rw [List.append_nil] at this
  rw [this]


/-! ### the whole property: typed inner value in, governing value picks the type, inner value out

`encodeOpen` / `decodeOpen` (Asn1/OpenType.lean) model the open type branch of the SEQUENCE encoder and
the second decoding pass (`decodeOpenTypes`); the container is
`SEQUENCE { id T_id, value [UNTAGGED | [c n] IMPLICIT | [c n] EXPLICIT] ANY DEFINED BY id }`.
Full statement (C18): every container (SEQUENCE and SET, single ANY and SET OF / SEQUENCE OF ANY).
Proved: the SEQUENCE container with a single ANY field in its three taggings, any governing type whose
values compare by equality (INTEGER, OID, …), any inner type of the region (nested, tagged, constructed),
any type map (`map` is the map in force — the caller's override is just another function), both settings of
`decodeOpenTypes`, mapped and unmapped governing values, any bytes following.  SET containers and
SET OF / SEQUENCE OF ANY fields are decided by the oracle on the real code. -/

theorem ber_enc_region (o : EncOpts) : EncRegion Generated.berEnc berProfile (Generated.berEnc.fixedChunk.getD o.maxChunk) :=
  { boolT := by decide, chunk := Or.inr rfl, setOmit := Or.inl rfl }

/-- the conclusion of the open type round trip for one decoder -/
def OpenRoundTrip (dcfg : DecCfg) (idTy : Ty) (a : AnyTag) (map : Val → Option Ty) (g : Val) (ti : Ty) (w : Val)
    (chunk b tail : Bytes) : Prop :=
  -- resolution off: the field holds exactly the complete encoding of the inner value
  decodeOpen dcfg idTy a map false (b ++ tail) = .ok (⟨g, chunk, none⟩, tail) ∧
  -- resolution on, governing value not in the map: likewise
  (map g = none → decodeOpen dcfg idTy a map true (b ++ tail) = .ok (⟨g, chunk, none⟩, tail)) ∧
  -- resolution on, governing value mapped to the inner value's type: the inner value comes back
  (map g = some ti → ∃ w', decodeOpen dcfg idTy a map true (b ++ tail) = .ok (⟨g, chunk, some w'⟩, tail) ∧ VEq ti w w')

/-- **BER, definite and indefinite, any chunk size** -/
theorem open_type_roundtrip_ber_partial (o : EncOpts) (hi : o.ifNotEmpty = false)
    (idTy : Ty) (g : Val) (hreg : idTy.reg true Generated.berEnc o.defMode = true) (hwf : idTy.WF = true)
    (hty : HasType idTy g = true) (hid : ∀ g', VEq idTy g g' → g' = g)
    (a : AnyTag) (ha : a.ok = true)
    (ti : Ty) (w : Val) (hregi : ti.reg true Generated.berEnc o.defMode = true) (hwfi : ti.WF = true)
    (htyi : HasType ti w = true)
    (map : Val → Option Ty) (b tail : Bytes) (h : encodeOpen Generated.berEnc o idTy a g ti w = .ok b) :
    ∃ chunk, encItem Generated.berEnc o ti w = .ok chunk ∧
      OpenRoundTrip Generated.berDecByType idTy a map g ti w chunk b tail :=
  open_roundtrip Generated.berEnc Generated.berDecByType berProfile o hi (ber_enc_region o) C09.ber_compat (Or.inr rfl)
    idTy g hreg hwf hty (noE3_false idTy g) hid a ha ti w hregi hwfi htyi (noE3_false ti w) map b tail h

/-- **DER, read by the DER, CER and BER decoders** (values outside finding E3) -/
theorem open_type_roundtrip_der_partial (o : EncOpts) (hi : o.ifNotEmpty = false)
    (idTy : Ty) (g : Val) (hreg : idTy.reg true Generated.derEnc true = true) (hwf : idTy.WF = true)
    (hty : HasType idTy g = true) (hn : noE3 true idTy g = true) (hid : ∀ g', VEq idTy g g' → g' = g)
    (a : AnyTag) (ha : a.ok = true)
    (ti : Ty) (w : Val) (hregi : ti.reg true Generated.derEnc true = true) (hwfi : ti.WF = true)
    (htyi : HasType ti w = true) (hni : noE3 true ti w = true)
    (map : Val → Option Ty) (b tail : Bytes) (h : encodeOpen Generated.derEnc o idTy a g ti w = .ok b) :
    ∃ chunk, encItem Generated.derEnc o ti w = .ok chunk ∧
      OpenRoundTrip Generated.derDecByType idTy a map g ti w chunk b tail ∧
      OpenRoundTrip Generated.cerDecByType idTy a map g ti w chunk b tail ∧
      OpenRoundTrip Generated.berDecByType idTy a map g ti w chunk b tail := by
  obtain ⟨c1, he1, r1⟩ := open_roundtrip Generated.derEnc Generated.derDecByType derProfile o hi (C02.der_region o)
    C02.der_profile_all_decoders.1 (Or.inl rfl) idTy g hreg hwf hty hn hid a ha ti w hregi hwfi htyi hni map b tail h
  obtain ⟨c2, he2, r2⟩ := open_roundtrip Generated.derEnc Generated.cerDecByType derProfile o hi (C02.der_region o)
    C02.der_profile_all_decoders.2.1 (Or.inl rfl) idTy g hreg hwf hty hn hid a ha ti w hregi hwfi htyi hni map b tail h
  obtain ⟨c3, he3, r3⟩ := open_roundtrip Generated.derEnc Generated.berDecByType derProfile o hi (C02.der_region o)
    C02.der_profile_all_decoders.2.2 (Or.inl rfl) idTy g hreg hwf hty hn hid a ha ti w hregi hwfi htyi hni map b tail h
  rw [he1] at he2 he3
  cases he2; cases he3
  exact ⟨c1, he1, r1, r2, r3⟩

/-- **CER, read by the CER and BER decoders** (values outside findings E1 and E3) -/
theorem open_type_roundtrip_cer_partial (o : EncOpts) (hi : o.ifNotEmpty = false)
    (idTy : Ty) (g : Val) (hreg : idTy.reg true Generated.cerEnc false = true) (hwf : idTy.WF = true)
    (hty : HasType idTy g = true) (hn : noE3 true idTy g = true) (hid : ∀ g', VEq idTy g g' → g' = g)
    (a : AnyTag) (ha : a.ok = true)
    (ti : Ty) (w : Val) (hregi : ti.reg true Generated.cerEnc false = true) (hwfi : ti.WF = true)
    (htyi : HasType ti w = true) (hni : noE3 true ti w = true)
    (map : Val → Option Ty) (b tail : Bytes) (h : encodeOpen Generated.cerEnc o idTy a g ti w = .ok b) :
    ∃ chunk, encItem Generated.cerEnc o ti w = .ok chunk ∧
      OpenRoundTrip Generated.cerDecByType idTy a map g ti w chunk b tail ∧
      OpenRoundTrip Generated.berDecByType idTy a map g ti w chunk b tail := by
  obtain ⟨c1, he1, r1⟩ := open_roundtrip Generated.cerEnc Generated.cerDecByType cerProfile o hi (C02.cer_region o)
    C02.cer_profile_cer_ber.1 (Or.inr rfl) idTy g hreg hwf hty hn hid a ha ti w hregi hwfi htyi hni map b tail h
  obtain ⟨c2, he2, r2⟩ := open_roundtrip Generated.cerEnc Generated.berDecByType cerProfile o hi (C02.cer_region o)
    C02.cer_profile_cer_ber.2 (Or.inr rfl) idTy g hreg hwf hty hn hid a ha ti w hregi hwfi htyi hni map b tail h
  rw [he1] at he2
  cases he2
  exact ⟨c1, he1, r1, r2⟩

/-- governing values of type INTEGER / OBJECT IDENTIFIER compare by equality -/
theorem governing_integer (g g' : Val) (h : VEq (.prim .integer) g g') : g' = g := by
  cases g <;> cases g' <;> simp_all [VEq]
theorem governing_oid (g g' : Val) (h : VEq (.prim .oid) g g') : g' = g := by
  cases g <;> cases g' <;> simp_all [VEq]

/-- the hypotheses are met: `SEQUENCE { id OID, value [2] EXPLICIT ANY DEFINED BY id }` holding a record with an
    OPTIONAL absent and a SEQUENCE OF member as inner value; the octets are those of the library -/
example :
    let ti : Ty := .seq (.cons .req (.prim .integer) (.cons .opt (.prim .boolean) (.cons .req (.seqOf (.prim (.str 4))) .nil)))
    let w : Val := .seq [.int 5, .absent, .seqOf [.str [0x61]]]
    (Ty.prim .oid).reg true Generated.derEnc true = true ∧ HasType (.prim .oid) (.oid [2, 999, 3]) = true ∧
    (AnyTag.explicit .context 2).ok = true ∧ ti.reg true Generated.derEnc true = true ∧ ti.WF = true ∧
    HasType ti w = true ∧ noE3 true ti w = true ∧
    (encodeOpen Generated.derEnc {} (.prim .oid) (.explicit .context 2) (.oid [2, 999, 3]) ti w).toOption
      = some [0x30, 0x11, 0x06, 0x03, 0x88, 0x37, 0x03, 0xa2, 0x0a, 0x30, 0x08, 0x02, 0x01, 0x05, 0x30, 0x03, 0x04, 0x01, 0x61] := by
  decide +kernel

/-! ### at the source level: what an ANY field holds -/

/-- **an untagged ANY field holds exactly the complete encoding of what it stands for, at the source level**: the translated
    `AnyPayloadDecoder.valueDecoder` (the reads being reads of the complete input), entered as the item decoder enters it -
    the mark on the element's first octet, the stream behind its header `hdr`, the declared length that of its contents -
    answers `hdr ++ content`: not an octet of what precedes the element (`pre`) nor of what follows it (`rest`), and leaves
    the stream right behind the element. For every `pre`, `hdr`, `content`, `rest`. -/
theorem source_untagged_any_holds_whole_encoding (pre hdr content rest : Bytes) :
    GenK.anyCapture ((pre.length : Nat) : Int) (Kernels.bytesInts (pre ++ (hdr ++ content) ++ rest))
        (((pre.length + hdr.length : Nat)) : Int) true ((content.length : Nat) : Int) =
      .ok (Kernels.bytesInts (hdr ++ content), ((pre.length + hdr.length + content.length : Nat) : Int)) :=
  Kernels.anyCapture_untagged pre hdr content rest

/-- a tagged ANY field (the header was its own tag): the contents only, the same end position -/
theorem source_tagged_any_holds_contents (pre hdr content rest : Bytes) (mark : Int) :
    GenK.anyCapture mark (Kernels.bytesInts ((pre ++ hdr) ++ content ++ rest))
        (((pre.length + hdr.length : Nat)) : Int) false ((content.length : Nat) : Int) =
      .ok (Kernels.bytesInts content, ((pre.length + hdr.length + content.length : Nat) : Int)) :=
  Kernels.anyCapture_tagged pre hdr content rest mark

/-- non-vacuity: in `30 06 02 01 05 04 01 61` the second member `04 01 61` under an untagged ANY: mark 5, stream at 7 -/
example : GenK.anyCapture 5 [0x30, 0x06, 0x02, 0x01, 0x05, 0x04, 0x01, 0x61] 7 true 1 = .ok ([0x04, 0x01, 0x61], 8) := by rfl
example : GenK.anyCapture 5 [0x30, 0x06, 0x02, 0x01, 0x05, 0x84, 0x01, 0x61] 7 false 1 = .ok ([0x61], 8) := by rfl
example : GenK.anyCapture 5 [0x30, 0x06, 0x02, 0x01, 0x05, 0x04, 0x03, 0x61] 7 true 3 = .error (.lib "SubstrateUnderrunError") := by rfl

end Asn1.C18
