/-
  Props.C18 — open types (ANY DEFINED BY): what an ANY field captures, and what decoding the
  captured octets with the mapped type gives.
-/
import Asn1.Generated
import Proofs.Parse

namespace Asn1.C18

/-- **an untagged ANY holds exactly the complete encoding of the element it stands for** — any
    well-formed element (scalar or constructed, definite or indefinite, any length form), with any
    bytes following.  `anyOk`: neither the element nor anything reached through indefinite-length
    levels carries the tag `[UNIVERSAL 0]`, which ANY refuses (end-of-octets is in its skip list). -/
theorem any_captures_complete_encoding (cfg : DecCfg) (t : TLV) (tail : Bytes)
    (hw : t.WF) (ho : t.okFor cfg.parse) (hne : t.anyOk = true) :
    decodeOne cfg .any (t.ser ++ tail) = .ok (.any t.ser, tail) := by
  unfold decodeOne
  rw [parseOne_ser cfg.parse t tail hw ho]
  simp [decTy, hne, Except.map]

/-- an EXPLICITly tagged ANY holds the complete encoding of the element inside the wrapper -/
theorem explicit_any_captures_inner (cfg : DecCfg) (cls : TagClass) (num : Nat) (h : Bytes) (tg : Tag)
    (i : Bool) (inner : TLV) (htag : tg.cls = cls ∧ tg.num = num)
    (hne : inner.anyOk = true) :
    decTy cfg (.tagged true cls num .any) (.cons h tg i [inner]) = .ok (.any inner.ser) := by
  simp [decTy, htag, hne]

/-- second pass: decoding the captured octets with the mapped type is decoding the inner element
    with that type (resolution = composition; nothing of the container leaks into it) -/
theorem resolve_captured (cfg : DecCfg) (ty : Ty) (inner : TLV) (hw : inner.WF) (ho : inner.okFor cfg.parse) :
    decodeOne cfg ty inner.ser = (decTy cfg ty inner).map (·, []) := by
  unfold decodeOne
  have := parseOne_ser cfg.parse inner [] hw ho
  rw [List.append_nil] at this
  rw [this]

end Asn1.C18
