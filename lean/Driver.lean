/-
  Driver — one request per input line, one answer per output line (DESIGN §2.1 b).
  Compiled as a `lean_exe`; imports only the Mathlib-free model.
-/
import Asn1
import Asn1.KernelDriver

open Asn1

def errStr : Err → String
  | .underrun => "underrun" | .malformed => "malformed" | .refused => "refused" | .fuel => "fuel"

def encCfgOf : String → Option EncCfg
  | "ber" => some Generated.berEnc | "cer" => some Generated.cerEnc | "der" => some Generated.derEnc
  | _ => none

def decCfgOf : String → Option DecCfg
  | "ber" => some Generated.berDecByType | "cer" => some Generated.cerDecByType
  | "der" => some Generated.derDecByType | _ => none

def anyTagOf : Sexp → Option AnyTag
  | .list [.atom "none"] => some .none
  | .list [.atom "i", .atom c, .atom n] => do some (.implicit (← clsOf c) (← n.toNat?))
  | .list [.atom "e", .atom c, .atom n] => do some (.explicit (← clsOf c) (← n.toNat?))
  | _ => none

def tagStr (t : Tag) : String := s!"{clsStr t.cls}{if t.constructed then "c" else "p"}{t.num}"

def handle : List Sexp → Option String
  | [.atom "PING"] => some "pong"
  | [.atom "ENC", .atom codec, .atom dm, .atom chunk, t, v] => do
      let cfg ← encCfgOf codec
      let t ← tyOf t
      let v ← valOf v
      let o : EncOpts := { defMode := dm = "1", maxChunk := (← chunk.toNat?) }
      match encItem cfg o t v with
      | .ok b => some s!"ok {hexOut b}"
      | .error e => some s!"err {errStr e}"
  | [.atom "DEC", .atom codec, t, .atom hex] => do
      let cfg ← decCfgOf codec
      let t ← tyOf t
      let b ← hexArg hex
      match decodeOne cfg t b with
      | .ok (v, rest) => some s!"ok {valStr v} {hexOut rest}"
      | .error e => some s!"err {errStr e}"
  | [.atom "OPENENC", .atom codec, .atom dm, .atom chunk, idTy, atag, g, ti, w] => do
      let cfg ← encCfgOf codec
      let o : EncOpts := { defMode := dm = "1", maxChunk := (← chunk.toNat?) }
      match encodeOpen cfg o (← tyOf idTy) (← anyTagOf atag) (← valOf g) (← tyOf ti) (← valOf w) with
      | .ok b => some s!"ok {hexOut b}"
      | .error e => some s!"err {errStr e}"
  | [.atom "OPENDEC", .atom codec, idTy, atag, .atom resolve, .atom hex, ti] => do
      let cfg ← decCfgOf codec
      let b ← hexArg hex
      let map : Val → Option Ty := match ti with
        | .atom "-" => fun _ => none
        | t => fun _ => tyOf t
      match decodeOpen cfg (← tyOf idTy) (← anyTagOf atag) map (resolve = "1") b with
      | .ok (r, rest) =>
        some s!"ok {valStr r.id} {hexOut r.raw} {match r.inner with | some w => valStr w | none => "-"} {hexOut rest}"
      | .error e => some s!"err {errStr e}"
  | [.atom "X690DER", t, v] => do
      let t ← tyOf t
      let v ← valOf v
      match X690.der t v with
      | some b => some s!"ok {hexOut b}"
      | none => some "err refused"
  | .atom "VARIANT" :: t :: v :: script => do
      let t ← tyOf t
      let v ← valOf v
      let sc ← script.mapM fun (x : Sexp) => match x with | .atom a => a.toNat? | _ => none
      match X690.berVariant t v sc with
      | some b => some s!"ok {hexOut b}"
      | none => some "err refused"
  | [.atom "DECU", .atom codec, .atom hex] => do
      let cfg ← (match codec with
        | "ber" => some Generated.berDecByTag | "cer" => some Generated.cerDecByTag
        | "der" => some Generated.derDecByTag | _ => none)
      let b ← hexArg hex
      match decodeSchemaless cfg b with
      | .ok (u, rest) =>
        let kind := match u with
          | .leaf _ _ => "leaf" | .record _ _ => "record" | .listOf _ _ => "listof" | .tagged _ _ => "tagged"
        some ("ok " ++ kind ++ " " ++ hexOut rest ++
          String.join (u.leaves.map fun (n, v) => s!" ({n} {valStr v})"))
      | .error e => some s!"err {errStr e}"
  | [.atom "WF", t] => do
      let t ← tyOf t
      some (if t.WF then "ok 1" else "ok 0")
  | [.atom "HASTYPE", t, v] => do
      let t ← tyOf t
      let v ← valOf v
      some (if HasType t v then "ok 1" else "ok 0")
  | [.atom "TAGS", t] => do
      let t ← tyOf t
      some ("ok" ++ String.join (t.tags.map fun x => " " ++ tagStr x))
  | [.atom "TAGENC", .atom c, .atom f, .atom n, .atom ic] => do
      let t : Tag := ⟨← clsOf c, f = "c", ← n.toNat?⟩
      some s!"ok {hexOut (encodeTag t (ic = "1"))}"
  | [.atom "TAGDEC", .atom hex] => do
      let b ← hexArg hex
      match decodeTag b with
      | .ok (t, rest) => some s!"ok {tagStr t} {hexOut rest}"
      | .error e => some s!"err {errStr e}"
  | [.atom "LENENC", .atom n] => do
      match encodeLength (← n.toNat?) with
      | some b => some s!"ok {hexOut b}"
      | none => some "err refused"
  | [.atom "LENDEC", .atom hex] => do
      let b ← hexArg hex
      match decodeLength b with
      | .ok (.definite n, rest) => some s!"ok {n} {hexOut rest}"
      | .ok (.indefinite, rest) => some s!"ok indef {hexOut rest}"
      | .error e => some s!"err {errStr e}"
  | _ => none

/-- every model module contributes a handler; the first one that recognises the request answers -/
def handlers : List (List Sexp → Option String) :=
  [handle, Asn1.Time.handle, Asn1.Stream.handle, Asn1.Constraint.handle, Asn1.Container.handle, Asn1.Native.handle,
   Asn1.KernelDriver.handle]

def dispatch (sx : List Sexp) : Option String :=
  handlers.findSome? (fun h => h sx)

partial def loop (h : IO.FS.Stream) (out : IO.FS.Stream) : IO Unit := do
  let line ← h.getLine
  if line.isEmpty then return ()
  let ans := match parseLine (tokenize line) with
    | some sx => (dispatch sx).getD "bad-op"
    | none => "bad-syntax"
  out.putStrLn ans
  out.flush
  loop h out

def main : IO Unit := do loop (← IO.getStdin) (← IO.getStdout)
