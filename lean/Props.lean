import Props.C13
import Props.C01
