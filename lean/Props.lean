import Props.C13
import Props.C01
import Props.C06
import Props.C07
import Props.C02
import Props.C20
import Props.C03
import Props.C09
