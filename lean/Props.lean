import Props.C13
import Props.C01
import Props.C06
import Props.C07
