import Props.C13
