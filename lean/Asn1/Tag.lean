/-
  Asn1.Tag — tags, tag sets and identifier octets.
  Mirrors pyasn1/type/tag.py (Tag, TagSet.tagImplicitly / tagExplicitly, equality on (class, id))
  and ber/encoder.py `encodeTag`, ber/decoder.py `stDecodeTag`.
-/
import Asn1.Basic

namespace Asn1

inductive TagClass
  | universal | application | context | priv
deriving DecidableEq, Repr, Inhabited

def TagClass.bits : TagClass → Nat
  | .universal => 0x00
  | .application => 0x40
  | .context => 0x80
  | .priv => 0xC0

def TagClass.ofBits (n : Nat) : TagClass :=
  if n / 64 % 4 = 0 then .universal
  else if n / 64 % 4 = 1 then .application
  else if n / 64 % 4 = 2 then .context
  else .priv

/-- pyasn1 `Tag(tagClass, tagFormat, tagId)`; `constructed` is the format bit. -/
structure Tag where
  cls : TagClass
  constructed : Bool
  num : Nat
deriving DecidableEq, Repr, Inhabited

/-- pyasn1 compares tags on `(tagClass, tagId)` only. -/
def Tag.same (a b : Tag) : Bool := a.cls == b.cls && a.num == b.num

/-- A tag set as pyasn1 stores it: `superTags`, innermost (base) first, outermost last.
    (`baseTag` is only used to pick a codec and is carried by the type, not here.) -/
abbrev TagSet := List Tag

def TagSet.same : TagSet → TagSet → Bool
  | [], [] => true
  | a :: as, b :: bs => a.same b && TagSet.same as bs
  | _, _ => false

/-- `TagSet.tagExplicitly`: refuses UNIVERSAL, forces the constructed format, appends. -/
def TagSet.tagExplicitly (ts : TagSet) (cls : TagClass) (num : Nat) : Option TagSet :=
  if cls = .universal then none else some (ts ++ [⟨cls, true, num⟩])

/-- `TagSet.tagImplicitly`: replaces the last tag, keeping its format; on an empty tag set
    the new tag keeps the format the caller gave (`fmt`). -/
def TagSet.tagImplicitly (ts : TagSet) (cls : TagClass) (fmt : Bool) (num : Nat) : TagSet :=
  match ts.getLast? with
  | some last => ts.dropLast ++ [⟨cls, last.constructed, num⟩]
  | none => [⟨cls, fmt, num⟩]

/-! ### identifier octets -/

/-- `AbstractItemEncoder.encodeTag(singleTag, isConstructed)` -/
def encodeTag (t : Tag) (isConstructed : Bool) : Bytes :=
  let first := t.cls.bits + (if t.constructed || isConstructed then 0x20 else 0)
  if t.num < 31 then [UInt8.ofNat (first + t.num)]
  else
    let ds := be128 t.num
    UInt8.ofNat (first + 0x1F) ::
      (natsToBytes (ds.dropLast.map (· + 0x80)) ++ natsToBytes [ds.getLastD 0])

/-- long-form tag number: octets until one without the top bit (`stDecodeTag` inner loop). -/
def decodeTagNum : Nat → Bytes → Res (Nat × Bytes)
  | _, [] => .error .underrun
  | acc, b :: rest =>
    let acc' := acc * 128 + b.toNat % 128
    if b.toNat < 128 then .ok (acc', rest) else decodeTagNum acc' rest

/-- `stDecodeTag`: one identifier; returns the tag (with its wire format bit). -/
def decodeTag : Bytes → Res (Tag × Bytes)
  | [] => .error .underrun
  | b :: rest =>
    let n := b.toNat
    let cls := TagClass.ofBits n
    let cons := n / 32 % 2 = 1
    if n % 32 = 31 then
      match decodeTagNum 0 rest with
      | .ok (num, rest') => .ok (⟨cls, cons, num⟩, rest')
      | .error e => .error e
    else .ok (⟨cls, cons, n % 32⟩, rest)

/-! ### length octets -/

inductive Len
  | definite (n : Nat)
  | indefinite
deriving DecidableEq, Repr, Inhabited

/-- `AbstractItemEncoder.encodeLength(length, defMode=True)`; `none` = "Length octets overflow". -/
def encodeLength (n : Nat) : Option Bytes :=
  if n < 0x80 then some [UInt8.ofNat n]
  else
    let ds := be256 n
    if ds.length > 126 then none
    else some (UInt8.ofNat (0x80 + ds.length) :: natsToBytes ds)

/-- `stDecodeLength` -/
def decodeLength : Bytes → Res (Len × Bytes)
  | [] => .error .underrun
  | b :: rest =>
    let n := b.toNat
    if n < 128 then .ok (.definite n, rest)
    else if n = 128 then .ok (.indefinite, rest)
    else
      let size := n % 128
      if size ≤ rest.length then .ok (.definite (bytesToNat (rest.take size)), rest.drop size)
      else .error .underrun

end Asn1
