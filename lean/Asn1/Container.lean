/-
  Asn1.Container — executable model of the mutable container objects of pyasn1/type/univ.py
  (as the code is AFTER the C19 `fix:` commits in /repo), and of the plain prototypes they refine.

  Mirrors, method by method:
    SequenceOfAndSetOfBase   -> `SeqOfSt`, `SeqOf.step`   (__getitem__/__setitem__ incl. slices, append, extend,
                                count, index, reverse, sort, __len__, __iter__, _cloneComponentValues,
                                get/setComponentByPosition, clear, reset, prettyPrint, isValue, components)
    SequenceAndSetBase       -> `RecSt`, `Rec.step`       (__getitem__/__setitem__ by name and position, __contains__,
                                __len__, __iter__/keys, values, items, clear, reset, _cloneComponentValues,
                                get/setComponentByName/Position, Set.get/setComponentByType, DynamicNames,
                                prettyPrint, isValue)
    Choice                   -> `ChoiceSt`, `Choice.step` (__len__, __contains__, __iter__/keys, values, items,
                                _cloneComponentValues, get/setComponentByPosition, getComponent, getName,
                                isValue, clear, reset, __eq__)
    base.NoValue             -> `noValueRaises` (which operations on a schema scalar raise)
    base.ConstructedAsn1Type -> clone(cloneValueFlag), __eq__ through `components`
    codec/ber|cer|der/encoder.py value-object personality of SequenceOfEncoder / SequenceEncoder /
    SetEncoder / ChoiceEncoder reading the OBJECT -> `encodeObj`

  The element universe is kept small on purpose (the property is about the containers): every
  component is an INTEGER.  A slot holds `hole` (the `noValue` sentinel or nothing), `ph` (a schema
  placeholder object `Integer()` created by a read or by `setComponentByPosition(idx)`), or `val z`.
  Python dicts are association lists in insertion order.  Exceptions are explicit `Out` results:
  `lookupErr` = IndexError/KeyError, `libErr` = PyAsn1Error, `valueErr` = ValueError.
  No Mathlib: linked into the driver.
-/
import Asn1.Encoder
import Asn1.Generated
import Asn1.Sexp

namespace Asn1.Container

/-! ## slots, arguments, results -/

inductive Comp
  | hole            -- noValue / no entry
  | ph              -- schema placeholder object (isValue = False)
  | val (z : Int)   -- Integer(z)
deriving DecidableEq, Repr, Inhabited

def Comp.get? : Comp → Option Int
  | .val z => some z
  | _ => none

def Comp.isVal : Comp → Bool
  | .val _ => true
  | _ => false

def Comp.isHole : Comp → Bool
  | .hole => true
  | _ => false

/-- what a setter is given -/
inductive Arg
  | py (z : Int)    -- a bare Python int
  | obj (z : Int)   -- univ.Integer(z)
  | bad             -- a Python value no INTEGER can take ('x')
deriving DecidableEq, Repr, Inhabited

/-- how a call ends -/
inductive Out
  | unit
  | nat (n : Nat)
  | bool (b : Bool)
  | comp (c : Comp)                    -- a component (hole = `noValue` / the default was returned)
  | comps (cs : List Comp)             -- list(s), values(), a slice
  | names (ns : List Nat)              -- keys: field positions standing for their names
  | items (kvs : List (Nat × Comp))
  | bytes (b : Bytes)
  | lookupErr                          -- IndexError / KeyError
  | libErr                             -- PyAsn1Error
  | valueErr                           -- ValueError (list.index)
deriving DecidableEq, Repr, Inhabited

def Out.isErr : Out → Bool
  | .lookupErr | .libErr | .valueErr => true
  | _ => false

/-- `__getitem__`/`__setitem__` turn PyAsn1Error into IndexError/KeyError -/
def Out.asLookup : Out → Out
  | .libErr => .lookupErr
  | o => o

/-! ## Python list indexing helpers -/

/-- `range(n)[i]` for a possibly negative `i` -/
def pyIdx (n : Nat) (i : Int) : Option Nat :=
  if 0 ≤ i then (if i.toNat < n then some i.toNat else none)
  else if -i ≤ (n : Int) then some (n - (-i).toNat) else none

/-- slice bound clamping of `seq[a:b]` (step 1) -/
def clampIdx (n : Nat) (dflt : Nat) : Option Int → Nat
  | none => dflt
  | some i => if i < 0 then ((n : Int) + i).toNat else min i.toNat n

/-- `tuple(range(n))[a:b]` -/
def sliceRange (n : Nat) (a b : Option Int) : List Nat :=
  let s := clampIdx n 0 a
  let e := clampIdx n n b
  List.range' s (e - s)

def setNth {α} : List α → Nat → α → List α
  | [], _, _ => []
  | _ :: xs, 0, a => a :: xs
  | x :: xs, n + 1, a => x :: setNth xs n a

/-! ## dict as association list (insertion order) -/

abbrev Dict := List (Nat × Comp)

def dget (d : Dict) (i : Nat) : Option Comp := d.lookup i

/-- `d[i] = c`: replaces in place when the key exists, otherwise appends -/
def dset : Dict → Nat → Comp → Dict
  | [], i, c => [(i, c)]
  | (k, v) :: rest, i, c => if k = i then (k, c) :: rest else (k, v) :: dset rest i c

/-- `max(d) + 1`, 0 when empty -/
def dlen (d : Dict) : Nat := d.foldl (fun m kv => max m (kv.1 + 1)) 0

/-- `[d[k] for k in sorted(d)]` -/
def dcomponents (d : Dict) : List Comp := (d.mergeSort (fun a b => a.1 ≤ b.1)).map (·.2)

def enumFrom {α} (n : Nat) : List α → List (Nat × α)
  | [] => []
  | x :: xs => (n, x) :: enumFrom (n + 1) xs

/-! ## SEQUENCE OF / SET OF -/

structure SeqOfSt where
  comps : Option Dict        -- `_componentValues`: none = noValue
deriving DecidableEq, Repr, Inhabited

inductive SeqOfOp
  -- mutators
  | setItem (i : Int) (a : Arg)               -- s[i] = a
  | setPos (i : Int) (a : Arg)                -- s.setComponentByPosition(i, a)
  | setNone (i : Int)                         -- s.setComponentByPosition(i)
  | append (a : Arg)
  | extend (as : List Arg)
  | setSlice (a b : Option Int) (as : List Arg)   -- s[a:b] = as
  | sort
  | reverse
  | clear
  | reset
  | clone (flag : Bool)                       -- s = s.clone(cloneValueFlag=flag)
  -- accessors
  | len
  | iter                                      -- list(s)
  | contains (z : Int)                        -- z in s
  | getItem (i : Int)                         -- s[i]
  | getPos (i : Int) (inst : Bool)            -- s.getComponentByPosition(i, instantiate=inst)
  | getSlice (a b : Option Int)               -- s[a:b]
  | count (z : Int)
  | index (z : Int)
  | pretty                                    -- s.prettyPrint(): the values shown
  | eqTo (vs : List Int)                      -- s == <fresh value object holding vs>
  | encode                                    -- der.encode(s) (result computed by `encodeObj`)
deriving DecidableEq, Repr, Inhabited

namespace SeqOf

def len (st : SeqOfSt) : Nat :=
  match st.comps with
  | none => 0
  | some d => dlen d

/-- `if idx < 0: idx = len(self) + idx; if idx < 0: raise` -/
def normIdx (st : SeqOfSt) (i : Int) : Option Nat :=
  if 0 ≤ i then some i.toNat
  else if 0 ≤ (len st : Int) + i then some ((len st : Int) + i).toNat else none

/-- the value stored by `setComponentByPosition(idx, value)`, or `none` when it raises -/
def coerce (typed : Bool) (cur : Comp) : Option Arg → Option Comp
  | none => if typed then some .ph else if cur.isHole then none else some .hole
  | some (.py z) => if typed then some (.val z) else if cur.isHole then none else some (.val z)
  | some (.obj z) => some (.val z)
  | some .bad => none

/-- `setComponentByPosition(idx, value)` for an integer index; `none` = PyAsn1Error, nothing changed -/
def setAt (typed : Bool) (st : SeqOfSt) (i : Int) (a : Option Arg) : Option SeqOfSt :=
  match normIdx st i with
  | none => none
  | some idx =>
    let d := st.comps.getD []
    let cur := (dget d idx).getD .hole
    match coerce typed cur a with
    | none => none
    | some c => some ⟨some (dset d idx c)⟩

/-- sequential assignment starting at `start` (slice assignment, extend); stops at the first failure
    and KEEPS what was assigned before it -/
def setMany (typed : Bool) : SeqOfSt → Nat → List Arg → SeqOfSt × Bool
  | st, _, [] => (st, true)
  | st, k, a :: as =>
    match setAt typed st (k : Int) (some a) with
    | none => (st, false)
    | some st' => setMany typed st' (k + 1) as

/-- `append`: `self[len(dict)] = value` (the NUMBER OF ENTRIES, not len(self)) -/
def appendPos (st : SeqOfSt) : Nat :=
  match st.comps with
  | none => 0
  | some d => d.length

def appendMany (typed : Bool) : SeqOfSt → List Arg → SeqOfSt × Bool
  | st, [] => (st, true)
  | st, a :: as =>
    match setAt typed st (appendPos st : Int) (some a) with
    | none => (st, false)
    | some st' => appendMany typed st' as

/-- `getComponentByPosition(idx, instantiate=inst)` with `default=noValue` -/
def getAt (typed : Bool) (st : SeqOfSt) (i : Int) (inst : Bool) : SeqOfSt × Out :=
  match normIdx st i with
  | none => (st, .libErr)
  | some idx =>
    match st.comps.bind (fun d => dget d idx) with
    | some c => (st, .comp c)
    | none =>
      if !inst then (st, .comp .hole)
      else match setAt typed st (idx : Int) none with
        | none => (st, .libErr)
        | some st' => (st', .comp ((st'.comps.bind (fun d => dget d idx)).getD .hole))

/-- reading the positions `idxs` one after the other (iteration, slices); stops at the first failure -/
def getMany (typed : Bool) : SeqOfSt → List Nat → SeqOfSt × Option (List Comp)
  | st, [] => (st, some [])
  | st, k :: ks =>
    match getAt typed st (k : Int) true with
    | (st', .comp c) =>
      (match getMany typed st' ks with
       | (st'', some cs) => (st'', some (c :: cs))
       | (st'', none) => (st'', none))
    | (st', _) => (st', none)

/-- `z in s`: the iteration protocol with `==` on each item, stopping at the first match -/
def containsFrom (typed : Bool) (z : Int) : SeqOfSt → List Nat → SeqOfSt × Out
  | st, [] => (st, .bool false)
  | st, k :: ks =>
    match getAt typed st (k : Int) true with
    | (st', .comp (.val y)) => if y = z then (st', .bool true) else containsFrom typed z st' ks
    | (st', _) => (st', .libErr)

/-- the encoder's walk over the object (`enumerate(value)`): lazy, it stops at the first component it
    cannot encode -/
def encIter (typed : Bool) : SeqOfSt → List Nat → SeqOfSt
  | st, [] => st
  | st, k :: ks =>
    match getAt typed st (k : Int) true with
    | (st', .comp (.val _)) => encIter typed st' ks
    | (st', _) => st'

/-- `list.count` / `list.index` / `==` compare with `==`; a placeholder or noValue raises -/
def allVals : List Comp → Option (List Int)
  | [] => some []
  | .val z :: cs => (allVals cs).map (z :: ·)
  | _ :: _ => none

/-- `values.index(z)`: position of the first equal item; a non-value met before it raises -/
def indexIn (z : Int) : List Comp → Nat → Option Nat
  | [], _ => none
  | .val y :: cs, k => if y = z then some k else indexIn z cs (k + 1)
  | _ :: _, _ => none

/-- `other.components == self.components` item by item (`other` holds values only) -/
def eqItems : List Int → List Comp → Out
  | [], [] => .bool true
  | v :: vs, .val z :: cs => if v = z then eqItems vs cs else .bool false
  | _ :: _, _ :: _ => .libErr
  | _, _ => .bool false

def isValue (st : SeqOfSt) : Bool :=
  match st.comps with
  | none => false
  | some d => d.length == dlen d && d.all (fun kv => kv.2.isVal)

def sortInts (l : List Int) : List Int := l.mergeSort (fun a b => a ≤ b)

def step (typed : Bool) (st : SeqOfSt) : SeqOfOp → SeqOfSt × Out
  | .setItem i a =>
    (match setAt typed st i (some a) with
     | some st' => (st', .unit)
     | none => (st, .lookupErr))
  | .setPos i a =>
    (match setAt typed st i (some a) with
     | some st' => (st', .unit)
     | none => (st, .libErr))
  | .setNone i =>
    (match setAt typed st i none with
     | some st' => (st', .unit)
     | none => (st, .libErr))
  | .append a =>
    (match setAt typed st (appendPos st : Int) (some a) with
     | some st' => (st', .unit)
     | none => (st, .lookupErr))
  | .extend as =>
    (match appendMany typed st as with
     | (st', true) => (⟨some (st'.comps.getD [])⟩, .unit)
     | (st', false) => (st', .lookupErr))
  | .setSlice a b as =>
    let n := len st
    -- `startIdx = indices and indices[idx][0] or 0`
    (match (if n = 0 then some 0 else (sliceRange n a b).head?) with
     | none => (st, .lookupErr)          -- IndexError: tuple index out of range
     | some start =>
       match setMany typed st start as with
       | (st', true) => (st', .unit)
       | (st', false) => (st', .lookupErr))
  | .sort =>
    (match st.comps with
     | none => (st, .libErr)
     | some d =>
       let vals := d.map (·.2)
       if vals.length ≤ 1 then (⟨some (enumFrom 0 vals)⟩, .unit)
       else match allVals vals with
         | some zs => (⟨some (enumFrom 0 ((sortInts zs).map .val))⟩, .unit)
         | none => (st, .libErr))
  | .reverse =>
    (match st.comps with
     | none => (st, .libErr)
     | some d => (⟨some (enumFrom 0 (dcomponents d).reverse)⟩, .unit))
  | .clear => (⟨some []⟩, .unit)
  | .reset => (⟨none⟩, .unit)
  | .clone flag =>
    if !flag then (⟨none⟩, .unit)
    else (match st.comps with
      | none => (⟨none⟩, .unit)
      | some d => (⟨some (d.filter (fun kv => !kv.2.isHole))⟩, .unit))
  | .len => (st, .nat (len st))
  | .iter =>
    (match getMany typed st (List.range (len st)) with
     | (st', some cs) => (st', .comps cs)
     | (st', none) => (st', .libErr))
  | .contains z => containsFrom typed z st (List.range (len st))
  | .getItem i => let r := getAt typed st i true; (r.1, r.2.asLookup)
  | .getPos i inst => getAt typed st i inst
  | .getSlice a b =>
    (match getMany typed st (sliceRange (len st) a b) with
     | (st', some cs) => (st', .comps cs)
     | (st', none) => (st', .lookupErr))
  | .count z =>
    (match st.comps with
     | none => (st, .libErr)
     | some d =>
       match allVals (d.map (·.2)) with
       | some zs => (st, .nat (zs.count z))
       | none => (st, .libErr))
  | .index z =>
    (match st.comps with
     | none => (st, .libErr)
     | some d =>
       match indexIn z (d.map (·.2)) 0 with
       | some k => (st, .nat ((d.map (·.1)).getD k 0))
       | none => (st, .valueErr))
  | .pretty =>
    if isValue st then
      (match getMany typed st (List.range (len st)) with
       | (st', some cs) => (st', .comps cs)
       | (st', none) => (st', .libErr))
    else (st, .comps [])
  | .eqTo vs =>
    (match st.comps with
     | none => (st, .libErr)
     | some d =>
       let cs := dcomponents d
       (st, if vs.length ≠ cs.length then .bool false else eqItems vs cs))
  | .encode =>
    -- the encoder iterates the object (`enumerate(value)`), which may instantiate gaps
    (encIter typed st (List.range (len st)), .unit)

/-- abstract content: the list of element values of a value object -/
def absList (st : SeqOfSt) : Option (List Int) :=
  match st.comps with
  | none => none
  | some d => if d.length == dlen d then allVals (dcomponents d) else none

def abs (st : SeqOfSt) : Option Val := (absList st).map (fun zs => .seqOf (zs.map .int))

def ty (isSet : Bool) : Ty := if isSet then .setOf (.prim .integer) else .seqOf (.prim .integer)

/-- `SequenceOfEncoder` / cer `SetOfEncoder` reading the object: iterates it (a schema object
    iterates as empty), encodes every component with the element codec; a component that is not a
    value makes the encoder raise -/
def encodeObj (cfg : EncCfg) (typed isSet : Bool) (st : SeqOfSt) : Except Err Bytes :=
  let o := normOpts cfg {}
  match (getMany typed st (List.range (len st))).2.bind allVals with
  | none => .error .refused
  | some zs =>
    let o' := { o with ifNotEmpty := false }
    let chunks := allOk (zs.map fun z =>
      finishItem cfg o' (.prim .integer) (encValue cfg o' (.prim .integer) (.int z)))
    finishItem cfg o (ty isSet)
      (chunks.map fun cs =>
        ((if isSet && cfg.sortSetOf then sortSetOfChunks cs else cs).flatten, true))

end SeqOf

/-! ## SEQUENCE / SET with declared or dynamic field names -/

inductive FK
  | req
  | opt
  | dflt (d : Int)
deriving DecidableEq, Repr, Inhabited

def FK.isReq : FK → Bool | .req => true | _ => false

structure RecSt where
  comps : Option (List Comp)   -- `_componentValues`: none = noValue
  dyn : Nat                    -- `_dynamicNames`: the names field-0 .. field-(dyn-1)
deriving DecidableEq, Repr, Inhabited

inductive RecOp
  | setItemPos (i : Int) (a : Arg)        -- r[i] = a
  | setItemName (k : Nat) (a : Arg)       -- r[name_k] = a      (k beyond the names = unknown name)
  | setPos (i : Int) (a : Arg)            -- r.setComponentByPosition(i, a)
  | setName (k : Nat) (a : Arg)           -- r.setComponentByName(name_k, a)
  | setType (k : Nat) (a : Arg)           -- r.setComponentByType(tag_k, a)   (SET)
  | setNone (i : Int)                     -- r.setComponentByPosition(i)
  | clear
  | reset
  | clone (flag : Bool)
  | len
  | keys                                  -- list(r) / list(r.keys())
  | contains (k : Nat)                    -- name_k in r
  | getItemPos (i : Int)                  -- r[i]
  | getItemName (k : Nat)                 -- r[name_k]
  | getPos (i : Int) (inst : Bool)
  | getName (k : Nat) (inst : Bool)
  | getType (k : Nat) (inst : Bool)       -- r.getComponentByType(tag_k, instantiate=inst)  (SET)
  | values                                -- list(r.values())
  | items                                 -- list(r.items())
  | pretty
  | eqTo (cs : List Comp)                 -- r == <fresh object whose slots are cs (holes and values)>
  | encode (eager : Bool)                 -- der.encode(r); eager = the DER/CER SET encoder, which reads
                                          -- every component before it encodes the first
deriving DecidableEq, Repr, Inhabited

namespace Rec

/-- `componentValues[idx]` on a Python list -/
def slot (l : List Comp) (i : Int) : Option Comp := (pyIdx l.length i).bind (fun k => l[k]?)

/-- what `setComponentByPosition(idx)` (no value) stores for a declared field:
    `componentType.getTypeByPosition(idx)` — the type object itself, a value for DEFAULT fields -/
def typeObj : FK → Comp
  | .dflt d => .val d
  | _ => .ph

/-- `SequenceAndSetBase.setComponentByPosition`; `none` = PyAsn1Error, nothing changed -/
def setAt (fields : List FK) (st : RecSt) (i : Int) (a : Option Arg) : Option RecSt :=
  let n := fields.length
  let l0 := st.comps.getD []
  if n ≠ 0 then
    -- declared fields: positions are list indices into the padded list
    match pyIdx n i with
    | none => none                      -- index out of range / Type position out of range
    | some k =>
      let l := if (slot l0 i).isSome then l0 else List.replicate n .hole
      match a, fields[k]? with
      | _, none => none
      | none, some fk => some { st with comps := some (setNth l k (typeObj fk)) }
      | some (.py z), _ => some { st with comps := some (setNth l k (.val z)) }
      | some (.obj z), _ => some { st with comps := some (setNth l k (.val z)) }
      | some .bad, _ => none
  else
    let cur := (slot l0 i).getD .hole
    let v : Option Comp := match a with
      | none => if cur.isHole then none else some .hole
      | some (.py z) => if cur.isHole then none else some (.val z)
      | some (.obj z) => some (.val z)
      | some .bad => none
    match v with
    | none => none
    | some c =>
      if 0 ≤ i ∧ i.toNat < st.dyn then some { st with comps := some (setNth l0 i.toNat c) }
      else if (l0.length : Int) = i then some { comps := some (l0 ++ [c]), dyn := st.dyn + 1 }
      else none

/-- `SequenceAndSetBase.getComponentByPosition` with `default=noValue` -/
def getAt (fields : List FK) (st : RecSt) (i : Int) (inst : Bool) : RecSt × Out :=
  let cur := (st.comps.bind (fun l => slot l i)).getD .hole
  if !inst then (st, .comp (if cur.isVal then cur else .hole))
  else if cur.isHole then
    match setAt fields st i none with
    | none => (st, .libErr)
    | some st' => (st', .comp ((st'.comps.bind (fun l => slot l i)).getD .hole))
  else (st, .comp cur)

def nNames (fields : List FK) (st : RecSt) : Nat := if fields.length ≠ 0 then fields.length else st.dyn

/-- `getPositionByName` -/
def posOfName (fields : List FK) (st : RecSt) (k : Nat) : Option Int :=
  if k < nNames fields st then some (k : Int) else none

/-- `componentType.getPositionByType(tagSet)`: only declared fields have tags -/
def posOfType (fields : List FK) (k : Nat) : Option Int :=
  if k < fields.length then some (k : Int) else none

def getMany (fields : List FK) : RecSt → List Nat → RecSt × Option (List Comp)
  | st, [] => (st, some [])
  | st, k :: ks =>
    match getAt fields st (k : Int) true with
    | (st', .comp c) =>
      (match getMany fields st' ks with
       | (st'', some cs) => (st'', some (c :: cs))
       | (st'', none) => (st'', none))
    | (st', _) => (st', none)

def isValue (fields : List FK) (st : RecSt) : Bool :=
  match st.comps with
  | none => false
  | some l =>
    if fields.length ≠ 0 then
      (List.range fields.length).all fun k =>
        match fields[k]? with
        | some .req => (match l[k]? with | some c => c.isVal | none => false)
        | _ => true
    else l.all (·.isVal)

/-- `other.components == self.components` item by item; `noValue is noValue` short-cuts -/
def eqItems : List Comp → List Comp → Out
  | [], [] => .bool true
  | .hole :: os, .hole :: cs => eqItems os cs
  | .val v :: os, .val z :: cs => if v = z then eqItems os cs else .bool false
  | _ :: _, _ :: _ => .libErr
  | _, _ => .bool false

/-- the components the encoder reads (`SequenceEncoder._getComponents`): absent OPTIONAL/DEFAULT
    ones are not instantiated, absent mandatory ones are -/
def encTouch (fields : List FK) (eager : Bool) : RecSt → List Nat → RecSt
  | st, [] => st
  | st, k :: ks =>
    match fields[k]? with
    | some .req =>
      let cur := (st.comps.bind (fun l => slot l (k : Int))).getD .hole
      -- a mandatory component that is not a value is instantiated, then the encoder raises on it
      if cur.isVal then encTouch fields eager st ks
      else if eager then encTouch fields eager (getAt fields st (k : Int) true).1 ks
      else (getAt fields st (k : Int) true).1
    | _ => encTouch fields eager st ks

/-- a setter call: the position lookup may already fail (unknown name / tag) -/
def setOut (fields : List FK) (st : RecSt) (i : Option Int) (a : Option Arg) (err : Out) : RecSt × Out :=
  match i with
  | none => (st, err)
  | some i => match setAt fields st i a with
    | some st' => (st', .unit)
    | none => (st, err)

def step (fields : List FK) (st : RecSt) : RecOp → RecSt × Out
  | .setItemPos i a => setOut fields st (some i) (some a) .lookupErr
  | .setItemName k a => setOut fields st (posOfName fields st k) (some a) .lookupErr
  | .setPos i a => setOut fields st (some i) (some a) .libErr
  | .setName k a => setOut fields st (posOfName fields st k) (some a) .libErr
  | .setType k a => setOut fields st (posOfType fields k) (some a) .libErr
  | .setNone i => setOut fields st (some i) none .libErr
  | .clear => (⟨some [], 0⟩, .unit)
  | .reset => (⟨none, 0⟩, .unit)
  | .clone flag =>
    -- a fresh object of the type, then (flag) the components that exist are assigned by position
    let fresh : RecSt := ⟨if fields.length ≠ 0 then some [] else none, 0⟩
    if !flag then (fresh, .unit)
    else (match st.comps with
      | none => (⟨none, 0⟩, .unit)
      | some l =>
        if fields.length ≠ 0 then
          (⟨some (if l.all (·.isHole) then [] else l), 0⟩, .unit)
        else
          -- dynamic names: the components that exist are re-assigned by position, which only
          -- works while the positions are contiguous ('Component index out of range' otherwise)
          let pre := l.takeWhile (fun c => !c.isHole)
          if (l.dropWhile (fun c => !c.isHole)).all (·.isHole) then (⟨some pre, pre.length⟩, .unit)
          else (st, .libErr))
  | .len =>
    (match st.comps with
     | none => (st, .libErr)
     | some l => (st, .nat l.length))
  | .keys => (st, .names (List.range (nNames fields st)))
  | .contains k => (st, .bool (k < nNames fields st))
  | .getItemPos i => let r := getAt fields st i true; (r.1, r.2.asLookup)
  | .getItemName k =>
    (match posOfName fields st k with
     | none => (st, .lookupErr)
     | some i => let r := getAt fields st i true; (r.1, r.2.asLookup))
  | .getPos i inst => getAt fields st i inst
  | .getName k inst =>
    (match posOfName fields st k with
     | none => (st, .libErr)
     | some i => getAt fields st i inst)
  | .getType k inst =>
    (match posOfType fields k with
     | none => (st, .libErr)
     | some i => getAt fields st i inst)
  | .values =>
    (match getMany fields st (List.range (nNames fields st)) with
     | (st', some cs) => (st', .comps cs)
     | (st', none) => (st', .lookupErr))
  | .items =>
    (match getMany fields st (List.range (nNames fields st)) with
     | (st', some cs) => (st', .items (enumFrom 0 cs))
     | (st', none) => (st', .lookupErr))
  | .pretty =>
    (match st.comps with
     | none => (st, .libErr)
     | some l => (st, .items ((enumFrom 0 l).filter (fun kv => kv.2.isVal))))
  | .eqTo cs =>
    (match st.comps with
     | none => (st, .libErr)
     | some l => (st, if cs.length ≠ l.length then .bool false else eqItems cs l))
  | .encode eager =>
    if fields.length ≠ 0 then (encTouch fields eager st (List.range fields.length), .unit)
    else (match getMany fields st (List.range st.dyn) with | (st', _) => (st', .unit))

/-- abstract content of one declared slot -/
def absField : FK → Comp → Option Val
  | .req, .val z => some (.int z)
  | .req, _ => none
  | .opt, .val z => some (.int z)
  | .opt, _ => some .absent
  | .dflt _, .val z => some (.int z)
  | .dflt d, .hole => some (.int d)
  | .dflt _, .ph => none

def absFields : List FK → List Comp → Option (List Val)
  | [], _ => some []
  | fk :: fks, cs =>
    match absField fk (cs.headD .hole), absFields fks cs.tail with
    | some v, some vs => some (v :: vs)
    | _, _ => none

def absDyn : List Comp → Option (List Val)
  | [] => some []
  | .val z :: cs => (absDyn cs).map (.int z :: ·)
  | _ :: _ => none

def abs (fields : List FK) (st : RecSt) : Option Val :=
  match st.comps with
  | none => none
  | some l =>
    if fields.length ≠ 0 then (absFields fields l).map .seq else (absDyn l).map .seq

/-- the codec-model type of the record: field k is `[k] IMPLICIT INTEGER` -/
def fieldTy (k : Nat) : Ty := .tagged false .context k (.prim .integer)

def fkOf : FK → FKind
  | .req => .req
  | .opt => .opt
  | .dflt d => .dflt (.int d)

def fieldsFrom : Nat → List FK → Fields
  | _, [] => .nil
  | k, fk :: fks => .cons (fkOf fk) (fieldTy k) (fieldsFrom (k + 1) fks)

/-- a record without declared fields holds plain INTEGER objects, all mandatory -/
def dynFields : Nat → Fields
  | 0 => .nil
  | n + 1 => .cons .req (.prim .integer) (dynFields n)

def ty (isSet : Bool) (fields : List FK) (st : RecSt) : Ty :=
  let fs := if fields.length ≠ 0 then fieldsFrom 0 fields else dynFields ((st.comps.getD []).length)
  if isSet then .set fs else .seq fs

/-- what the SEQUENCE encoder does with one component it read:
    `none` = skipped, `some (.error _)` = raises, `some (.ok v)` = encodes this value -/
def encSlot : FK → Comp → Option (Except Err Int)
  | .req, .val z => some (.ok z)
  | .req, _ => some (.error .refused)          -- instantiated placeholder: not a value
  | .opt, .val z => some (.ok z)
  | .opt, _ => none                            -- absent, or `not component.isValue`
  | .dflt d, .val z => if z = d then none else some (.ok z)
  | .dflt _, .hole => none
  | .dflt _, .ph => some (.error .refused)     -- `component == default` raises on a schema object

/-- `SequenceEncoder.encodeValue` over the object's slots (value-object branch) -/
def objFields (cfg : EncCfg) (o : EncOpts) : Nat → List FK → List Comp → Except Err Bytes
  | _, [], _ => .ok []
  | k, fk :: fks, cs =>
    match encSlot fk (cs.headD .hole) with
    | none => objFields cfg o (k + 1) fks cs.tail
    | some (.error e) => .error e
    | some (.ok z) =>
      let o' := if cfg.seqOmitEmpty then { o with ifNotEmpty := (fkOf fk).isOpt } else o
      match finishItem cfg o' (fieldTy k) (encValue cfg o' (fieldTy k) (.int z)) with
      | .error e => .error e
      | .ok b => (objFields cfg o' (k + 1) fks cs.tail).map (b ++ ·)

/-- cer/der `SetEncoder.encodeValue` over the object's slots -/
def objSetMembers (cfg : EncCfg) (o : EncOpts) (ord : SetOrder) :
    Nat → List FK → List Comp → Except Err (List (TagSet × Bytes))
  | _, [], _ => .ok []
  | k, fk :: fks, cs =>
    match encSlot fk (cs.headD .hole) with
    | none => objSetMembers cfg o ord (k + 1) fks cs.tail
    | some (.error e) => .error e
    | some (.ok z) =>
      let o' := { o with ifNotEmpty := (fkOf fk).isOpt }
      match finishItem cfg o' (fieldTy k) (encValue cfg o' (fieldTy k) (.int z)) with
      | .error e => .error e
      | .ok b => (objSetMembers cfg o ord (k + 1) fks cs.tail).map ((setKey ord (fieldTy k) (.int z), b) :: ·)

/-- records without declared fields: every component is encoded as it is -/
def objDyn (cfg : EncCfg) (o : EncOpts) : List Comp → Except Err Bytes
  | [] => .ok []
  | .val z :: cs =>
    (match finishItem cfg o (.prim .integer) (encValue cfg o (.prim .integer) (.int z)) with
     | .error e => .error e
     | .ok b => (objDyn cfg o cs).map (b ++ ·))
  | _ :: _ => .error .refused

def encodeObj (cfg : EncCfg) (isSet : Bool) (fields : List FK) (st : RecSt) : Except Err Bytes :=
  let o := normOpts cfg {}
  -- the encoders read a schema object (`noValue`) like one whose components are all absent
  match some (st.comps.getD []) with
  | none => .error .refused
  | some l =>
    let body : Except Err (Bytes × Bool) :=
      if fields.length ≠ 0 then
        if isSet then
          (match cfg.setOrder with
           | .declared => (objFields cfg o 0 fields l).map (·, true)
           | ord =>
             match objSetMembers cfg o ord 0 fields l with
             | .error e => .error e
             | .ok ms =>
               let sorted := ms.mergeSort (fun a b => tagSetLe (outerKey a.1) (outerKey b.1))
               .ok ((sorted.map (·.2)).flatten, true))
        else (objFields cfg o 0 fields l).map (·, true)
      else
        if isSet && cfg.setOrder != .declared then
          -- untagged-equal members: the model does not cover SET without declared fields
          .error .refused
        else (objDyn cfg o l).map (·, true)
    finishItem cfg o (ty isSet fields st) body

end Rec

/-! ## CHOICE -/

structure ChoiceSt where
  comps : Option (List Comp)
  cur : Option Nat             -- `_currentIdx`
deriving DecidableEq, Repr, Inhabited

inductive ChoiceOp
  | setItemPos (i : Int) (a : Arg)
  | setItemName (k : Nat) (a : Arg)
  | setPos (i : Int) (a : Arg)
  | setName (k : Nat) (a : Arg)
  | setType (k : Nat) (a : Arg)
  | setNone (i : Int)
  | clear
  | reset
  | clone (flag : Bool)
  | len
  | keys
  | contains (k : Nat)
  | getItemPos (i : Int)
  | getItemName (k : Nat)
  | getPos (i : Int) (inst : Bool)
  | getName (k : Nat) (inst : Bool)
  | getType (k : Nat) (inst : Bool)
  | values
  | items
  | getComponent
  | getChosenName
  | pretty
  | eqTo (k : Nat) (v : Int)      -- c == <fresh CHOICE holding v in alternative k>
  | encode
deriving DecidableEq, Repr, Inhabited

namespace Choice

def altFields (n : Nat) : List FK := List.replicate n .req

/-- `Choice.setComponentByPosition`: the SET assignment, then the new alternative is remembered
    (normalised) and the previous one dropped -/
def setAt (n : Nat) (st : ChoiceSt) (i : Int) (a : Option Arg) : Option ChoiceSt :=
  match Rec.setAt (altFields n) ⟨st.comps, 0⟩ i a, pyIdx n i with
  | some r, some k =>
    let l := r.comps.getD []
    let l' := match st.cur with
      | some old => if old ≠ k then setNth l old .hole else l
      | none => l
    some ⟨some l', some k⟩
  | _, _ => none

/-- `Choice.getComponentByPosition`: the chosen alternative is returned as it is; any other
    position goes through the SET accessor, whose instantiation SELECTS that alternative -/
def getAt (n : Nat) (st : ChoiceSt) (i : Int) (inst : Bool) : ChoiceSt × Out :=
  if st.cur.isSome ∧ (st.cur.map (fun (k : Nat) => (k : Int))) = some i then
    (st, .comp ((st.comps.bind (fun l => Rec.slot l i)).getD .hole))
  else
    let cur := (st.comps.bind (fun l => Rec.slot l i)).getD .hole
    if !inst then (st, .comp (if cur.isVal then cur else .hole))
    else if cur.isHole then
      match setAt n st i none with
      | none => (st, .libErr)
      | some st' => (st', .comp ((st'.comps.bind (fun l => Rec.slot l i)).getD .hole))
    else (st, .comp cur)

def posOf (n : Nat) (k : Nat) : Option Int := if k < n then some (k : Int) else none

def chosen (st : ChoiceSt) : Option Comp :=
  match st.cur, st.comps with
  | some k, some l => l[k]?
  | _, _ => none

def isValue (st : ChoiceSt) : Bool :=
  match chosen st with
  | some c => c.isVal
  | none => false

def setOut (n : Nat) (st : ChoiceSt) (i : Option Int) (a : Option Arg) (err : Out) : ChoiceSt × Out :=
  match i with
  | none => (st, err)
  | some i => match setAt n st i a with
    | some st' => (st', .unit)
    | none => (st, err)

def step (n : Nat) (st : ChoiceSt) : ChoiceOp → ChoiceSt × Out
  | .setItemPos i a => setOut n st (some i) (some a) .lookupErr
  | .setItemName k a => setOut n st (posOf n k) (some a) .lookupErr
  | .setPos i a => setOut n st (some i) (some a) .libErr
  | .setName k a => setOut n st (posOf n k) (some a) .libErr
  | .setType k a => setOut n st (posOf n k) (some a) .libErr
  | .setNone i => setOut n st (some i) none .libErr
  | .clear => (⟨some [], none⟩, .unit)
  | .reset => (⟨none, none⟩, .unit)
  | .clone flag =>
    let fresh : ChoiceSt := ⟨some [], none⟩
    if !flag then (fresh, .unit)
    else (match st.cur, chosen st with
      | some k, some c => (⟨some (setNth (List.replicate n .hole) k c), some k⟩, .unit)
      | _, _ => (fresh, .unit))
  | .len => (st, .nat (if st.cur.isSome then 1 else 0))
  | .keys => (st, .names st.cur.toList)
  | .contains k => (st, .bool (st.cur = some k))
  | .getItemPos i => let r := getAt n st i true; (r.1, r.2.asLookup)
  | .getItemName k =>
    (match posOf n k with
     | none => (st, .lookupErr)
     | some i => let r := getAt n st i true; (r.1, r.2.asLookup))
  | .getPos i inst => getAt n st i inst
  | .getName k inst =>
    (match posOf n k with
     | none => (st, .libErr)
     | some i => getAt n st i inst)
  | .getType k inst =>
    (match posOf n k with
     | none => (st, .libErr)
     | some i => getAt n st i inst)
  | .values => (st, .comps (chosen st).toList)
  | .items =>
    (match st.cur, chosen st with
     | some k, some c => (st, .items [(k, c)])
     | _, _ => (st, .items []))
  | .getComponent =>
    (match chosen st with
     | some c => (st, .comp c)
     | none => (st, .libErr))
  | .getChosenName =>
    (match st.cur with
     | some k => (st, .names [k])
     | none => (st, .libErr))
  | .pretty =>
    (match st.comps with
     | none => (st, .libErr)
     | some l => (st, .items ((enumFrom 0 l).filter (fun kv => kv.2.isVal))))
  | .eqTo k' v =>
    (match st.comps with
     | none => (st, .libErr)                    -- `if self._componentValues:` on noValue
     | some [] => (st, .bool false)             -- NotImplemented, then identity
     | some _ =>
       -- same alternative selected and equal values (`getName() == other.getName() and …`)
       match st.cur, chosen st with
       | some k, some c =>
         if k ≠ k' then (st, .bool false)
         else (match c with
           | .val z => (st, .bool (z = v))
           | _ => (st, .libErr))
       | _, _ => (st, .libErr))
  | .encode => (st, .unit)

def abs (st : ChoiceSt) : Option Val :=
  match st.cur, chosen st with
  | some k, some (.val z) => some (.choice k (.int z))
  | _, _ => none

def altsFrom : Nat → Nat → Fields
  | _, 0 => .nil
  | k, n + 1 => .cons .req (Rec.fieldTy k) (altsFrom (k + 1) n)

def ty (n : Nat) : Ty := .choice (altsFrom 0 n)

/-- `ChoiceEncoder.encodeValue`: `value.getComponent()` encoded as it is -/
def encodeObj (cfg : EncCfg) (n : Nat) (st : ChoiceSt) : Except Err Bytes :=
  let o := normOpts cfg {}
  match st.cur, chosen st with
  | some k, some (.val z) =>
    if k < n then
      finishItem cfg o (ty n)
        ((finishItem cfg o (Rec.fieldTy k) (encValue cfg o (Rec.fieldTy k) (.int z))).map (·, true))
    else .error .refused
  | _, _ => .error .refused

end Choice

/-! ## plain prototypes

  What the objects are meant to be, written with list functions only: no sentinel, no placeholder
  objects, no sparse dict, no lazily padded list.  An element/slot that is there but unset is `none`. -/

namespace ListSpec

/-- a Python list of optional integers, or no list at all (after `reset()`) -/
abbrev St := Option (List (Option Int))

/-- how an unset element reads: a schema object of the component type, or `noValue` without one -/
def unset (typed : Bool) : Comp := if typed then .ph else .hole

def comp (typed : Bool) : Option Int → Comp
  | some z => .val z
  | none => unset typed

/-- the object that represents a prototype state: keys 0..n-1 in order -/
def rep (typed : Bool) : St → SeqOfSt
  | none => ⟨none⟩
  | some l => ⟨some (enumFrom 0 (l.map (comp typed)))⟩

def size (s : St) : Nat := (s.getD []).length

def norm (s : St) (i : Int) : Option Nat :=
  if 0 ≤ i then some i.toNat
  else if 0 ≤ (size s : Int) + i then some ((size s : Int) + i).toNat else none

/-- the element an argument stores (`cur` = the element already at that position, if any) -/
def value (typed : Bool) (cur : Option (Option Int)) : Option Arg → Option (Option Int)
  | none => if typed then some none else none
  | some (.py z) => if typed || (cur.bind id).isSome then some (some z) else none
  | some (.obj z) => some (some z)
  | some .bad => none

/-- `l[i] = v`, or `l.append(v)` at position N -/
def setAt (typed : Bool) (s : St) (i : Int) (a : Option Arg) : Option St :=
  match norm s i with
  | none => none
  | some j =>
    let l := s.getD []
    match value typed l[j]? a with
    | none => none
    | some v => some (some (if j < l.length then l.set j v else l ++ [v]))

/-- `for k, a in enumerate(as): l[start + k] = a` — stops at the first refused value -/
def setMany (typed : Bool) : St → Nat → List Arg → St × Bool
  | s, _, [] => (s, true)
  | s, k, a :: as =>
    match setAt typed s (k : Int) (some a) with
    | none => (s, false)
    | some s' => setMany typed s' (k + 1) as

/-- `for a in as: l.append(a)` -/
def appendMany (typed : Bool) : St → List Arg → St × Bool
  | s, [] => (s, true)
  | s, a :: as =>
    match setAt typed s (size s : Int) (some a) with
    | none => (s, false)
    | some s' => appendMany typed s' as

def allSet : List (Option Int) → Option (List Int)
  | [] => some []
  | some z :: l => (allSet l).map (z :: ·)
  | none :: _ => none

def indexOf (z : Int) : List (Option Int) → Nat → Option Nat
  | [], _ => none
  | some y :: l, k => if y = z then some k else indexOf z l (k + 1)
  | none :: _, _ => none

def containsIn (z : Int) : List (Option Int) → Out
  | [] => .bool false
  | some y :: l => if y = z then .bool true else containsIn z l
  | none :: _ => .libErr

def eqItems : List Int → List (Option Int) → Out
  | [], [] => .bool true
  | v :: vs, some z :: l => if v = z then eqItems vs l else .bool false
  | _ :: _, _ :: _ => .libErr
  | _, _ => .bool false

def isValue (s : St) : Bool :=
  match s with
  | none => false
  | some l => l.all (·.isSome)

/-- reading position `i` (`instantiate=inst`): an existing element, "nothing there", or — with a
    component type — position N, which appends an unset element (documented) -/
def getAt (typed : Bool) (s : St) (i : Int) (inst : Bool) : St × Out :=
  match norm s i with
  | none => (s, .libErr)
  | some j =>
    let l := s.getD []
    match l[j]? with
    | some x => (s, .comp (comp typed x))
    | none =>
      if !inst then (s, .comp .hole)
      else if typed && j == l.length then (some (l ++ [none]), .comp .ph)
      else (s, .libErr)

def step (typed : Bool) (s : St) : SeqOfOp → St × Out
  | .setItem i a => (match setAt typed s i (some a) with | some s' => (s', .unit) | none => (s, .lookupErr))
  | .setPos i a => (match setAt typed s i (some a) with | some s' => (s', .unit) | none => (s, .libErr))
  | .setNone i => (match setAt typed s i none with | some s' => (s', .unit) | none => (s, .libErr))
  | .append a => (match setAt typed s (size s : Int) (some a) with | some s' => (s', .unit) | none => (s, .lookupErr))
  | .extend as =>
    (match appendMany typed s as with
     | (s', true) => (some (s'.getD []), .unit)
     | (s', false) => (s', .lookupErr))
  | .setSlice a b as =>
    (match (if size s = 0 then some 0 else (sliceRange (size s) a b).head?) with
     | none => (s, .lookupErr)
     | some start =>
       match setMany typed s start as with
       | (s', true) => (s', .unit)
       | (s', false) => (s', .lookupErr))
  | .sort =>
    (match s with
     | none => (s, .libErr)
     | some l =>
       if l.length ≤ 1 then (s, .unit)
       else match allSet l with
         | some zs => (some ((SeqOf.sortInts zs).map some), .unit)
         | none => (s, .libErr))
  | .reverse => (match s with | none => (s, .libErr) | some l => (some l.reverse, .unit))
  | .clear => (some [], .unit)
  | .reset => (none, .unit)
  | .clone flag => if flag then (s, .unit) else (none, .unit)
  | .len => (s, .nat (size s))
  | .iter => (s, .comps ((s.getD []).map (comp typed)))
  | .contains z => (s, containsIn z (s.getD []))
  | .getItem i => let r := getAt typed s i true; (r.1, r.2.asLookup)
  | .getPos i inst => getAt typed s i inst
  | .getSlice a b => (s, .comps (((sliceRange (size s) a b).filterMap fun k => (s.getD [])[k]?).map (comp typed)))
  | .count z =>
    (match s with
     | none => (s, .libErr)
     | some l => match allSet l with
       | some zs => (s, .nat (zs.count z))
       | none => (s, .libErr))
  | .index z =>
    (match s with
     | none => (s, .libErr)
     | some l => match indexOf z l 0 with
       | some k => (s, .nat k)
       | none => (s, .valueErr))
  | .pretty => (s, .comps (if isValue s then (s.getD []).map (comp typed) else []))
  | .eqTo vs =>
    (match s with
     | none => (s, .libErr)
     | some l => (s, if vs.length ≠ l.length then .bool false else eqItems vs l))
  | .encode => (s, .unit)

def abs (s : St) : Option Val :=
  match s with
  | none => none
  | some l => (allSet l).map (fun zs => .seqOf (zs.map .int))

/-- without a component type every element is set (there is no schema object to hold a place) -/
def Inv (typed : Bool) (s : St) : Prop := typed = false → ∀ l, s = some l → ∀ x ∈ l, x ≠ none

/-- operations the documentation covers (or that must fail): everything except
    * writes beyond position N ("sparse" assignment, accepted by the library since 0.4.6),
    * `setComponentByPosition(i)` without a value on an existing element when there is no component type,
    * (finding T5) reads beyond position N when there is a component type -/
def Allowed (typed : Bool) (s : St) : SeqOfOp → Bool
  | .setItem i _ | .setPos i _ => (match norm s i with | some j => j ≤ size s | none => true)
  | .setNone i => (match norm s i with | some j => if typed then j ≤ size s else size s ≤ j | none => true)
  | .getItem i => (match norm s i with | some j => !typed || j ≤ size s | none => true)
  | .getPos i inst => (match norm s i with | some j => !typed || !inst || j ≤ size s | none => true)
  | _ => true

/-- ill-formed: a position outside the documented range or a value the component type refuses
    (for multi-element assignments: already the first one) -/
def illFormed (typed : Bool) (s : St) : SeqOfOp → Bool
  | .setItem i a | .setPos i a =>
    (match norm s i with
     | none => true
     | some j => j ≤ size s && (value typed (s.getD [])[j]? (some a)).isNone)
  | .setNone i => (match norm s i with | none => true | some j => !typed && size s ≤ j)
  | .append a => (value typed none (some a)).isNone
  | .extend (a :: _) => (value typed none (some a)).isNone
  | .setSlice a b as =>
    (match (if size s = 0 then some 0 else (sliceRange (size s) a b).head?), as with
     | none, _ => true
     | some k, x :: _ => (value typed (s.getD [])[k]? (some x)).isNone
     | _, _ => false)
  | .getItem i | .getPos i true =>
    (match norm s i with
     | none => true
     | some j => (s.getD [])[j]?.isNone && (!typed || size s < j))
  | _ => false

/-- accessors of existing members (and the accessors that never instantiate) -/
def isReader (_typed : Bool) (s : St) : SeqOfOp → Bool
  | .len | .iter | .contains _ | .getSlice _ _ | .count _ | .index _ | .pretty | .eqTo _ | .encode => true
  | .getPos _ false => true
  | .getItem i | .getPos i true => (match norm s i with | some j => decide (j < size s) | none => false)
  | _ => false

def run (typed : Bool) : St → List SeqOfOp → St × List Out
  | s, [] => (s, [])
  | s, op :: ops =>
    let r := step typed s op
    let rest := run typed r.1 ops
    (rest.1, r.2 :: rest.2)

/-- every op of the history is allowed in the state it meets -/
def AllowedRun (typed : Bool) : St → List SeqOfOp → Prop
  | _, [] => True
  | s, op :: ops => Allowed typed s op = true ∧ AllowedRun typed (step typed s op).1 ops

instance decAllowedRun (typed : Bool) : (s : St) → (ops : List SeqOfOp) → Decidable (AllowedRun typed s ops)
  | _, [] => isTrue trivial
  | s, op :: ops =>
    have := decAllowedRun typed (step typed s op).1 ops
    inferInstanceAs (Decidable (Allowed typed s op = true ∧ AllowedRun typed (step typed s op).1 ops))

end ListSpec

namespace SeqOf

def run (typed : Bool) : SeqOfSt → List SeqOfOp → SeqOfSt × List Out
  | st, [] => (st, [])
  | st, op :: ops =>
    let r := step typed st op
    let rest := run typed r.1 ops
    (rest.1, r.2 :: rest.2)

end SeqOf

namespace DictSpec

/-- a Python dict over the declared keys (in declaration order), created lazily: no dict at all
    (after `reset()`), `{}` (fresh, after `clear()`), or every declared key present with a value or
    `None` — `some []`, resp. a list of length N -/
abbrev St := Option (List (Option Int))

def dflt : FK → Option Int
  | .dflt d => some d
  | _ => none

/-- the slots, allocated on first use -/
def alloc (fields : List FK) (s : St) : List (Option Int) :=
  if (s.getD []).isEmpty then List.replicate fields.length none else s.getD []

def cur (fields : List FK) (s : St) (i : Int) : Option Int :=
  match pyIdx fields.length i with
  | some k => ((s.getD [])[k]?).bind id
  | none => none

def readComp : Option Int → Comp
  | some z => .val z
  | none => .hole

/-- `d[key] = v` (a `None` argument: "store the component type", which for a DEFAULT key is its value) -/
def setAt (fields : List FK) (s : St) (i : Int) (a : Option Arg) : Option St :=
  match pyIdx fields.length i with
  | none => none
  | some k =>
    match a, fields[k]? with
    | _, none => none
    | none, some fk => some (some ((alloc fields s).set k (dflt fk)))
    | some (.py z), _ => some (some ((alloc fields s).set k (some z)))
    | some (.obj z), _ => some (some ((alloc fields s).set k (some z)))
    | some .bad, _ => none

/-- reading a key; with `instantiate` an unset key is touched: the slots are allocated and a
    DEFAULT key receives its default -/
def getAt (fields : List FK) (s : St) (i : Int) (inst : Bool) : St × Out :=
  match cur fields s i with
  | some z => (s, .comp (.val z))
  | none =>
    if !inst then (s, .comp .hole)
    else match pyIdx fields.length i with
      | none => (s, .libErr)
      | some k =>
        match fields[k]? with
        | none => (s, .libErr)
        | some fk =>
          (some ((alloc fields s).set k (dflt fk)),
           .comp (match dflt fk with | some d => .val d | none => .ph))

def getMany (fields : List FK) : St → List Nat → St × Option (List Comp)
  | s, [] => (s, some [])
  | s, k :: ks =>
    match getAt fields s (k : Int) true with
    | (s', .comp c) =>
      (match getMany fields s' ks with
       | (s'', some cs) => (s'', some (c :: cs))
       | (s'', none) => (s'', none))
    | (s', _) => (s', none)

def posOfName (fields : List FK) (k : Nat) : Option Int := if k < fields.length then some (k : Int) else none

def reqSet (fields : List FK) (l : List (Option Int)) : Bool :=
  (List.range fields.length).all fun k =>
    match fields[k]? with
    | some .req => (match l[k]? with | some (some _) => true | _ => false)
    | _ => true

def isValue (fields : List FK) (s : St) : Bool :=
  match s with
  | none => false
  | some l => reqSet fields l

def setOut (fields : List FK) (s : St) (i : Option Int) (a : Option Arg) (err : Out) : St × Out :=
  match i with
  | none => (s, err)
  | some i => match setAt fields s i a with
    | some s' => (s', .unit)
    | none => (s, err)

def step (fields : List FK) (s : St) : RecOp → St × Out
  | .setItemPos i a => setOut fields s (some i) (some a) .lookupErr
  | .setItemName k a => setOut fields s (posOfName fields k) (some a) .lookupErr
  | .setPos i a => setOut fields s (some i) (some a) .libErr
  | .setName k a => setOut fields s (posOfName fields k) (some a) .libErr
  | .setType k a => setOut fields s (posOfName fields k) (some a) .libErr
  | .setNone i => setOut fields s (some i) none .libErr
  | .clear => (some [], .unit)
  | .reset => (none, .unit)
  | .clone flag => if flag then (s, .unit) else (some [], .unit)
  | .len => (match s with | none => (s, .libErr) | some l => (s, .nat l.length))
  | .keys => (s, .names (List.range fields.length))
  | .contains k => (s, .bool (k < fields.length))
  | .getItemPos i => let r := getAt fields s i true; (r.1, r.2.asLookup)
  | .getItemName k =>
    (match posOfName fields k with
     | none => (s, .lookupErr)
     | some i => let r := getAt fields s i true; (r.1, r.2.asLookup))
  | .getPos i inst => getAt fields s i inst
  | .getName k inst =>
    (match posOfName fields k with
     | none => (s, .libErr)
     | some i => getAt fields s i inst)
  | .getType k inst =>
    (match posOfName fields k with
     | none => (s, .libErr)
     | some i => getAt fields s i inst)
  | .values =>
    (match getMany fields s (List.range fields.length) with
     | (s', some cs) => (s', .comps cs)
     | (s', none) => (s', .lookupErr))
  | .items =>
    (match getMany fields s (List.range fields.length) with
     | (s', some cs) => (s', .items (enumFrom 0 cs))
     | (s', none) => (s', .lookupErr))
  | .pretty =>
    (match s with
     | none => (s, .libErr)
     | some l => (s, .items ((enumFrom 0 (l.map readComp)).filter (fun kv => kv.2.isVal))))
  | .eqTo cs =>
    (match s with
     | none => (s, .libErr)
     | some l => (s, .bool (cs.map Comp.get? == l)))
  | .encode _ =>
    -- encoding an incomplete record touches a missing mandatory component: the slots get allocated
    (match s with
     | some l => if reqSet fields l then (s, .unit) else (some (alloc fields s), .unit)
     | none => if reqSet fields [] then (s, .unit) else (some (alloc fields s), .unit))

def absField : FK → Option Int → Option Val
  | .req, some z => some (.int z)
  | .req, none => none
  | .opt, some z => some (.int z)
  | .opt, none => some .absent
  | .dflt _, some z => some (.int z)
  | .dflt d, none => some (.int d)

def absFields : List FK → List (Option Int) → Option (List Val)
  | [], _ => some []
  | fk :: fks, l =>
    match absField fk (l.headD none), absFields fks l.tail with
    | some v, some vs => some (v :: vs)
    | _, _ => none

def abs (fields : List FK) (s : St) : Option Val :=
  match s with
  | none => none
  | some l => (absFields fields l).map .seq

/-- ill-formed: unknown name, position outside the declared range, a value the field refuses -/
def illFormed (fields : List FK) : RecOp → Bool
  | .setItemPos i a | .setPos i a => (pyIdx fields.length i).isNone || a == .bad
  | .setItemName k a | .setName k a | .setType k a => decide (fields.length ≤ k) || a == .bad
  | .setNone i => (pyIdx fields.length i).isNone
  | .getItemPos i | .getPos i true => (pyIdx fields.length i).isNone
  | .getItemName k | .getName k _ | .getType k _ => decide (fields.length ≤ k)
  | _ => false

/-- accessors that never change the dict: everything that does not instantiate, and instantiating
    accessors on a key that holds a value -/
def isReader (fields : List FK) (s : St) : RecOp → Bool
  | .len | .keys | .contains _ | .pretty | .eqTo _ => true
  | .getPos _ false | .getName _ false | .getType _ false => true
  | .getItemPos i | .getPos i true => (cur fields s i).isSome
  | .getItemName k | .getName k true | .getType k true =>
    (match posOfName fields k with | some i => (cur fields s i).isSome | none => true)
  | .encode _ => isValue fields s
  | _ => false

def run (fields : List FK) : St → List RecOp → St × List Out
  | s, [] => (s, [])
  | s, op :: ops =>
    let r := step fields s op
    let rest := run fields r.1 ops
    (rest.1, r.2 :: rest.2)

end DictSpec

namespace Rec

/-- the prototype state an object stands for: placeholder objects and the noValue sentinel both
    read as "unset" -/
def absD (st : RecSt) : DictSpec.St := st.comps.map (·.map Comp.get?)

def run (fields : List FK) : RecSt → List RecOp → RecSt × List Out
  | st, [] => (st, [])
  | st, op :: ops =>
    let r := step fields st op
    let rest := run fields r.1 ops
    (rest.1, r.2 :: rest.2)

/-- operations covered by the refinement theorem: all, except
    * (finding T4-eq) `==` in the states where the library raises instead of answering,
    * `encode` of an object that is not a value (the failing encoder instantiates a missing
      mandatory component on its way out) -/
def Allowed (fields : List FK) (st : RecSt) : RecOp → Bool
  | .eqTo cs => st.comps.isNone || (step fields st (.eqTo cs)).2 != .libErr
  | .encode _ => isValue fields st
  | _ => true

/-- shape invariant of the objects with declared fields: the component list is empty or padded to
    the declared length with at least one component instantiated; a DEFAULT slot never holds a
    placeholder; no dynamic names -/
def Inv (fields : List FK) (st : RecSt) : Prop :=
  st.dyn = 0 ∧
  ∀ l, st.comps = some l →
    (l = [] ∨ (l.length = fields.length ∧ l.all (·.isHole) = false)) ∧
    ∀ (k : Nat) (d : Int), fields[k]? = some (FK.dflt d) → l[k]? ≠ some Comp.ph

end Rec

namespace DynSpec

/-- a record WITHOUT declared fields is a list that grows one field at a time (names field-0 …):
    no list at all, or the list of its values -/
abbrev St := Option (List Int)

def rep : St → RecSt
  | none => ⟨none, 0⟩
  | some l => ⟨some (l.map Comp.val), l.length⟩

def size (s : St) : Nat := (s.getD []).length

/-- position `i` holds a value (Python list indexing, negative positions included) -/
def has (s : St) (i : Int) : Bool := (pyIdx (size s) i).isSome

def setAt (s : St) (i : Int) (a : Arg) : Option St :=
  let l := s.getD []
  let v : Option Int := match a with
    | .py z => if has s i then some z else none      -- a bare value needs an existing component to cast to
    | .obj z => some z
    | .bad => none
  match v with
  | none => none
  | some z =>
    if 0 ≤ i ∧ i.toNat < l.length then some (some (l.set i.toNat z))
    else if (l.length : Int) = i then some (some (l ++ [z]))
    else none

def setOut (s : St) (i : Option Int) (a : Arg) (err : Out) : St × Out :=
  match i with
  | none => (s, err)
  | some i => match setAt s i a with
    | some s' => (s', .unit)
    | none => (s, err)

def getAt (s : St) (i : Int) (inst : Bool) : Out :=
  match pyIdx (size s) i with
  | some k => .comp (((s.getD [])[k]?.map Comp.val).getD .hole)
  | none => if inst then .libErr else .comp .hole

def posOfName (s : St) (k : Nat) : Option Int := if k < size s then some (k : Int) else none

def step (s : St) : RecOp → St × Out
  | .setItemPos i a => setOut s (some i) a .lookupErr
  | .setItemName k a => setOut s (posOfName s k) a .lookupErr
  | .setPos i a => setOut s (some i) a .libErr
  | .setName k a => setOut s (posOfName s k) a .libErr
  | .setType _ _ => (s, .libErr)                      -- no declared types, no tags
  | .setNone _ => (s, .libErr)                        -- (only where it fails, see `Allowed`)
  | .clear => (some [], .unit)
  | .reset => (none, .unit)
  | .clone flag => if flag then (s, .unit) else (none, .unit)
  | .len => (match s with | none => (s, .libErr) | some l => (s, .nat l.length))
  | .keys => (s, .names (List.range (size s)))
  | .contains k => (s, .bool (k < size s))
  | .getItemPos i => (s, (getAt s i true).asLookup)
  | .getItemName k => (match posOfName s k with | none => (s, .lookupErr) | some i => (s, (getAt s i true).asLookup))
  | .getPos i inst => (s, getAt s i inst)
  | .getName k inst => (match posOfName s k with | none => (s, .libErr) | some i => (s, getAt s i inst))
  | .getType _ _ => (s, .libErr)
  | .values => (s, .comps ((s.getD []).map Comp.val))
  | .items => (s, .items (enumFrom 0 ((s.getD []).map Comp.val)))
  | .pretty => (match s with | none => (s, .libErr) | some l => (s, .items (enumFrom 0 (l.map Comp.val))))
  | .eqTo cs =>
    (match s with
     | none => (s, .libErr)
     | some l => (s, if cs.length ≠ l.length then .bool false else Rec.eqItems cs (l.map Comp.val)))
  | .encode _ => (s, .unit)

/-- everything except `setComponentByPosition(i)` without value where it would succeed (it stores
    the noValue sentinel itself, a state the documentation does not describe) -/
def Allowed (s : St) : RecOp → Bool
  | .setNone i => !(has s i)
  | _ => true

def run : St → List RecOp → St × List Out
  | s, [] => (s, [])
  | s, op :: ops =>
    let r := step s op
    let rest := run r.1 ops
    (rest.1, r.2 :: rest.2)

def AllowedRun : St → List RecOp → Prop
  | _, [] => True
  | s, op :: ops => Allowed s op = true ∧ AllowedRun (step s op).1 ops

end DynSpec

namespace OptionSpec

/-- at most one (alternative, value): `sel`; the value is `none` after "select by touching".
    `isObj` is False after `reset()`, `alloc` says whether the slots exist (it only shows in `==`) -/
structure St where
  isObj : Bool
  alloc : Bool
  sel : Option (Nat × Option Int)
deriving DecidableEq, Repr, Inhabited

def selComp (x : Option Int) : Comp :=
  match x with
  | some z => .val z
  | none => .ph

def setAt (n : Nat) (i : Int) (a : Option Arg) : Option St :=
  match pyIdx n i, a with
  | none, _ => none
  | some k, none => some ⟨true, true, some (k, none)⟩
  | some k, some (.py z) => some ⟨true, true, some (k, some z)⟩
  | some k, some (.obj z) => some ⟨true, true, some (k, some z)⟩
  | some _, some .bad => none

def setOut (n : Nat) (s : St) (i : Option Int) (a : Option Arg) (err : Out) : St × Out :=
  match i with
  | none => (s, err)
  | some i => match setAt n i a with
    | some s' => (s', .unit)
    | none => (s, err)

/-- reading alternative `i`: the selected one is returned as it is; another one reads as nothing,
    or — with `instantiate` — gets SELECTED (the library's "select by touching", DESIGN T3) -/
def getAt (n : Nat) (s : St) (i : Int) (inst : Bool) : St × Out :=
  match s.sel with
  | some (k, x) =>
    if (k : Int) = i then (s, .comp (selComp x))
    else if pyIdx n i = some k then
      (s, .comp (if inst then selComp x else match x with | some z => .val z | none => .hole))
    else if !inst then (s, .comp .hole)
    else match pyIdx n i with
      | some j => (⟨true, true, some (j, none)⟩, .comp .ph)
      | none => (s, .libErr)
  | none =>
    if !inst then (s, .comp .hole)
    else match pyIdx n i with
      | some j => (⟨true, true, some (j, none)⟩, .comp .ph)
      | none => (s, .libErr)

def posOf (n : Nat) (k : Nat) : Option Int := if k < n then some (k : Int) else none

def step (n : Nat) (s : St) : ChoiceOp → St × Out
  | .setItemPos i a => setOut n s (some i) (some a) .lookupErr
  | .setItemName k a => setOut n s (posOf n k) (some a) .lookupErr
  | .setPos i a => setOut n s (some i) (some a) .libErr
  | .setName k a => setOut n s (posOf n k) (some a) .libErr
  | .setType k a => setOut n s (posOf n k) (some a) .libErr
  | .setNone i => setOut n s (some i) none .libErr
  | .clear => (⟨true, false, none⟩, .unit)
  | .reset => (⟨false, false, none⟩, .unit)
  | .clone flag =>
    if flag && s.sel.isSome then (⟨true, true, s.sel⟩, .unit) else (⟨true, false, none⟩, .unit)
  | .len => (s, .nat (if s.sel.isSome then 1 else 0))
  | .keys => (s, .names (s.sel.map (·.1)).toList)
  | .contains k => (s, .bool (s.sel.map (·.1) = some k))
  | .getItemPos i => let r := getAt n s i true; (r.1, r.2.asLookup)
  | .getItemName k =>
    (match posOf n k with
     | none => (s, .lookupErr)
     | some i => let r := getAt n s i true; (r.1, r.2.asLookup))
  | .getPos i inst => getAt n s i inst
  | .getName k inst =>
    (match posOf n k with
     | none => (s, .libErr)
     | some i => getAt n s i inst)
  | .getType k inst =>
    (match posOf n k with
     | none => (s, .libErr)
     | some i => getAt n s i inst)
  | .values => (s, .comps (s.sel.map (fun p => selComp p.2)).toList)
  | .items => (s, .items (s.sel.map (fun p => (p.1, selComp p.2))).toList)
  | .getComponent =>
    (match s.sel with
     | some (_, x) => (s, .comp (selComp x))
     | none => (s, .libErr))
  | .getChosenName =>
    (match s.sel with
     | some (k, _) => (s, .names [k])
     | none => (s, .libErr))
  | .pretty =>
    if !s.isObj then (s, .libErr)
    else (match s.sel with
      | some (k, some z) => (s, .items [(k, .val z)])
      | _ => (s, .items []))
  | .eqTo k' v =>
    if !s.isObj then (s, .libErr)
    else if !s.alloc then (s, .bool false)
    else (match s.sel with
      | some (k, x) =>
        if k ≠ k' then (s, .bool false)
        else (match x with
          | some z => (s, .bool (z = v))
          | none => (s, .libErr))
      | none => (s, .libErr))
  | .encode => (s, .unit)

def isValue (s : St) : Bool :=
  match s.sel with
  | some (_, some _) => true
  | _ => false

def abs (s : St) : Option Val :=
  match s.sel with
  | some (k, some z) => some (.choice k (.int z))
  | _ => none

def run (n : Nat) : St → List ChoiceOp → St × List Out
  | s, [] => (s, [])
  | s, op :: ops =>
    let r := step n s op
    let rest := run n r.1 ops
    (rest.1, r.2 :: rest.2)

end OptionSpec

namespace Choice

/-- the prototype state a CHOICE object stands for -/
def absO (st : ChoiceSt) : OptionSpec.St :=
  { isObj := st.comps.isSome
    alloc := (match st.comps with | some (_ :: _) => true | _ => false)
    sel := match st.cur, chosen st with
      | some k, some c => some (k, c.get?)
      | _, _ => none }

def run (n : Nat) : ChoiceSt → List ChoiceOp → ChoiceSt × List Out
  | st, [] => (st, [])
  | st, op :: ops =>
    let r := step n st op
    let rest := run n r.1 ops
    (rest.1, r.2 :: rest.2)

/-- shape invariant: no component list and nothing chosen; an empty list and nothing chosen; or a
    list padded to the number of alternatives in which exactly the chosen slot is not `noValue` -/
def Inv (n : Nat) (st : ChoiceSt) : Prop :=
  match st.comps, st.cur with
  | none, none => True
  | some [], none => True
  | some l, some k =>
    l.length = n ∧ k < n ∧ (∀ c, l[k]? = some c → c ≠ .hole) ∧ ∀ j, j ≠ k → j < n → l[j]? = some .hole
  | _, _ => False

/-- the number of alternatives an object holds -/
def held (st : ChoiceSt) : Nat :=
  match st.comps with
  | none => 0
  | some l => (l.filter (fun c => !c.isHole)).length

end Choice

/-! ## the NoValue dunder table -/

/-- operations a scalar class forwards to its payload; on a schema object the payload is the
    `noValue` sentinel, which plugs every dunder of str/int/list/dict except `skipMethods` -/
def noValueRaises (plugged : List String) (op : String) : Bool := plugged.contains op


/-! ## driver glue (not verified): `HIST <kind> <params> <op>…` replays a history and prints, after
    every step, the call's result, len, the raw state, isValue, abstract content, DER and CER -/

namespace Proto

def compStr : Comp → String
  | .hole => "hole"
  | .ph => "ph"
  | .val z => s!"(v {z})"

def compsStr (cs : List Comp) : String := "(" ++ " ".intercalate (cs.map compStr) ++ ")"

def outStr : Out → String
  | .unit => "unit"
  | .nat n => s!"(n {n})"
  | .bool b => s!"(b {if b then 1 else 0})"
  | .comp c => s!"(c {compStr c})"
  | .comps cs => s!"(cs {compsStr cs})"
  | .names ns => "(ns" ++ String.join (ns.map fun n => s!" {n}") ++ ")"
  | .items kvs => "(kv" ++ String.join (kvs.map fun kv => s!" ({kv.1} {compStr kv.2})") ++ ")"
  | .bytes b => s!"(hex {hexOut b})"
  | .lookupErr => "lookup"
  | .libErr => "lib"
  | .valueErr => "value"

def encStr : Except Err Bytes → String
  | .ok b => hexOut b
  | .error _ => "err"

def absStr : Option Val → String
  | some v => valStr v
  | none => "none"

def intOf : Sexp → Option Int
  | .atom a => a.toInt?
  | _ => none

def natOf : Sexp → Option Nat
  | .atom a => a.toNat?
  | _ => none

def optIntOf : Sexp → Option (Option Int)
  | .atom "_" => some none
  | .atom a => a.toInt?.map some
  | _ => none

def boolOf : Sexp → Option Bool
  | .atom "1" => some true
  | .atom "0" => some false
  | _ => none

def argOf : Sexp → Option Arg
  | .atom "bad" => some .bad
  | .list [.atom "py", z] => (intOf z).map .py
  | .list [.atom "obj", z] => (intOf z).map .obj
  | _ => none

def compOf : Sexp → Option Comp
  | .atom "hole" => some .hole
  | .atom "ph" => some .ph
  | .list [.atom "v", z] => (intOf z).map .val
  | _ => none

def seqOfOpOf : Sexp → Option SeqOfOp
  | .list [.atom "setitem", i, a] => do pure (.setItem (← intOf i) (← argOf a))
  | .list [.atom "setpos", i, a] => do pure (.setPos (← intOf i) (← argOf a))
  | .list [.atom "setnone", i] => do pure (.setNone (← intOf i))
  | .list [.atom "append", a] => do pure (.append (← argOf a))
  | .list (.atom "extend" :: as) => do pure (.extend (← as.mapM argOf))
  | .list (.atom "setslice" :: a :: b :: as) => do pure (.setSlice (← optIntOf a) (← optIntOf b) (← as.mapM argOf))
  | .list [.atom "sort"] => some .sort
  | .list [.atom "reverse"] => some .reverse
  | .list [.atom "clear"] => some .clear
  | .list [.atom "reset"] => some .reset
  | .list [.atom "clone", f] => do pure (.clone (← boolOf f))
  | .list [.atom "len"] => some .len
  | .list [.atom "iter"] => some .iter
  | .list [.atom "contains", z] => do pure (.contains (← intOf z))
  | .list [.atom "getitem", i] => do pure (.getItem (← intOf i))
  | .list [.atom "getpos", i, f] => do pure (.getPos (← intOf i) (← boolOf f))
  | .list [.atom "getslice", a, b] => do pure (.getSlice (← optIntOf a) (← optIntOf b))
  | .list [.atom "count", z] => do pure (.count (← intOf z))
  | .list [.atom "index", z] => do pure (.index (← intOf z))
  | .list [.atom "pretty"] => some .pretty
  | .list (.atom "eq" :: vs) => do pure (.eqTo (← vs.mapM intOf))
  | .list [.atom "encode"] => some .encode
  | _ => none

def recOpOf : Sexp → Option RecOp
  | .list [.atom "setitem-pos", i, a] => do pure (.setItemPos (← intOf i) (← argOf a))
  | .list [.atom "setitem-name", k, a] => do pure (.setItemName (← natOf k) (← argOf a))
  | .list [.atom "setpos", i, a] => do pure (.setPos (← intOf i) (← argOf a))
  | .list [.atom "setname", k, a] => do pure (.setName (← natOf k) (← argOf a))
  | .list [.atom "settype", k, a] => do pure (.setType (← natOf k) (← argOf a))
  | .list [.atom "setnone", i] => do pure (.setNone (← intOf i))
  | .list [.atom "clear"] => some .clear
  | .list [.atom "reset"] => some .reset
  | .list [.atom "clone", f] => do pure (.clone (← boolOf f))
  | .list [.atom "len"] => some .len
  | .list [.atom "keys"] => some .keys
  | .list [.atom "contains", k] => do pure (.contains (← natOf k))
  | .list [.atom "getitem-pos", i] => do pure (.getItemPos (← intOf i))
  | .list [.atom "getitem-name", k] => do pure (.getItemName (← natOf k))
  | .list [.atom "getpos", i, f] => do pure (.getPos (← intOf i) (← boolOf f))
  | .list [.atom "getname", k, f] => do pure (.getName (← natOf k) (← boolOf f))
  | .list [.atom "gettype", k, f] => do pure (.getType (← natOf k) (← boolOf f))
  | .list [.atom "values"] => some .values
  | .list [.atom "items"] => some .items
  | .list [.atom "pretty"] => some .pretty
  | .list (.atom "eq" :: cs) => do pure (.eqTo (← cs.mapM compOf))
  | .list [.atom "encode"] => some (.encode false)
  | .list [.atom "encode", f] => do pure (.encode (← boolOf f))
  | _ => none

def choiceOpOf : Sexp → Option ChoiceOp
  | .list [.atom "setitem-pos", i, a] => do pure (.setItemPos (← intOf i) (← argOf a))
  | .list [.atom "setitem-name", k, a] => do pure (.setItemName (← natOf k) (← argOf a))
  | .list [.atom "setpos", i, a] => do pure (.setPos (← intOf i) (← argOf a))
  | .list [.atom "setname", k, a] => do pure (.setName (← natOf k) (← argOf a))
  | .list [.atom "settype", k, a] => do pure (.setType (← natOf k) (← argOf a))
  | .list [.atom "setnone", i] => do pure (.setNone (← intOf i))
  | .list [.atom "clear"] => some .clear
  | .list [.atom "reset"] => some .reset
  | .list [.atom "clone", f] => do pure (.clone (← boolOf f))
  | .list [.atom "len"] => some .len
  | .list [.atom "keys"] => some .keys
  | .list [.atom "contains", k] => do pure (.contains (← natOf k))
  | .list [.atom "getitem-pos", i] => do pure (.getItemPos (← intOf i))
  | .list [.atom "getitem-name", k] => do pure (.getItemName (← natOf k))
  | .list [.atom "getpos", i, f] => do pure (.getPos (← intOf i) (← boolOf f))
  | .list [.atom "getname", k, f] => do pure (.getName (← natOf k) (← boolOf f))
  | .list [.atom "gettype", k, f] => do pure (.getType (← natOf k) (← boolOf f))
  | .list [.atom "values"] => some .values
  | .list [.atom "items"] => some .items
  | .list [.atom "getcomponent"] => some .getComponent
  | .list [.atom "getchosenname"] => some .getChosenName
  | .list [.atom "pretty"] => some .pretty
  | .list [.atom "eq", k, v] => do pure (.eqTo (← natOf k) (← intOf v))
  | .list [.atom "encode"] => some .encode
  | _ => none

def fkOfSexp : Sexp → Option FK
  | .atom "r" => some .req
  | .atom "o" => some .opt
  | .list [.atom "d", z] => (intOf z).map .dflt
  | _ => none

def seqOfStStr (st : SeqOfSt) : String :=
  match st.comps with
  | none => "(st none)"
  | some d => "(st" ++ String.join (d.map fun kv => s!" ({kv.1} {compStr kv.2})") ++ ")"

def listStStr : Option (List Comp) → String
  | none => "none"
  | some l => compsStr l

def seqOfObs (typed isSet : Bool) (out : Out) (st : SeqOfSt) : String :=
  s!"({outStr out} {SeqOf.len st} {seqOfStStr st} {if SeqOf.isValue st then 1 else 0} " ++
  s!"{absStr (SeqOf.abs st)} {encStr (SeqOf.encodeObj Generated.derEnc typed isSet st)} " ++
  s!"{encStr (SeqOf.encodeObj Generated.cerEnc typed isSet st)})"

def seqOfRun (typed isSet : Bool) : SeqOfSt → List SeqOfOp → List String
  | _, [] => []
  | st, op :: ops =>
    let r := SeqOf.step typed st op
    seqOfObs typed isSet r.2 r.1 :: seqOfRun typed isSet r.1 ops

def recLenStr (st : RecSt) : String :=
  match st.comps with
  | none => "err"
  | some l => toString l.length

def recObs (isSet : Bool) (fields : List FK) (out : Out) (st : RecSt) : String :=
  s!"({outStr out} {recLenStr st} (st {listStStr st.comps} {st.dyn}) {if Rec.isValue fields st then 1 else 0} " ++
  s!"{absStr (Rec.abs fields st)} {encStr (Rec.encodeObj Generated.derEnc isSet fields st)} " ++
  s!"{encStr (Rec.encodeObj Generated.cerEnc isSet fields st)})"

def recRun (isSet : Bool) (fields : List FK) : RecSt → List RecOp → List String
  | _, [] => []
  | st, op :: ops =>
    let r := Rec.step fields st op
    recObs isSet fields r.2 r.1 :: recRun isSet fields r.1 ops

def choiceObs (n : Nat) (out : Out) (st : ChoiceSt) : String :=
  let cur := match st.cur with | some k => toString k | none => "none"
  s!"({outStr out} {if st.cur.isSome then 1 else 0} (st {listStStr st.comps} {cur}) {if Choice.isValue st then 1 else 0} " ++
  s!"{absStr (Choice.abs st)} {encStr (Choice.encodeObj Generated.derEnc n st)} " ++
  s!"{encStr (Choice.encodeObj Generated.cerEnc n st)})"

def choiceRun (n : Nat) : ChoiceSt → List ChoiceOp → List String
  | _, [] => []
  | st, op :: ops =>
    let r := Choice.step n st op
    choiceObs n r.2 r.1 :: choiceRun n r.1 ops

end Proto

def handle : List Sexp → Option String
  | .atom "HIST" :: .atom "seqof" :: typed :: isSet :: ops => do
      let typed ← Proto.boolOf typed
      let isSet ← Proto.boolOf isSet
      let ops ← ops.mapM Proto.seqOfOpOf
      some ("ok " ++ " ".intercalate (Proto.seqOfRun typed isSet ⟨none⟩ ops))
  | .atom "HIST" :: .atom "rec" :: isSet :: .list fks :: ops => do
      let isSet ← Proto.boolOf isSet
      let fields ← fks.mapM Proto.fkOfSexp
      let ops ← ops.mapM Proto.recOpOf
      let init : RecSt := ⟨if fields.length ≠ 0 then some [] else none, 0⟩
      some ("ok " ++ " ".intercalate (Proto.recRun isSet fields init ops))
  | .atom "HIST" :: .atom "choice" :: n :: ops => do
      let n ← Proto.natOf n
      let ops ← ops.mapM Proto.choiceOpOf
      some ("ok " ++ " ".intercalate (Proto.choiceRun n ⟨some [], none⟩ ops))
  | _ => none

end Asn1.Container
