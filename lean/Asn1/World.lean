/-
  Asn1.World — the mutable state around codec calls that could make them impure: the per-decoder
  tag caches of `SingleItemDecoder` (`_tagCache`, `_tagSetCache`, keyed by the first identifier
  octet and filled for *short* tags only).  The model makes the cache explicit and the theorems in
  Props/C12 show it is transparent.
-/
import Asn1.Tag

namespace Asn1

/-- `SingleItemDecoder._tagCache`: first identifier octet ↦ tag -/
abbrev TagCache := List (UInt8 × Tag)

def TagCache.lookup (c : TagCache) (o : UInt8) : Option Tag :=
  match c with
  | [] => none
  | (k, t) :: rest => if k = o then some t else TagCache.lookup rest o

/-- `stDecodeTag` with the cache: a hit returns the cached tag; a miss decodes, and caches the
    result only when the tag is in short form (`isShortTag`) -/
def decodeTagCached (c : TagCache) : Bytes → Res (Tag × Bytes) × TagCache
  | [] => (.error .underrun, c)
  | b :: rest =>
    match c.lookup b with
    | some t => (.ok (t, rest), c)
    | none =>
      match decodeTag (b :: rest) with
      | .ok (t, r) => (.ok (t, r), if b.toNat % 32 = 31 then c else (b, t) :: c)
      | .error e => (.error e, c)

/-- every cached entry is what decoding that single short-form octet gives -/
def TagCache.Inv (c : TagCache) : Prop :=
  ∀ o t, (o, t) ∈ c → o.toNat % 32 ≠ 31 ∧ ∀ rest, decodeTag (o :: rest) = .ok (t, rest)

end Asn1
