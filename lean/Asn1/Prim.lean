/-
  Asn1.Prim — content octets of the primitive types.
  Mirrors: compat/integer.py to_bytes/from_bytes (signed), ber/encoder.py IntegerEncoder,
  BooleanEncoder, BitStringEncoder (unchunked kernel), ObjectIdentifierEncoder, RealEncoder (base 2),
  and the matching payload decoders of ber/decoder.py.
-/
import Asn1.Tag

namespace Asn1

/-! ### INTEGER: minimal two's complement -/

/-- `to_bytes(value, signed=True)` for `value ≠ 0`, and `[0]` for 0 (IntegerEncoder). -/
def intToBytes (z : Int) : Bytes :=
  if -128 ≤ z ∧ z < 128 then [UInt8.ofNat (z % 256).toNat]
  else intToBytes (z / 256) ++ [UInt8.ofNat (z % 256).toNat]
termination_by z.natAbs
decreasing_by omega

/-- `from_bytes(octets, signed=True)` on a non-empty string. -/
def intFromBytesAux (acc : Int) : Bytes → Int
  | [] => acc
  | b :: rest => intFromBytesAux (acc * 256 + b.toNat) rest

/-- `from_bytes(octets, signed=True)`; the empty string denotes 0 (IntegerPayloadDecoder). -/
def intFromBytes : Bytes → Int
  | [] => 0
  | b :: rest =>
    intFromBytesAux (if b.toNat < 128 then (b.toNat : Int) else (b.toNat : Int) - 256) rest

/-! ### BIT STRING -/

def bitsToNat : List Bool → Nat
  | [] => 0
  | b :: rest => (if b then 2 ^ rest.length else 0) + bitsToNat rest

/-- pack at most 8 bits (MSB first), zero padded on the right -/
def packByte (bs : List Bool) : UInt8 :=
  UInt8.ofNat (bitsToNat (bs ++ List.replicate (8 - bs.length) false))

def packBits : Nat → List Bool → Bytes
  | 0, _ => []
  | _, [] => []
  | fuel + 1, bs => packByte (bs.take 8) :: packBits fuel (bs.drop 8)

def padLen (n : Nat) : Nat := (8 - n % 8) % 8

/-- unchunked BIT STRING contents: pad count, then the bits left-aligned -/
def bitsToContent (bs : List Bool) : Bytes :=
  UInt8.ofNat (padLen bs.length) :: packBits bs.length bs

def byteToBits (b : UInt8) : List Bool :=
  [b.toNat / 128 % 2 = 1, b.toNat / 64 % 2 = 1, b.toNat / 32 % 2 = 1, b.toNat / 16 % 2 = 1,
   b.toNat / 8 % 2 = 1, b.toNat / 4 % 2 = 1, b.toNat / 2 % 2 = 1, b.toNat % 2 = 1]

def unpackBits (bs : Bytes) : List Bool := bs.flatMap byteToBits

/-- BitStringPayloadDecoder, primitive form. `03 00` is "Empty BIT STRING substrate";
    padding > 7 is "Trailing bits overflow"; padding beyond the data is refused by
    `BitString.fromOctetString` only through a negative length (treated as malformed). -/
def bitsFromContent : Bytes → Res (List Bool)
  | [] => .error .malformed
  | p :: rest =>
    if p.toNat > 7 then .error .malformed
    else
      let all := unpackBits rest
      if p.toNat > all.length then .error .malformed
      else .ok (all.take (all.length - p.toNat))

/-! ### OBJECT IDENTIFIER -/

/-- one sub-identifier, base 128, continuation bit on all but the last octet -/
def encodeArc (n : Nat) : Bytes :=
  if n < 128 then [UInt8.ofNat n]
  else
    let ds := be128 n
    natsToBytes (ds.dropLast.map (· + 0x80)) ++ natsToBytes [ds.getLastD 0]

/-- ObjectIdentifierEncoder.encodeValue; `none` = refused ("Short OID", "Impossible first/second arcs") -/
def oidToContent : List Nat → Option Bytes
  | first :: second :: rest =>
    let head? : Option Nat :=
      if second ≤ 39 then
        (if first = 1 then some (second + 40)
         else if first = 0 then some second
         else if first = 2 then some (second + 80)
         else none)
      else if first = 2 then some (second + 80)
      else none
    match head? with
    | some h => some ((h :: rest).flatMap encodeArc)
    | none => none
  | _ => none

/-- the sub-identifier loop of ObjectIdentifierPayloadDecoder.
    `cont = none`: at the start of an arc; `some acc`: inside a multi-octet arc. -/
def decodeArcs : Option Nat → Bytes → Res (List Nat)
  | none, [] => .ok []
  | some _, [] => .error .underrun            -- 'Short substrate for sub-OID' is a SubstrateUnderrunError
  | none, b :: rest =>
    if b.toNat < 128 then (decodeArcs none rest).map (b.toNat :: ·)
    else if b.toNat = 128 then .error .malformed   -- leading 0x80
    else decodeArcs (some (b.toNat % 128)) rest
  | some acc, b :: rest =>
    if b.toNat < 128 then (decodeArcs none rest).map ((acc * 128 + b.toNat) :: ·)
    else decodeArcs (some (acc * 128 + b.toNat % 128)) rest

def oidFromContent (bs : Bytes) : Res (List Nat) :=
  match bs with
  | [] => .error .malformed                    -- 'Empty substrate'
  | _ =>
    match decodeArcs none bs with
    | .error e => .error e
    | .ok [] => .error .malformed
    | .ok (h :: rest) =>
      if h ≤ 39 then .ok (0 :: h :: rest)
      else if h ≤ 79 then .ok (1 :: (h - 40) :: rest)
      else .ok (2 :: (h - 80) :: rest)

/-! ### REAL (binary form, base 2; the decimal form goes through CPython floats and is not modelled) -/

inductive RealVal
  | pinf | minf
  | fin (m : Int) (b : Nat) (e : Int)      -- m · b^e, b ∈ {2, 10}
deriving DecidableEq, Repr, Inhabited

/-- strip factors of two from a positive mantissa, bumping the exponent (fuel = m suffices) -/
def normOdd : Nat → Nat → Int → Nat × Int
  | 0, m, e => (m, e)
  | fuel + 1, m, e => if m ≠ 0 ∧ m % 2 = 0 then normOdd fuel (m / 2) (e + 1) else (m, e)

def natToBytes (n : Nat) : Bytes := natsToBytes (be256 n)

/-- RealEncoder.encodeValue for `b = 2`, encbase 2 (BER default, CER/DER forced) -/
def realBinToContent (m : Int) (e : Int) : Option Bytes :=
  if m = 0 then some []
  else
    let (mo, eo) := normOdd m.natAbs m.natAbs e
    let ebytes := intToBytes eo
    let n := ebytes.length
    if n > 0xff then none
    else
      let fo := 0x80 + (if m < 0 then 0x40 else 0)
      let (fo, ebytes) :=
        if n = 1 then (fo, ebytes)
        else if n = 2 then (fo + 1, ebytes)
        else if n = 3 then (fo + 2, ebytes)
        else (fo + 3, UInt8.ofNat n :: ebytes)
      some (UInt8.ofNat fo :: (ebytes ++ natToBytes mo))

/-- RealPayloadDecoder.valueDecoder restricted to special values and binary forms.
    Character forms (`fo & 0xC0 = 0`) are reported as `.error .fuel` = "not modelled". -/
def realFromContent : Bytes → Res RealVal
  | [] => .ok (.fin 0 10 0)
  | fo :: chunk =>
    let f := fo.toNat
    if f ≥ 128 then
      match chunk with
      | [] => .error .malformed
      | c0 :: rest0 =>
        let n0 := f % 4 + 1
        let (n, chunk) := if n0 = 4 then (c0.toNat, rest0) else (n0, chunk)
        let eo := chunk.take n
        let mant := chunk.drop n
        if eo.isEmpty || mant.isEmpty then .error .malformed
        else
          let e := intFromBytes eo
          let b := f / 16 % 4
          if b > 2 then .error .malformed
          else
            let e := if b = 1 then e * 3 else if b = 2 then e * 4 else e
            let p : Int := bytesToNat mant
            let p := if f / 64 % 2 = 1 then -p else p
            let sf := f / 4 % 4
            .ok (.fin (p * 2 ^ sf) 2 e)
    else if f / 64 % 2 = 1 then .ok (if f % 2 = 1 then .minf else .pinf)
    else .error .fuel

end Asn1
