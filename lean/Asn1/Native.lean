/-
  Asn1.Native — the native-Python codec and the bare-value ("Python tree + asn1Spec")
  personality of the BER/CER/DER encoders.

  Mirrors (as the code is AFTER the C17 repairs):
    pyasn1/codec/native/encoder.py   *Encoder.encode            -> `toNative`
    pyasn1/codec/native/decoder.py   *PayloadDecoder.__call__   -> `fromNative`
    pyasn1/codec/ber/encoder.py      every `asn1Spec is not None` branch of the `encodeValue`s
    pyasn1/codec/cer/encoder.py      SetEncoder.encodeValue, bare-value branch
    pyasn1/codec/der/encoder.py      SetEncoder._componentSortKey, bare-value branch
                                                               -> `encValuePy`, `encodePy`
    pyasn1/type/univ.py              BitString.asBinary / fromBinaryString / prettyIn(str),
                                     ObjectIdentifier.prettyOut / prettyIn, the `__eq__`s the
                                     encoder uses to recognise a DEFAULT value -> text forms, `pyEq`

  Python objects are `PyVal`.  Component names are positional: the mapping key `i` stands for the
  name of the i-th declared component (the harness names them f0, f1, ...).  A Python `float`
  produced from / given for a REAL is kept as the exact value it stands for (`PyVal.real`); the
  conversion to an IEEE double is outside the model.  Text of character strings is not modelled
  (codecs are trusted): strings travel as `bytes`.
-/
import Asn1.Encoder
import Asn1.Typing
import Asn1.Generated
import Asn1.Time
import Asn1.Sexp

namespace Asn1

/-- built-in Python objects as far as the native codec and the bare-value encoders see them -/
inductive PyVal
  | none
  | bool (b : Bool)
  | int (z : Int)
  | bytes (bs : Bytes)
  | text (cs : List Char)                 -- `str`: '0101' of a BIT STRING, '1.3.6' of an OID
  | tuple (xs : List Int)                 -- tuple of ints (OID arcs, bits)
  | real (r : RealVal)                    -- float / (m, b, e) tuple: the exact value it denotes
  | list (xs : List PyVal)
  | dict (kvs : List (Nat × PyVal))       -- insertion-ordered mapping, key i = name of component i
deriving Inhabited

namespace Native

open Asn1.Time (dec pyInt)

/-! ### text forms -/

/-- `BitString.asBinary()` (after the repair: the empty bit string prints as `''`) -/
def bitsText (bs : List Bool) : List Char := bs.map fun b => if b then '1' else '0'

/-- `BitString.fromBinaryString` / `prettyIn(str)` on a string over {0,1} (the empty string is the
    empty bit string).  Other characters: `int(s, 2)` raises ValueError -> PyAsn1Error.  (CPython
    also accepts blanks, `_` and a `0b` prefix there; those inputs are outside the model.) -/
def parseBits : List Char → Except Err (List Bool)
  | [] => .ok []
  | c :: r =>
    if c = '0' then (parseBits r).map (false :: ·)
    else if c = '1' then (parseBits r).map (true :: ·)
    else .error .malformed

/-- `'.'.join(str(x) for x in value)` — ObjectIdentifier.prettyOut -/
def oidText : List Nat → List Char
  | [] => []
  | [a] => dec a
  | a :: rest => dec a ++ '.' :: oidText rest

/-- `str.split('.')` -/
def splitDots : List Char → List (List Char)
  | [] => [[]]
  | c :: r =>
    match splitDots r with
    | [] => [[c]]
    | s :: ss => if c = '.' then [] :: s :: ss else (c :: s) :: ss

/-- `[int(x) for x in ...]`, `none` = ValueError -/
def intsOf : List (List Char) → Option (List Int)
  | [] => some []
  | s :: r => match pyInt s, intsOf r with
    | some z, some zs => some (z :: zs)
    | _, _ => none

/-- `ObjectIdentifier.prettyIn(str)`: refuses '-', splits on '.', drops empty pieces, `int()`s the rest -/
def parseOid (cs : List Char) : Except Err (List Nat) :=
  if cs.contains '-' then .error .malformed
  else match intsOf ((splitDots cs).filter (fun s => !s.isEmpty)) with
    | some zs => .ok (zs.map Int.toNat)
    | none => .error .malformed

/-- `ObjectIdentifier.prettyIn(tuple)`: every arc must be `>= 0` -/
def arcsOfTuple (xs : List Int) : Except Err (List Nat) :=
  if xs.all (fun z => decide (0 ≤ z)) then .ok (xs.map Int.toNat) else .error .malformed

/-- `BitString.prettyIn(tuple/list)`: `''.join(b and '1' or '0' for b in value)` -/
def bitsOfTuple (xs : List Int) : List Bool := xs.map fun z => decide (z ≠ 0)

def _root_.Asn1.Val.isAbsent : Val → Bool
  | .absent => true
  | _ => false

/-- a member that is left out of the plain mapping: an absent OPTIONAL one, and (unless `give`) a
    DEFAULT one that holds its default -/
def skipTree (give : Bool) (k : FKind) (v : Val) : Bool :=
  match k, v with
  | .opt, .absent => true
  | .dflt d, v => !give && v == d
  | _, _ => false

/-! ### native encoder: value object -> built-ins -/

mutual
/-- `native.encoder.encode(value)`; dispatch is by `typeId`, so tags play no role -/
def toNative : Ty → Val → Except Err PyVal
  | .tagged _ _ _ t, v => toNative t v
  | .prim .boolean, .bool b => .ok (.bool b)                    -- BooleanEncoder: bool(value)
  | .prim .integer, .int z => .ok (.int z)                      -- IntegerEncoder: int(value)
  | .prim .enumerated, .int z => .ok (.int z)
  | .prim .bitString, .bits bs => .ok (.text (bitsText bs))     -- BitStringEncoder: str(value)
  | .prim .null, .null => .ok .none                             -- NullEncoder
  | .prim .oid, .oid arcs => .ok (.text (oidText arcs))         -- ObjectIdentifierEncoder: str(value)
  | .prim .real, .real r => .ok (.real r)                       -- RealEncoder: float(value)
  | .prim (.str _), .str bs => .ok (.bytes bs)                  -- OctetStringEncoder (TYPE_MAP row of every string type)
  | .seq fs, .seq vs => (toNativeFields fs 0 vs).map .dict      -- SequenceEncoder / SetEncoder
  | .set fs, .seq vs => (toNativeFields fs 0 vs).map .dict
  | .seqOf t, .seqOf vs => (allOk (vs.map fun v => toNative t v)).map .list
  | .setOf t, .seqOf vs => (allOk (vs.map fun v => toNative t v)).map .list
  | .choice fs, .choice i v => (toNativeAlt fs 0 i v).map fun p => .dict [p]   -- ChoiceEncoder
  | .any, .any bs => .ok (.bytes bs)                            -- AnyEncoder
  | _, _ => .error .refused
/-- `SetEncoder.encode`: every component except an OPTIONAL one that is not a value -/
def toNativeFields : Fields → Nat → List Val → Except Err (List (Nat × PyVal))
  | .nil, _, vs => if vs.isEmpty then .ok [] else .error .refused
  | .cons k t rest, i, vs =>
    match vs with
    | [] => .error .refused
    | v :: vs' =>
      if k.isOpt && v.isAbsent then toNativeFields rest (i + 1) vs'
      else
        match toNative t v with
        | .error e => .error e
        | .ok p => (toNativeFields rest (i + 1) vs').map ((i, p) :: ·)
def toNativeAlt : Fields → Nat → Nat → Val → Except Err (Nat × PyVal)
  | .nil, _, _, _ => .error .refused
  | .cons _ t _, pos, 0, v => (toNative t v).map (pos, ·)
  | .cons _ _ rest, pos, i + 1, v => toNativeAlt rest (pos + 1) i v
end

/-! ### native decoder: built-ins + spec -> value object -/

def lookupKey (i : Nat) : List (Nat × PyVal) → Option PyVal
  | [] => none
  | (k, p) :: rest => if k = i then some p else lookupKey i rest

/-- ChoicePayloadDecoder: the first key of the mapping that names an alternative decides;
    no such key: the CHOICE stays unset (not a value) -/
def firstAlt : List (Option (Except Err Val)) → Except Err Val
  | [] => .error .refused
  | some r :: _ => r
  | none :: rest => firstAlt rest

mutual
/-- `native.decoder.decode(pyObject, asn1Spec=T)` read back as abstract content.
    `.error` = the decoder raised, or its result is not a value (a mandatory component never set). -/
def fromNative : Ty → PyVal → Except Err Val
  | .tagged _ _ _ t, p => fromNative t p
  -- AbstractScalarPayloadDecoder: asn1Spec.clone(pyObject)
  | .prim .boolean, .bool b => .ok (.bool b)
  | .prim .boolean, .int z =>                     -- Boolean's SingleValueConstraint(0, 1)
    if z = 0 then .ok (.bool false) else if z = 1 then .ok (.bool true) else .error .refused
  | .prim .integer, .int z => .ok (.int z)
  | .prim .integer, .bool b => .ok (.int (if b then 1 else 0))
  | .prim .enumerated, .int z => .ok (.int z)
  | .prim .enumerated, .bool b => .ok (.int (if b then 1 else 0))
  | .prim .bitString, .text cs => (parseBits cs).map .bits    -- BitStringPayloadDecoder: fromBinaryString
  | .prim .null, .none => .ok .null                           -- Null.prettyIn: any falsy value
  | .prim .null, .bytes [] => .ok .null
  | .prim .null, .text [] => .ok .null
  | .prim .oid, .text cs => (parseOid cs).map .oid
  | .prim .oid, .tuple xs => (arcsOfTuple xs).map .oid
  | .prim .real, .real r => .ok (.real r)
  | .prim (.str _), .bytes bs => .ok (.str bs)
  | .seq fs, .dict kvs => (fromNativeFields fs 0 kvs).map .seq
  | .set fs, .dict kvs => (fromNativeFields fs 0 kvs).map .seq
  | .seqOf t, .list ps => (allOk (ps.map fun p => fromNative t p)).map .seqOf
  | .setOf t, .list ps => (allOk (ps.map fun p => fromNative t p)).map .seqOf
  | .choice fs, .dict kvs => firstAlt (kvs.map fun kp => fromNativeAlt fs kp.1 kp.1 kp.2)
  | .any, .bytes bs => .ok (.any bs)
  | _, _ => .error .refused
/-- SequenceOrSetPayloadDecoder: `for field in asn1Value: if field in pyObject: ...`; a component
    left unset reads as absent (OPTIONAL), as its default (DEFAULT), or makes the result a non-value -/
def fromNativeFields : Fields → Nat → List (Nat × PyVal) → Except Err (List Val)
  | .nil, _, _ => .ok []
  | .cons k t rest, i, kvs =>
    match lookupKey i kvs with
    | some p =>
      (match fromNative t p with
       | .error e => .error e
       | .ok v => (fromNativeFields rest (i + 1) kvs).map (v :: ·))
    | none =>
      match k with
      | .opt => (fromNativeFields rest (i + 1) kvs).map (Val.absent :: ·)
      | .dflt d => (fromNativeFields rest (i + 1) kvs).map (d :: ·)
      | .req => .error .refused
/-- decode `p` under alternative number `i` (`none` = no such alternative) -/
def fromNativeAlt : Fields → Nat → Nat → PyVal → Option (Except Err Val)
  | .nil, _, _, _ => none
  | .cons _ t _, idx, 0, p => some ((fromNative t p).map (Val.choice idx ·))
  | .cons _ _ rest, idx, i + 1, p => fromNativeAlt rest idx i p
end

/-! ### the plain-Python tree equivalent to a value -/

mutual
/-- the tree of built-ins that stands for `v`: mappings without the absent OPTIONAL members; a
    DEFAULT member holding its default is left out as well unless `give`. Scalars: bool, int,
    '0101' text, bytes, None, tuple of arcs, exact real. -/
def toTreeG (give : Bool) : Ty → Val → PyVal
  | .tagged _ _ _ t, v => toTreeG give t v
  | .prim .boolean, .bool b => .bool b
  | .prim .integer, .int z => .int z
  | .prim .enumerated, .int z => .int z
  | .prim .bitString, .bits bs => .text (bitsText bs)
  | .prim .null, .null => .none
  | .prim .oid, .oid arcs => .tuple (arcs.map Int.ofNat)
  | .prim .real, .real r => .real r
  | .prim (.str _), .str bs => .bytes bs
  | .seq fs, .seq vs => .dict (treeFields give fs 0 vs)
  | .set fs, .seq vs => .dict (treeFields give fs 0 vs)
  | .seqOf t, .seqOf vs => .list (vs.map fun v => toTreeG give t v)
  | .setOf t, .seqOf vs => .list (vs.map fun v => toTreeG give t v)
  | .choice fs, .choice i v => .dict (treeAlt give fs 0 i v)
  | .any, .any bs => .bytes bs
  | _, _ => .none
def treeFields (give : Bool) : Fields → Nat → List Val → List (Nat × PyVal)
  | .nil, _, _ => []
  | .cons k t rest, i, vs =>
    match vs with
    | [] => []
    | v :: vs' =>
      if skipTree give k v then treeFields give rest (i + 1) vs'
      else (i, toTreeG give t v) :: treeFields give rest (i + 1) vs'
def treeAlt (give : Bool) : Fields → Nat → Nat → Val → List (Nat × PyVal)
  | .nil, _, _, _ => []
  | .cons _ t _, pos, 0, v => [(pos, toTreeG give t v)]
  | .cons _ _ rest, pos, i + 1, v => treeAlt give rest (pos + 1) i v
end

def toTree : Ty → Val → PyVal := toTreeG false

/-! ### Python `==` between a bare value and the DEFAULT value object -/

/-- `Integer.__eq__`: `self._value == other` -/
def intEq (z : Int) : PyVal → Bool
  | .int z' => z == z'
  | .bool b => z == (if b then 1 else 0)
  | _ => false

/-- `BitString.prettyIn(other)` inside `BitString.__eq__` -/
def bitsOfPy : PyVal → Except Err (List Bool)
  | .text cs => parseBits cs
  | .tuple xs => .ok (bitsOfTuple xs)
  | _ => .error .refused          -- 'Bad BitString initializer type'

mutual
/-- `component == namedType.asn1Object` as the bare-value branches evaluate it: the reflected
    `__eq__` of the default value object `d : t` applied to the bare value.
    `.error` = `__eq__` raised. (`float(default)` overflowing in `Real.__eq__` is not modelled.) -/
def pyEq : Ty → Val → PyVal → Except Err Bool
  | .tagged _ _ _ t, d, p => pyEq t d p
  | .prim .boolean, .bool b, p => .ok (intEq (if b then 1 else 0) p)
  | .prim .integer, .int z, p => .ok (intEq z p)
  | .prim .enumerated, .int z, p => .ok (intEq z p)
  | .prim .bitString, .bits bs, p => (bitsOfPy p).map (fun bs' => bs == bs')
  | .prim .null, .null, p => .ok (match p with | .bytes [] => true | _ => false)     -- b'' == other
  | .prim .oid, .oid arcs, p =>                                                      -- tuple == other
    .ok (match p with | .tuple xs => xs == arcs.map Int.ofNat | _ => false)
  | .prim .real, .real r, p =>                                                       -- float(self) == other
    .ok (match r, p with
         | .pinf, .real .pinf => true
         | .minf, .real .minf => true
         | _, _ => false)           -- a finite bare REAL is an (m, b, e) tuple: never equal to a float
  | .prim (.str n), .str bs, p =>
    -- OctetString: bytes == other; character strings hold text, which bytes never equal
    .ok (match p with | .bytes bs' => n == 4 && bs == bs' | _ => false)
  | .seq _, _, _ => .ok false       -- list of components == other: never equal to a mapping
  | .set _, _, _ => .ok false
  | .seqOf t, .seqOf ds, .list ps =>
    if ds.length ≠ ps.length then .ok false
    else (ds.zip ps).foldl (fun acc dp =>
      match acc with
      | .ok true => pyEq t dp.1 dp.2
      | other => other) (.ok true)
  | .setOf t, .seqOf ds, .list ps =>
    if ds.length ≠ ps.length then .ok false
    else (ds.zip ps).foldl (fun acc dp =>
      match acc with
      | .ok true => pyEq t dp.1 dp.2
      | other => other) (.ok true)
  | .choice fs, .choice i dv, p => pyEqAlt fs i dv p          -- Choice.__eq__: the selected component == other
  | .any, .any bs, p => .ok (match p with | .bytes bs' => bs == bs' | _ => false)
  | _, _, _ => .ok false
def pyEqAlt : Fields → Nat → Val → PyVal → Except Err Bool
  | .nil, _, _, _ => .ok false
  | .cons _ t _, 0, dv, p => pyEq t dv p
  | .cons _ _ rest, i + 1, dv, p => pyEqAlt rest i dv p
end

/-- `namedType.isDefaulted and component == namedType.asn1Object` -/
def dfltEq (k : FKind) (t : Ty) (p : PyVal) : Except Err Bool :=
  match k with
  | .dflt d => pyEq t d p
  | _ => .ok false

/-! ### bare-value personality of the BER/CER/DER encoders -/

/-- number of alternatives whose name is a key of the mapping (`names = [... if name in value]`) -/
def countPresent : Fields → Nat → List (Nat × PyVal) → Nat
  | .nil, _, _ => 0
  | .cons _ _ rest, i, kvs => (if (lookupKey i kvs).isSome then 1 else 0) + countPresent rest (i + 1) kvs

mutual
/-- der `SetEncoder._componentSortKey`, bare-value branch for an untagged CHOICE member: descend
    through nested untagged CHOICEs to the tag set the value is encoded under -/
def effTagsPy : Ty → PyVal → Except Err TagSet
  | .choice fs, .dict kvs =>
    if countPresent fs 0 kvs ≠ 1 then .error .refused else effTagsPyAlts fs 0 kvs
  | .choice _, _ => .error .refused
  | t, _ => .ok t.tags
def effTagsPyAlts : Fields → Nat → List (Nat × PyVal) → Except Err TagSet
  | .nil, _, _ => .error .refused
  | .cons _ t rest, i, kvs =>
    match lookupKey i kvs with
    | some p => effTagsPy t p
    | none => effTagsPyAlts rest (i + 1) kvs
end

/-- sort key of one SET member given as a bare value -/
def setKeyPy (order : SetOrder) (t : Ty) (p : PyVal) : Except Err TagSet :=
  match t, order with
  | .choice fs, .dynamic => effTagsPy (.choice fs) p
  | .choice fs, _ => .ok (Ty.minTagSet (.choice fs))
  | t, _ => .ok t.tags

/-- truthiness of a bare value given for a BOOLEAN (ber: `value and (1,) or (0,)`, cer: `value == 0`) -/
def truthy : PyVal → Option Bool
  | .bool b => some b
  | .int z => some (z != 0)
  | _ => none

mutual
/-- `encodeValue(value, asn1Spec, ...)` with `asn1Spec is not None`: (substrate, isConstructed) -/
def encValuePy (cfg : EncCfg) (o : EncOpts) : Ty → PyVal → Except Err (Bytes × Bool)
  | .tagged _ _ _ t, p => encValuePy cfg o t p
  | .prim .boolean, p =>
    (match truthy p with
     | some b => .ok ([UInt8.ofNat (if b then cfg.boolTrue else 0)], false)
     | none => .error .refused)
  | .prim .integer, .int z => .ok (intToBytes z, false)
  | .prim .integer, .bool b => .ok (intToBytes (if b then 1 else 0), false)
  | .prim .enumerated, .int z => .ok (intToBytes z, false)
  | .prim .enumerated, .bool b => .ok (intToBytes (if b then 1 else 0), false)
  | .prim .null, _ => .ok ([], false)                         -- NullEncoder ignores the value
  -- the encoders below start with `value = asn1Spec.clone(value)` and go on as for a value object
  | .prim .bitString, p =>
    (match bitsOfPy p with
     | .ok bs => encValue cfg o (.prim .bitString) (.bits bs)
     | .error e => .error e)
  | .prim .oid, .tuple xs =>
    (match arcsOfTuple xs with
     | .ok arcs => encValue cfg o (.prim .oid) (.oid arcs)
     | .error e => .error e)
  | .prim .oid, .text cs =>
    (match parseOid cs with
     | .ok arcs => encValue cfg o (.prim .oid) (.oid arcs)
     | .error e => .error e)
  | .prim .real, .real r => encValue cfg o (.prim .real) (.real r)
  -- OctetStringEncoder: bytes are the substrate; fragments carry the base tag only
  | .prim (.str n), .bytes bs => encValue cfg o (.prim (.str n)) (.str bs)
  | .seq fs, .dict kvs => (encFieldsPy cfg o fs 0 kvs).map (·, true)
  | .set fs, .dict kvs =>
    (match cfg.setOrder with
     | .declared => (encFieldsPy cfg o fs 0 kvs).map (·, true)
     | ord =>
       match encSetMembersPy cfg o ord fs 0 kvs with
       | .error e => .error e
       | .ok ms =>
         let sorted := ms.mergeSort (fun a b => tagSetLe (outerKey a.1) (outerKey b.1))
         .ok ((sorted.map (·.2)).flatten, true))
  | .seqOf t, .list ps =>
    if cfg.seqOfIfNotEmpty && o.ifNotEmpty && ps.isEmpty then .ok ([], true)
    else
      let o' := { o with ifNotEmpty := false }
      (allOk (ps.map fun p => finishItem cfg o' t (encValuePy cfg o' t p))).map
        (fun cs => (cs.flatten, true))
  | .setOf t, .list ps =>
    let o' := { o with ifNotEmpty := false }
    (allOk (ps.map fun p => finishItem cfg o' t (encValuePy cfg o' t p))).map
      (fun cs => ((if cfg.sortSetOf then sortSetOfChunks cs else cs).flatten, true))
  | .choice fs, .dict kvs =>
    if countPresent fs 0 kvs ≠ 1 then .error .refused         -- 'None/Multiple components for Choice'
    else (encAltPy cfg o fs 0 kvs).map (·, true)
  | .any, .bytes bs => .ok (bs, !o.defMode)
  | _, _ => .error .refused
/-- `ChoiceEncoder.encodeValue`, bare-value branch: the one alternative whose name is a key -/
def encAltPy (cfg : EncCfg) (o : EncOpts) : Fields → Nat → List (Nat × PyVal) → Except Err Bytes
  | .nil, _, _ => .error .refused
  | .cons _ t rest, i, kvs =>
    match lookupKey i kvs with
    | some p => finishItem cfg o t (encValuePy cfg o t p)
    | none => encAltPy cfg o rest (i + 1) kvs
/-- ber `SequenceEncoder.encodeValue`, bare-value branch -/
def encFieldsPy (cfg : EncCfg) (o : EncOpts) : Fields → Nat → List (Nat × PyVal) → Except Err Bytes
  | .nil, _, _ => .ok []
  | .cons k t rest, i, kvs =>
    match lookupKey i kvs with
    | none =>
      -- an absent key of an OPTIONAL or DEFAULT component is skipped, of a mandatory one refused
      if k.isReq then .error .refused else encFieldsPy cfg o rest (i + 1) kvs
    | some p =>
      match dfltEq k t p with
      | .error e => .error e
      | .ok true => encFieldsPy cfg o rest (i + 1) kvs
      | .ok false =>
        let o' := if cfg.seqOmitEmpty then { o with ifNotEmpty := k.isOpt } else o
        match finishItem cfg o' t (encValuePy cfg o' t p) with
        | .error e => .error e
        | .ok b => (encFieldsPy cfg o' rest (i + 1) kvs).map (b ++ ·)
/-- cer/der `SetEncoder.encodeValue`, bare-value branch: (sort key, encoding) per given member -/
def encSetMembersPy (cfg : EncCfg) (o : EncOpts) (ord : SetOrder) :
    Fields → Nat → List (Nat × PyVal) → Except Err (List (TagSet × Bytes))
  | .nil, _, _ => .ok []
  | .cons k t rest, i, kvs =>
    match lookupKey i kvs with
    | none =>
      if k.isReq then .error .refused else encSetMembersPy cfg o ord rest (i + 1) kvs
    | some p =>
      match dfltEq k t p with
      | .error e => .error e
      | .ok true => encSetMembersPy cfg o ord rest (i + 1) kvs
      | .ok false =>
        let o' := { o with ifNotEmpty := k.isOpt }
        match setKeyPy ord t p with
        | .error e => .error e
        | .ok key =>
          match finishItem cfg o' t (encValuePy cfg o' t p) with
          | .error e => .error e
          | .ok b => (encSetMembersPy cfg o ord rest (i + 1) kvs).map ((key, b) :: ·)
end

/-- `encode(pyValue, asn1Spec=T, defMode=…, maxChunkSize=…)` -/
def encodePy (cfg : EncCfg) (o : EncOpts) (t : Ty) (p : PyVal) : Except Err Bytes :=
  let o := normOpts cfg o
  finishItem cfg o t (encValuePy cfg o t p)

/-! ### guards of the encoding-equivalence theorem -/

/-- member types whose DEFAULT comparison with a bare value can neither raise nor be decided through
    floats: scalar and not REAL (the complement is the region of findings T11 and T12) -/
def scalarNonReal : Ty → Bool
  | .tagged _ _ _ t => scalarNonReal t
  | .prim .real => false
  | .prim _ => true
  | _ => false

/-- member types for which `==` recognises the default in the form `toTree` gives it (bool, int,
    '0101' text, OCTET STRING bytes, arc tuple); character strings given as bytes and NULL given as
    None are not (finding D17) -/
def recognised : Ty → Bool
  | .tagged _ _ _ t => recognised t
  | .prim .boolean => true
  | .prim .integer => true
  | .prim .enumerated => true
  | .prim .bitString => true
  | .prim .oid => true
  | .prim (.str n) => n == 4
  | _ => false

/-- the guard one member carries: a DEFAULT member has a well-typed default of a scalar non-REAL
    type, of a recognised one when the tree gives members that hold their default -/
def memberOk (give : Bool) (k : FKind) (t : Ty) : Bool :=
  match k with
  | .dflt d => HasType t d && scalarNonReal t && (!give || recognised t)
  | _ => true

mutual
/-- every DEFAULT member anywhere in the type has a well-typed default of a scalar non-REAL type —
    and, when the tree gives members that hold their default (`give`), of a recognised one -/
def defaultsOk (give : Bool) : Ty → Bool
  | .tagged _ _ _ t => defaultsOk give t
  | .prim _ => true
  | .any => true
  | .seq fs => fieldsDefaultsOk give fs
  | .set fs => fieldsDefaultsOk give fs
  | .choice fs => fieldsDefaultsOk give fs
  | .seqOf t => defaultsOk give t
  | .setOf t => defaultsOk give t
def fieldsDefaultsOk (give : Bool) : Fields → Bool
  | .nil => true
  | .cons k t rest => memberOk give k t && defaultsOk give t && fieldsDefaultsOk give rest
end

/-! ### driver glue (not verified) -/

def textOut (cs : List Char) : String := if cs.isEmpty then "-" else String.ofList cs
def textArg (s : String) : List Char := if s = "-" then [] else s.toList

partial def pyStr : PyVal → String
  | .none => "none"
  | .bool b => s!"(b {if b then 1 else 0})"
  | .int z => s!"(i {z})"
  | .bytes bs => s!"(y {hexOut bs})"
  | .text cs => s!"(t {textOut cs})"
  | .tuple xs => "(tu" ++ String.join (xs.map fun x => s!" {x}") ++ ")"
  | .real .pinf => "(real pinf)"
  | .real .minf => "(real minf)"
  | .real (.fin m b e) => s!"(real {m} {b} {e})"
  | .list xs => "(l" ++ String.join (xs.map fun x => " " ++ pyStr x) ++ ")"
  | .dict kvs => "(d" ++ String.join (kvs.map fun kv => s!" ({kv.1} {pyStr kv.2})") ++ ")"

partial def pyOf : Sexp → Option PyVal
  | .atom "none" => some .none
  | .list [.atom "b", .atom x] => some (.bool (x = "1"))
  | .list [.atom "i", .atom x] => x.toInt?.map .int
  | .list [.atom "y", .atom x] => (hexArg x).map .bytes
  | .list [.atom "t", .atom x] => some (.text (textArg x))
  | .list (.atom "tu" :: xs) =>
    (xs.mapM fun (x : Sexp) => match x with | .atom a => a.toInt? | _ => none).map .tuple
  | .list [.atom "real", .atom "pinf"] => some (.real .pinf)
  | .list [.atom "real", .atom "minf"] => some (.real .minf)
  | .list [.atom "real", .atom m, .atom b, .atom e] => do
      pure (.real (.fin (← m.toInt?) (← b.toNat?) (← e.toInt?)))
  | .list (.atom "l" :: xs) => (xs.mapM pyOf).map .list
  | .list (.atom "d" :: xs) =>
    (xs.mapM fun (x : Sexp) => match x with
      | .list [.atom k, v] => do pure ((← k.toNat?), (← pyOf v))
      | _ => none).map .dict
  | _ => none

def errStr : Err → String
  | .underrun => "underrun" | .malformed => "malformed" | .refused => "refused" | .fuel => "fuel"

def cfgOf : String → Option EncCfg
  | "ber" => some Generated.berEnc | "cer" => some Generated.cerEnc | "der" => some Generated.derEnc
  | _ => none

def handle : List Sexp → Option String
  | [.atom "NATIVE_TO", t, v] => do
      let t ← tyOf t
      let v ← valOf v
      match toNative t v with
      | .ok p => some s!"ok {pyStr p}"
      | .error e => some s!"err {errStr e}"
  | [.atom "NATIVE_FROM", t, p] => do
      let t ← tyOf t
      let p ← pyOf p
      match fromNative t p with
      | .ok v => some s!"ok {valStr v}"
      | .error e => some s!"err {errStr e}"
  | [.atom "TREE", .atom give, t, v] => do
      let t ← tyOf t
      let v ← valOf v
      some s!"ok {pyStr (toTreeG (give = "1") t v)}"
  | [.atom "DEFAULTSOK", .atom give, t] => do
      let t ← tyOf t
      some s!"ok {if defaultsOk (give = "1") t then 1 else 0}"
  | [.atom "ENCPY", .atom codec, .atom dm, .atom chunk, t, p] => do
      let cfg ← cfgOf codec
      let t ← tyOf t
      let p ← pyOf p
      let o : EncOpts := { defMode := dm = "1", maxChunk := (← chunk.toNat?) }
      match encodePy cfg o t p with
      | .ok b => some s!"ok {hexOut b}"
      | .error e => some s!"err {errStr e}"
  | _ => none

end Native
end Asn1
