/-
  Asn1.Typing — `HasType`: a value is a complete value of a type (every mandatory component
  present, every component of its declared type), and `Ty.WF`, the side condition under which
  ASN.1 itself is unambiguous (distinct tags where the decoder dispatches on tags).
  Both are decidable (Bool-valued) so the driver can evaluate them.
-/
import Asn1.Schema

namespace Asn1

def realOk : RealVal → Bool
  | .fin _ b _ => b == 2 || b == 10
  | _ => true

mutual
/-- `v` is a complete value of `t` -/
def HasType : Ty → Val → Bool
  | .tagged _ _ _ t, v => HasType t v
  | .prim .boolean, .bool _ => true
  | .prim .integer, .int _ => true
  | .prim .enumerated, .int _ => true
  | .prim .bitString, .bits _ => true
  | .prim .null, .null => true
  | .prim .oid, .oid arcs => arcs.length ≥ 2
  | .prim .real, .real r => realOk r
  | .prim (.str _), .str _ => true
  | .seq fs, .seq vs => HasFields fs vs
  | .set fs, .seq vs => HasFields fs vs
  | .seqOf t, .seqOf vs => vs.all (fun v => HasType t v)
  | .setOf t, .seqOf vs => vs.all (fun v => HasType t v)
  | .choice fs, .choice i v => HasAlt fs i v
  | .any, .any _ => true
  | _, _ => false
/-- one value per declared component; `absent` only for OPTIONAL members -/
def HasFields : Fields → List Val → Bool
  | .nil, [] => true
  | .cons .opt _ rest, .absent :: vs => HasFields rest vs
  | .cons _ t rest, v :: vs => HasType t v && HasFields rest vs
  | _, _ => false
def HasAlt : Fields → Nat → Val → Bool
  | .nil, _, _ => false
  | .cons _ t _, 0, v => HasType t v
  | .cons _ _ rest, i + 1, v => HasAlt rest i v
end

/-- two tag lists share a tag (class and number) -/
def tagsOverlap (a b : List Tag) : Bool := a.any fun x => b.any fun y => x.same y

/-- `none` (= any tag, untagged ANY) overlaps everything -/
def outerOverlap : Option (List Tag) → Option (List Tag) → Bool
  | some a, some b => tagsOverlap a b
  | _, _ => true

/-- `tags` do not occur among the following members up to and including the next mandatory one -/
def windowFree (tags : Option (List Tag)) : Fields → Bool
  | .nil => tags.isSome
  | .cons .req t _ => !outerOverlap tags t.outerTags
  | .cons _ t rest => !outerOverlap tags t.outerTags && windowFree tags rest

/-- the window rule of SEQUENCE -/
def seqDistinct : Fields → Bool
  | .nil => true
  | .cons .req _ rest => seqDistinct rest
  | .cons _ t rest => windowFree t.outerTags rest && seqDistinct rest

def noneOverlap (tags : Option (List Tag)) : Fields → Bool
  | .nil => tags.isSome
  | .cons _ t rest => !outerOverlap tags t.outerTags && noneOverlap tags rest

def allDistinct : Fields → Bool
  | .nil => true
  | .cons _ t rest => noneOverlap t.outerTags rest && allDistinct rest

mutual
/-- well-formed type: EXPLICIT never UNIVERSAL; CHOICE alternatives and SET members have pairwise
    distinct outermost tags; in a SEQUENCE every OPTIONAL/DEFAULT member differs in tag from all
    members up to and including the next mandatory one; DEFAULT values are values of the member type -/
def Ty.WF : Ty → Bool
  | .tagged true cls _ t => cls != .universal && t.WF
  | .tagged false _ _ t => t.WF
  | .prim _ => true
  | .any => true
  | .seqOf t => t.WF
  | .setOf t => t.WF
  | .seq fs => Fields.WF fs && seqDistinct fs
  | .set fs => Fields.WF fs && allDistinct fs
  | .choice fs => Fields.WF fs && allDistinct fs && fs.length > 0
def Fields.WF : Fields → Bool
  | .nil => true
  | .cons (.dflt d) t rest => t.WF && HasType t d && Fields.WF rest
  | .cons _ t rest => t.WF && Fields.WF rest
end

end Asn1
