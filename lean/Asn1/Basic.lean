/-
  Asn1.Basic — bytes, big-endian digit strings, decoder result type.
  Mirrors pyasn1/compat/octets.py (ints2octs/octs2ints are the identity here: Bytes = List UInt8).
  No Mathlib imports: this file is linked into the compiled driver.
-/

abbrev Bytes := List UInt8

namespace Asn1

/-- Outcome classes of a decoder step, as the harness canonicalises them:
    `underrun`  = SubstrateUnderrunError / EndOfStreamError (insufficient data),
    `malformed` = any other PyAsn1Error raised by a decoder,
    `refused`   = PyAsn1Error raised by an encoder,
    `fuel`      = model ran out of fuel (never reachable: see `Proofs.Fuel`). -/
inductive Err
  | underrun
  | malformed
  | refused
  | fuel
deriving DecidableEq, Repr, Inhabited

abbrev Res (α : Type) := Except Err α

/-- big-endian digits of `n` in base `b+2`, most significant first; `[]` for 0. -/
def beDigits (b : Nat) (n : Nat) : List Nat :=
  if h : n = 0 then [] else beDigits b (n / (b + 2)) ++ [n % (b + 2)]
decreasing_by
  exact Nat.div_lt_self (Nat.pos_of_ne_zero h) (by omega)

/-- value of a big-endian digit string in base `b+2`. -/
def ofBeDigits (b : Nat) (ds : List Nat) : Nat :=
  ds.foldl (fun a d => a * (b + 2) + d) 0

/-- base-256 digits (`b = 254`) and base-128 digits (`b = 126`). -/
abbrev be256 (n : Nat) : List Nat := beDigits 254 n
abbrev be128 (n : Nat) : List Nat := beDigits 126 n
abbrev ofBe256 (ds : List Nat) : Nat := ofBeDigits 254 ds
abbrev ofBe128 (ds : List Nat) : Nat := ofBeDigits 126 ds

def natsToBytes (ds : List Nat) : Bytes := ds.map UInt8.ofNat
def bytesToNats (bs : Bytes) : List Nat := bs.map UInt8.toNat

/-- unsigned big-endian value of an octet string (`int.from_bytes(b, 'big')`). -/
def bytesToNat (bs : Bytes) : Nat := ofBe256 (bytesToNats bs)

/-- `read n`: exactly `n` octets or underrun (streaming.readFromStream on a complete input). -/
def readN (n : Nat) (bs : Bytes) : Res (Bytes × Bytes) :=
  if n ≤ bs.length then .ok (bs.take n, bs.drop n) else .error .underrun

def hexDigit (n : Nat) : Char :=
  if n < 10 then Char.ofNat (48 + n) else Char.ofNat (87 + n)

def toHex (bs : Bytes) : String :=
  String.ofList (bs.flatMap fun b => [hexDigit (b.toNat / 16), hexDigit (b.toNat % 16)])

def hexVal (c : Char) : Option Nat :=
  if '0' ≤ c ∧ c ≤ '9' then some (c.toNat - 48)
  else if 'a' ≤ c ∧ c ≤ 'f' then some (c.toNat - 87)
  else if 'A' ≤ c ∧ c ≤ 'F' then some (c.toNat - 55)
  else none

def ofHexChars : List Char → Option Bytes
  | [] => some []
  | [_] => none
  | a :: b :: rest => do
      let x ← hexVal a
      let y ← hexVal b
      let r ← ofHexChars rest
      pure (UInt8.ofNat (x * 16 + y) :: r)

def ofHex (s : String) : Option Bytes := ofHexChars s.toList

end Asn1
