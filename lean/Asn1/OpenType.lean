/-
  Asn1.OpenType — open types (ANY DEFINED BY): a record `SEQUENCE { id T_id, value [tag] ANY DEFINED BY id }`
  whose `value` field holds a *typed* inner value.
  Mirrors: the open-type branch of ber/encoder.py `SequenceEncoder.encodeValue` (the inner value is
  encoded in full with its own type, then goes where a ready-made ANY blob would go — untagged, or
  wrapped by the field's IMPLICIT / EXPLICIT tag; after /repo 0a48e69 the inner value is encoded
  with `ifNotEmpty` off) and the second pass of ber/decoder.py `ConstructedPayloadDecoderBase`
  (`decodeOpenTypes=True`: the governing value picks a type from the map — the caller's map overriding
  the default one is just another function here — and the captured octets are decoded with it by the
  same decoder; an unmapped governing value, or resolution switched off, leaves the octets).
-/
import Asn1.Encoder
import Asn1.Decoder

namespace Asn1

/-- tagging of the ANY field -/
inductive AnyTag
  | none
  | implicit (cls : TagClass) (num : Nat)
  | explicit (cls : TagClass) (num : Nat)
deriving DecidableEq, Repr, Inhabited

def AnyTag.ty : AnyTag → Ty
  | .none => .any
  | .implicit c n => .tagged false c n .any
  | .explicit c n => .tagged true c n .any

/-- `SEQUENCE { id idTy, value a ANY DEFINED BY id }` -/
def openSeqTy (idTy : Ty) (a : AnyTag) : Ty := .seq (.cons .req idTy (.cons .req a.ty .nil))

/-- encoding of the record holding the governing value `g` and the typed inner value `w : ti` -/
def encodeOpen (cfg : EncCfg) (o : EncOpts) (idTy : Ty) (a : AnyTag) (g : Val) (ti : Ty) (w : Val) :
    Except Err Bytes :=
  match encItem cfg { o with ifNotEmpty := false } ti w with
  | .error e => .error e
  | .ok chunk => encItem cfg o (openSeqTy idTy a) (.seq [g, .any chunk])

structure OpenResult where
  id : Val
  raw : Bytes              -- what the ANY field captured
  inner : Option Val       -- the inner value decoded as the mapped type
deriving Repr, Inhabited

/-- decoding with (`resolve`) or without open type resolution; `map` = the type map in force -/
def decodeOpen (dcfg : DecCfg) (idTy : Ty) (a : AnyTag) (map : Val → Option Ty) (resolve : Bool) (bs : Bytes) :
    Res (OpenResult × Bytes) :=
  match decodeOne dcfg (openSeqTy idTy a) bs with
  | .error e => .error e
  | .ok (.seq [g, .any raw], rest) =>
    if resolve then
      match map g with
      | none => .ok (⟨g, raw, none⟩, rest)
      | some ti =>
        match decodeOne dcfg ti raw with
        | .ok (w, _) => .ok (⟨g, raw, some w⟩, rest)
        | .error e => .error e
    else .ok (⟨g, raw, none⟩, rest)
  | .ok _ => .error .malformed

end Asn1
