/-
  Asn1.Decoder — the semantic layer of the guided decoders: a TLV tree read against a type.
  Mirrors, for well-formed input, what ber/decoder.py computes through
  `stGetValueDecoderByAsn1Spec` / `stTryAsExplicitTag` (tag matching, explicit unwrapping),
  the payload decoders (primitive kernels, fragment reassembly, component resolution by tag with
  OPTIONAL/DEFAULT skipping, SET lookup by tag, CHOICE dispatch, ANY capture) and the
  strictness switches of cer/decoder.py, der/decoder.py.
  `decodeOne` = `Decoder.__call__` (one element, remainder returned).
-/
import Asn1.TLV
import Asn1.Schema

namespace Asn1

def allStrKinds : List Nat := [4, 12, 18, 19, 20, 21, 22, 25, 26, 27, 28, 30, 7, 24, 23]

structure DecCfg where
  parse : ParseCfg := {}
  boolStrict : Bool := false          -- cer.BooleanPayloadDecoder installed for BOOLEAN
  consBits : Bool := true             -- BitStringPayloadDecoder.supportConstructedForm
  consStr : List Nat := allStrKinds   -- string kinds whose decoder has supportConstructedForm
deriving Repr, Inhabited

mutual
/-- one fragment of a constructed string: a primitive element with universal tag `num`, or
    (X.690 8.7.3) a constructed one holding further fragments -/
def decSegment (num : Nat) : TLV → Res Bytes
  | .prim _ tg c => if tg.cls = .universal ∧ tg.num = num then .ok c else .error .malformed
  | .cons _ tg _ cs =>
    if tg.cls = .universal ∧ tg.num = num then (decSegments num cs).map List.flatten
    else .error .malformed
/-- reassembly of a constructed string -/
def decSegments (num : Nat) : List TLV → Res (List Bytes)
  | [] => .ok []
  | t :: rest =>
    match decSegment num t with
    | .error e => .error e
    | .ok c => (decSegments num rest).map (c :: ·)
end

/-- BIT STRING fragments must be primitive in the model (nested constructed BIT STRING fragments
    are outside what the code reassembles correctly) -/
def decBitSegments : List TLV → Res (List Bytes)
  | [] => .ok []
  | .prim _ tg c :: rest =>
    if tg.cls = .universal ∧ tg.num = 3 then (decBitSegments rest).map (c :: ·)
    else .error .malformed
  | .cons .. :: _ => .error .malformed

def concatBitFrags : List Bytes → Res (List Bool)
  | [] => .ok []
  | f :: rest =>
    match bitsFromContent f with
    | .error e => .error e
    | .ok bs => (concatBitFrags rest).map (bs ++ ·)

/-- the scalar payload decoders -/
def decPrim (cfg : DecCfg) : PrimTy → TLV → Res Val
  | .boolean, .prim _ _ c =>
    if cfg.boolStrict then
      (match c with
       | [b] => if b = 0xFF then .ok (.bool true) else if b = 0 then .ok (.bool false)
                else .error .malformed
       | _ => .error .malformed)
    else .ok (.bool (intFromBytes c != 0))
  | .integer, .prim _ _ c => .ok (.int (intFromBytes c))
  | .enumerated, .prim _ _ c => .ok (.int (intFromBytes c))
  | .null, .prim _ _ c => if c.isEmpty then .ok .null else .error .malformed
  | .oid, .prim _ _ c => (oidFromContent c).map .oid
  | .real, .prim _ _ c => (realFromContent c).map .real
  | .bitString, .prim _ _ c => (bitsFromContent c).map .bits
  | .bitString, .cons _ _ indef cs =>
    if !indef && cs.isEmpty then .error .malformed      -- 'Empty BIT STRING substrate' (23 00)
    else if cfg.consBits then
      (match decBitSegments cs with
       | .error e => .error e
       | .ok frags => (concatBitFrags frags).map .bits)
    else .error .malformed
  | .str _, .prim _ _ c => .ok (.str c)
  | .str k, .cons _ _ _ cs =>
    if cfg.consStr.contains k then (decSegments 4 cs).map (fun fs => .str fs.flatten)
    else .error .malformed
  | _, .cons .. => .error .malformed           -- 'Simple tag format expected'

def univTag (t : Ty) : Option Tag :=
  match t with
  | .prim p => some ⟨.universal, false, p.univNum⟩
  | .seq _ => some ⟨.universal, true, 16⟩
  | .seqOf _ => some ⟨.universal, true, 16⟩
  | .set _ => some ⟨.universal, true, 17⟩
  | .setOf _ => some ⟨.universal, true, 17⟩
  | _ => none

/-- replace the `i`-th entry -/
def setAt : List Val → Nat → Val → List Val
  | [], _, _ => []
  | _ :: vs, 0, x => x :: vs
  | v :: vs, i + 1, x => v :: setAt vs i x

def defaultsOf : Fields → List Val
  | .nil => []
  | .cons (.dflt d) _ r => d :: defaultsOf r
  | .cons _ _ r => .absent :: defaultsOf r

def allPresent : Fields → List Val → Bool
  | .nil, _ => true
  | .cons .req _ _, .absent :: _ => false
  | .cons _ _ r, _ :: vs => allPresent r vs
  | .cons .., [] => false

mutual
/-- what an ANY can capture: the element's tag is not `[UNIVERSAL 0]` (the end-of-octets tag is in
    ANY's skip list), and — because an indefinite-length capture is collected fragment by fragment
    with the same rule — neither is the tag of any element reached through indefinite-length
    levels.  Definite-length contents are taken as they are. -/
def TLV.anyOk : TLV → Bool
  | .prim _ tg _ => !(tg.cls == .universal && tg.num == 0)
  | .cons _ tg indef cs => !(tg.cls == .universal && tg.num == 0) && (!indef || anyOkL cs)
def anyOkL : List TLV → Bool
  | [] => true
  | c :: cs => c.anyOk && anyOkL cs
end

mutual
/-- decode `tlv` as a value of `t`, checking its outermost tag -/
def decTy (cfg : DecCfg) : Ty → TLV → Res Val
  | .tagged true cls num t, tlv =>
    (match tlv with
     | .cons _ tg _ [child] =>
       if tg.cls = cls ∧ tg.num = num then decTy cfg t child else .error .malformed
     | _ => .error .malformed)
  | .tagged false cls num t, tlv =>
    if tlv.tag.cls = cls ∧ tlv.tag.num = num then decBody cfg t tlv else .error .malformed
  | .choice fs, tlv => decAlt cfg fs 0 tlv
  | .any, tlv =>
    -- the end-of-octets tag is in ANY's skip list (`Any.tagMap` skipTypes)
    if tlv.anyOk then .ok (.any tlv.ser) else .error .malformed
  | .prim p, tlv =>
    if tlv.tag.cls = .universal ∧ tlv.tag.num = p.univNum then decPrim cfg p tlv
    else .error .malformed
  | .seq fs, tlv =>
    if tlv.tag.cls = .universal ∧ tlv.tag.num = 16 then decBody cfg (.seq fs) tlv
    else .error .malformed
  | .seqOf t, tlv =>
    if tlv.tag.cls = .universal ∧ tlv.tag.num = 16 then decBody cfg (.seqOf t) tlv
    else .error .malformed
  | .set fs, tlv =>
    if tlv.tag.cls = .universal ∧ tlv.tag.num = 17 then decBody cfg (.set fs) tlv
    else .error .malformed
  | .setOf t, tlv =>
    if tlv.tag.cls = .universal ∧ tlv.tag.num = 17 then decBody cfg (.setOf t) tlv
    else .error .malformed
/-- decode `tlv` as a value of `t` whose outermost tag has been replaced (IMPLICIT) or checked -/
def decBody (cfg : DecCfg) : Ty → TLV → Res Val
  | .tagged true _ _ t, tlv =>
    (match tlv with
     | .cons _ _ _ [child] => decTy cfg t child
     | _ => .error .malformed)
  | .tagged false _ _ t, tlv => decBody cfg t tlv
  | .prim p, tlv => decPrim cfg p tlv
  | .seq fs, .cons _ _ _ cs => (decFields cfg fs cs).map .seq
  | .set fs, .cons _ _ _ cs =>
    (match decSet cfg fs cs (defaultsOf fs) with
     | .error e => .error e
     | .ok vs => if allPresent fs vs then .ok (.seq vs) else .error .malformed)
  | .seqOf t, .cons _ _ _ cs => (decElems cfg t cs).map .seqOf
  | .setOf t, .cons _ _ _ cs => (decElems cfg t cs).map .seqOf
  | .choice fs, .cons _ _ _ [child] => decAlt cfg fs 0 child    -- tagged CHOICE acts as explicit
  | .any, .prim _ _ c => .ok (.any c)
  | .any, .cons _ _ indef cs =>
    if !indef || anyOkL cs then .ok (.any (serList cs)) else .error .malformed
  | _, _ => .error .malformed
/-- CHOICE: the first alternative whose tag map holds the element's tag -/
def decAlt (cfg : DecCfg) : Fields → Nat → TLV → Res Val
  | .nil, _, _ => .error .malformed
  | .cons _ t rest, i, tlv =>
    if t.accepts tlv.tag then (decTy cfg t tlv).map (.choice i)
    else decAlt cfg rest (i + 1) tlv
/-- SEQUENCE components: positional, skipping OPTIONAL/DEFAULT members whose tag does not match -/
def decFields (cfg : DecCfg) : Fields → List TLV → Res (List Val)
  | .nil, [] => .ok []
  | .nil, _ :: _ => .error .malformed                       -- 'Excessive components'
  | .cons .req _ _, [] => .error .malformed                 -- 'uninitialized components'
  | .cons .opt _ rest, [] => (decFields cfg rest []).map (.absent :: ·)
  | .cons (.dflt d) _ rest, [] => (decFields cfg rest []).map (d :: ·)
  | .cons .req t rest, c :: cs =>
    (match decTy cfg t c with
     | .error e => .error e
     | .ok v => (decFields cfg rest cs).map (v :: ·))
  | .cons .opt t rest, c :: cs =>
    if t.accepts c.tag then
      (match decTy cfg t c with
       | .error e => .error e
       | .ok v => (decFields cfg rest cs).map (v :: ·))
    else (decFields cfg rest (c :: cs)).map (.absent :: ·)
  | .cons (.dflt d) t rest, c :: cs =>
    if t.accepts c.tag then
      (match decTy cfg t c with
       | .error e => .error e
       | .ok v => (decFields cfg rest cs).map (v :: ·))
    else (decFields cfg rest (c :: cs)).map (d :: ·)
/-- SET components: each element is looked up by tag among all members -/
def decSet (cfg : DecCfg) (fs : Fields) : List TLV → List Val → Res (List Val)
  | [], acc => .ok acc
  | c :: cs, acc =>
    match decMember cfg fs 0 c with
    | .error e => .error e
    | .ok (i, v) => decSet cfg fs cs (setAt acc i v)
def decMember (cfg : DecCfg) : Fields → Nat → TLV → Res (Nat × Val)
  | .nil, _, _ => .error .malformed
  | .cons _ t rest, i, tlv =>
    if t.accepts tlv.tag then (decTy cfg t tlv).map (i, ·)
    else decMember cfg rest (i + 1) tlv
def decElems (cfg : DecCfg) (t : Ty) : List TLV → Res (List Val)
  | [] => .ok []
  | c :: cs =>
    match decTy cfg t c with
    | .error e => .error e
    | .ok v => (decElems cfg t cs).map (v :: ·)
end

/-- `Decoder.__call__(substrate, asn1Spec=T)`: one element, then the unread remainder -/
def decodeOne (cfg : DecCfg) (t : Ty) (bs : Bytes) : Res (Val × Bytes) :=
  match parseOne cfg.parse bs with
  | .error e => .error e
  | .ok (tlv, rest) => (decTy cfg t tlv).map (·, rest)

def berDecCfg : DecCfg := {}
def cerDecCfg : DecCfg := { boolStrict := true }
def derDecCfg : DecCfg :=
  { parse := { allowIndef := false }, boolStrict := true, consBits := false, consStr := [] }

end Asn1
