/-
  Asn1.Schema — the schema universe `U` (types) and abstract values.
  Mirrors the shape of pyasn1/type/univ.py, char.py, useful.py, namedtype.py as far as the codecs
  observe it: base kind (codec choice by typeId), tag set, components with
  required / OPTIONAL / DEFAULT, nesting without bound.
-/
import Asn1.Prim

namespace Asn1

/-- scalar kinds. `str n` = any string-like type served by the OCTET STRING codec, identified by
    its universal tag number (4 OCTET STRING, 12 UTF8String, 18 NumericString, 19 PrintableString,
    20 TeletexString, 21 VideotexString, 22 IA5String, 25 GraphicString, 26 VisibleString,
    27 GeneralString, 28 UniversalString, 30 BMPString, 7 ObjectDescriptor, 24 GeneralizedTime,
    23 UTCTime). -/
inductive PrimTy
  | boolean | integer | enumerated | bitString | null | oid | real
  | str (num : Nat)
deriving DecidableEq, Repr, Inhabited

def PrimTy.univNum : PrimTy → Nat
  | .boolean => 1 | .integer => 2 | .bitString => 3 | .null => 5 | .oid => 6
  | .real => 9 | .enumerated => 10 | .str n => n

/-- abstract content (DESIGN §3.2). `absent` marks a missing OPTIONAL member of a record. -/
inductive Val
  | bool (b : Bool)
  | int (z : Int)
  | bits (bs : List Bool)
  | str (bs : Bytes)
  | null
  | oid (arcs : List Nat)
  | real (r : RealVal)
  | seq (vs : List Val)          -- SEQUENCE / SET: one entry per declared component
  | seqOf (vs : List Val)        -- SEQUENCE OF / SET OF
  | choice (idx : Nat) (v : Val)
  | any (bs : Bytes)             -- ANY: the complete encoding it stands for
  | absent
deriving Repr, Inhabited

mutual
def Val.beq : Val → Val → Bool
  | .bool a, .bool b => a == b
  | .int a, .int b => a == b
  | .bits a, .bits b => a == b
  | .str a, .str b => a == b
  | .null, .null => true
  | .oid a, .oid b => a == b
  | .real a, .real b => a == b
  | .seq a, .seq b => Val.beqList a b
  | .seqOf a, .seqOf b => Val.beqList a b
  | .choice i a, .choice j b => i == j && Val.beq a b
  | .any a, .any b => a == b
  | .absent, .absent => true
  | _, _ => false
def Val.beqList : List Val → List Val → Bool
  | [], [] => true
  | a :: as, b :: bs => Val.beq a b && Val.beqList as bs
  | _, _ => false
end

instance : BEq Val := ⟨Val.beq⟩

inductive FKind
  | req
  | opt
  | dflt (v : Val)
deriving Repr, Inhabited

def FKind.isReq : FKind → Bool | .req => true | _ => false
def FKind.isOpt : FKind → Bool | .opt => true | _ => false

mutual
inductive Ty
  | prim (p : PrimTy)
  | seq (fs : Fields)
  | set (fs : Fields)
  | seqOf (t : Ty)
  | setOf (t : Ty)
  | choice (fs : Fields)
  | any
  | tagged (explicit : Bool) (cls : TagClass) (num : Nat) (t : Ty)
inductive Fields
  | nil
  | cons (k : FKind) (t : Ty) (rest : Fields)
end

instance : Inhabited Ty := ⟨.prim .null⟩

def Fields.length : Fields → Nat
  | .nil => 0
  | .cons _ _ r => r.length + 1

def Fields.get? : Fields → Nat → Option (FKind × Ty)
  | .nil, _ => none
  | .cons k t _, 0 => some (k, t)
  | .cons _ _ r, n + 1 => r.get? n

/-- the base kind a type keeps through any amount of tagging (what `typeId` identifies) -/
def Ty.base : Ty → Ty
  | .tagged _ _ _ t => t.base
  | t => t

/-- pyasn1 `tagSet.superTags`: innermost (base) tag first, outermost last. -/
def Ty.tags : Ty → TagSet
  | .prim p => [⟨.universal, false, p.univNum⟩]
  | .seq _ => [⟨.universal, true, 16⟩]
  | .seqOf _ => [⟨.universal, true, 16⟩]
  | .set _ => [⟨.universal, true, 17⟩]
  | .setOf _ => [⟨.universal, true, 17⟩]
  | .choice _ => []
  | .any => []
  | .tagged true cls num t => t.tags ++ [⟨cls, true, num⟩]
  | .tagged false cls num t => TagSet.tagImplicitly t.tags cls false num

/-- the tags under which an encoding of the type may start (`tagMap` keys, outermost tag);
    `none` = anything (untagged ANY). -/
def Ty.outerTags : Ty → Option (List Tag)
  | .choice fs => Fields.outerTags fs
  | .any => none
  | t => match t.tags.getLast? with
    | some tg => some [tg]
    | none => match t with
      -- tagged CHOICE/ANY always have a tag, unreachable otherwise
      | _ => some []
where
  Fields.outerTags : Fields → Option (List Tag)
    | .nil => some []
    | .cons _ t r =>
      match t.outerTags, Fields.outerTags r with
      | some a, some b => some (a ++ b)
      | _, _ => none

def Ty.accepts (t : Ty) (tg : Tag) : Bool :=
  match t.outerTags with
  | none => true
  | some l => l.any (·.same tg)

end Asn1
