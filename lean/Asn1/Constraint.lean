/-
  Asn1.Constraint — executable model of pyasn1/type/constraint.py (as it is after the /repo fixes
  e45f9fd + f8fea03 `ConstraintsIntersection.isSuperTypeOf`, 317983f `ContainedSubtypeConstraint._setValues`,
  8df4c27 `subtype()` wraps a non-intersection subtypeSpec), of the constraint-related parts of
  type/base.py (`SimpleAsn1Type.__init__/clone/subtype`, `Asn1Type.isSameTypeWith/isSuperTypeOf`),
  of the subtype check in univ.py `setComponentByPosition` and of the `isInconsistent` gate in
  ber/encoder.py `SequenceEncoder` / `SequenceOfEncoder`.  DESIGN §5 C14.  Mathlib-free.

  A pyasn1 constraint object is a class plus the tuple `_values` of its operands; the model keeps
  exactly that shape (`Constr.mk cls ops`) so that `==` (class-blind comparison of `_values`),
  `hash`-and-`==` set membership (`_valueMap`) and truthiness (`bool(_values)`) are modelled once.

  A constraint *rejects* by raising `ValueConstraintError` (`Res.reject`), *accepts* by returning
  (`Res.accept`); a Python operation that raises something else (`len(5)`, `'a' < 1`, hashing a
  dict, `None.get`) is `Res.leak` — never totalised away.
-/
import Asn1.Tag
import Asn1.Sexp

namespace Asn1.Constraint

/-! ## values -/

/-- hashable Python values that occur as payloads and as plain constraint operands:
    `int`, `str` (code points), `bytes`, `None` (an absent component) -/
inductive Atom
  | int (z : Int)
  | str (cs : List Nat)
  | bytes (bs : List Nat)
  | none
deriving DecidableEq, Repr, Inhabited

/-- what a constraint is called with: a scalar payload (`SimpleAsn1Type.__init__` passes
    `prettyIn(value)`), the `{idx: component}` dict of a SEQUENCE OF / SET OF or the
    `{name: component}` dict of the present components of a SEQUENCE / SET (`isInconsistent`);
    components are abstracted to their scalar payloads -/
inductive CVal
  | atom (a : Atom)
  | coll (items : List Atom)
  | record (fields : List (String × Atom))
deriving DecidableEq, Repr, Inhabited

/-- `len(value)`; `none` = `TypeError` -/
def CVal.len : CVal → Option Nat
  | .atom (.str cs) => some cs.length
  | .atom (.bytes bs) => some bs.length
  | .coll items => some items.length
  | .record fs => some fs.length
  | _ => none

/-- what iterating the value yields (`set.issuperset(value)`): characters of a `str`, ints of a
    `bytes`, keys of a dict; `none` = `TypeError` (int, None are not iterable) -/
def CVal.elems : CVal → Option (List Atom)
  | .atom (.str cs) => some (cs.map fun c => .str [c])
  | .atom (.bytes bs) => some (bs.map fun b => .int (b : Nat))
  | .coll items => some ((List.range items.length).map fun k => .int (k : Nat))
  | .record fs => some (fs.map fun f => .str (f.1.toList.map Char.toNat))
  | _ => none

/-- `value.get(field)`; `none` = `AttributeError` (scalars have no `.get`) -/
def CVal.get (v : CVal) (name : String) : Option CVal :=
  match v with
  | .record fs => some (.atom ((fs.lookup name).getD .none))
  | .coll _ => some (.atom .none)
  | .atom _ => none

/-! ## constraint expressions -/

/-- the public constraint classes -/
inductive Cls
  | singleValue | containedSubtype | valueRange | valueSize | permittedAlphabet
  | componentPresent | componentAbsent | withComponents | innerType
  | exclusion | intersection | union
deriving DecidableEq, Repr, Inhabited

mutual
/-- a constraint object: its class and its `_values` -/
inductive Constr
  | mk (cls : Cls) (ops : Ops)
deriving DecidableEq
/-- the operand tuple: nested constraints, plain values, `(field, constraint)` pairs of
    WithComponentsConstraint, `(idx, constraint, status)` triples of InnerTypeConstraint -/
inductive Ops
  | nil
  | con (c : Constr) (rest : Ops)
  | raw (a : Atom) (rest : Ops)
  | field (name : String) (c : Constr) (rest : Ops)
  | entry (idx : Nat) (c : Constr) (absent : Bool) (rest : Ops)
deriving DecidableEq
end

instance : Inhabited Constr := ⟨.mk .intersection .nil⟩

def Ops.isNil : Ops → Bool
  | .nil => true
  | _ => false

/-- the plain operands, in order (`self._set` of SingleValue / PermittedAlphabet /
    ContainedSubtype) -/
def Ops.raws : Ops → List Atom
  | .nil => []
  | .raw a r => a :: r.raws
  | .con _ r => r.raws
  | .field _ _ r => r.raws
  | .entry _ _ _ r => r.raws

def Ops.hasCon : Ops → Bool
  | .nil => false
  | .con _ _ => true
  | .raw _ r => r.hasCon
  | .field _ _ r => r.hasCon
  | .entry _ _ _ r => r.hasCon

def Ops.hasEntry : Ops → Bool
  | .nil => false
  | .entry _ _ _ _ => true
  | .con _ r => r.hasEntry
  | .raw _ r => r.hasEntry
  | .field _ _ r => r.hasEntry

def Ops.hasKey : Ops → Nat → Bool
  | .nil, _ => false
  | .entry k _ _ r, j => k == j || r.hasKey j
  | .con _ r, j => r.hasKey j
  | .raw _ r, j => r.hasKey j
  | .field _ _ r, j => r.hasKey j

def Ops.append : Ops → Ops → Ops
  | .nil, t => t
  | .con c r, t => .con c (r.append t)
  | .raw a r, t => .raw a (r.append t)
  | .field f c r, t => .field f c (r.append t)
  | .entry i c a r, t => .entry i c a (r.append t)

def Ops.ofRaws : List Atom → Ops
  | [] => .nil
  | a :: r => .raw a (Ops.ofRaws r)

def Ops.ofCons : List Constr → Ops
  | [] => .nil
  | c :: r => .con c (Ops.ofCons r)

/-- readable constructors, one per public class -/
def singleValue (vs : List Atom) : Constr := .mk .singleValue (.ofRaws vs)
def containedSubtype (ops : Ops) : Constr := .mk .containedSubtype ops
def valueRange (lo hi : Int) : Constr := .mk .valueRange (.raw (.int lo) (.raw (.int hi) .nil))
def valueSize (lo hi : Int) : Constr := .mk .valueSize (.raw (.int lo) (.raw (.int hi) .nil))
def permittedAlphabet (xs : List Atom) : Constr := .mk .permittedAlphabet (.ofRaws xs)
def componentPresent : Constr := .mk .componentPresent .nil
def componentAbsent : Constr := .mk .componentAbsent .nil
def withComponents (fs : Ops) : Constr := .mk .withComponents fs
def innerType (ops : Ops) : Constr := .mk .innerType ops
def exclusion (cs : List Constr) : Constr := .mk .exclusion (.ofCons cs)
def intersection (cs : List Constr) : Constr := .mk .intersection (.ofCons cs)
def union (cs : List Constr) : Constr := .mk .union (.ofCons cs)

/-- `bool(constraint)` = `bool(self._values)`; ComponentPresent/Absent store a marker string -/
def Constr.truthy : Constr → Bool
  | .mk .componentPresent _ => true
  | .mk .componentAbsent _ => true
  | .mk _ ops => !ops.isNil

/-- `(start, stop)` of ValueRangeConstraint / ValueSizeConstraint -/
def bounds : Ops → Option (Int × Int)
  | .raw (.int lo) (.raw (.int hi) .nil) => some (lo, hi)
  | _ => none

/-! ## evaluation: `AbstractConstraint.__call__` and every `_testValue` -/

inductive Res
  | accept | reject | leak
deriving DecidableEq, Repr, Inhabited

/-- `if value not in self._set: raise ValueConstraintError`; a dict is unhashable -/
def inSet (s : List Atom) : CVal → Res
  | .atom a => if a ∈ s then .accept else .reject
  | _ => .leak

/-- `ValueRangeConstraint._testValue`: `value < start or value > stop` (int bounds) -/
def inRange (lo hi : Int) : CVal → Res
  | .atom (.int z) => if z < lo ∨ z > hi then .reject else .accept
  | _ => .leak

/-- `ValueSizeConstraint._testValue` -/
def inSize (lo hi : Int) (v : CVal) : Res :=
  match v.len with
  | some n => if (n : Int) < lo ∨ (n : Int) > hi then .reject else .accept
  | none => .leak

/-- `PermittedAlphabetConstraint._testValue`: `self._set.issuperset(value)` -/
def inAlphabet (s : List Atom) (v : CVal) : Res :=
  match v.elems with
  | some es => if es.all (fun e => decide (e ∈ s)) then .accept else .reject
  | none => .leak

/-- truthiness of InnerTypeConstraint's `__singleTypeConstraint` (the last non-tuple operand) -/
def lastConTruthy : Ops → Bool
  | .nil => false
  | .con c rest => if rest.hasCon then lastConTruthy rest else c.truthy
  | .raw _ rest => lastConTruthy rest
  | .field _ _ rest => lastConTruthy rest
  | .entry _ _ _ rest => lastConTruthy rest

mutual
/-- `constraint(value, idx)`: the empty-operand shortcut `if not self._values: return`, then the
    class's `_testValue` -/
def run : Constr → Option Nat → CVal → Res
  | .mk k ops, i, v =>
    match k with
    | .componentPresent => if v = .atom .none then .reject else .accept
    | .componentAbsent => if v = .atom .none then .accept else .reject
    | .singleValue => if ops.isNil then .accept else inSet ops.raws v
    | .permittedAlphabet => if ops.isNil then .accept else inAlphabet ops.raws v
    | .valueRange =>
      match bounds ops with
      | some (lo, hi) => inRange lo hi v
      | none => .leak
    | .valueSize =>
      match bounds ops with
      | some (lo, hi) => inSize lo hi v
      | none => .leak
    | .containedSubtype => if ops.isNil then .accept else runAll ops ops.raws i v
    | .intersection => if ops.isNil then .accept else runAll ops [] i v
    | .union => if ops.isNil then .accept else runAny ops i v
    | .exclusion => if ops.isNil then .accept else runNone ops i v
    | .withComponents => if ops.isNil then .accept else runFields ops v
    | .innerType =>
      if ops.isNil then .accept
      else if lastConTruthy ops then runLastCon ops v
      else if ops.hasEntry then
        (match i with
         | none => .reject
         | some j => runEntry ops j v)
      else .accept
/-- `for constraint in self._values: constraint(value, idx)` (ConstraintsIntersection), with the
    plain-operand branch of ContainedSubtypeConstraint (`elif value not in self._set`) -/
def runAll : Ops → List Atom → Option Nat → CVal → Res
  | .nil, _, _, _ => .accept
  | .con c rest, s, i, v =>
    match run c i v with
    | .accept => runAll rest s i v
    | r => r
  | .raw _ rest, s, i, v =>
    match inSet s v with
    | .accept => runAll rest s i v
    | r => r
  | .field _ _ _, _, _, _ => .leak
  | .entry _ _ _ _, _, _, _ => .leak
/-- ConstraintsUnion: the first operand that does not raise wins -/
def runAny : Ops → Option Nat → CVal → Res
  | .nil, _, _ => .reject
  | .con c rest, i, v =>
    match run c i v with
    | .accept => .accept
    | .reject => runAny rest i v
    | .leak => .leak
  | .raw _ _, _, _ => .leak
  | .field _ _ _, _, _ => .leak
  | .entry _ _ _ _, _, _ => .leak
/-- ConstraintsExclusion: every operand must raise -/
def runNone : Ops → Option Nat → CVal → Res
  | .nil, _, _ => .accept
  | .con c rest, i, v =>
    match run c i v with
    | .accept => .reject
    | .reject => runNone rest i v
    | .leak => .leak
  | .raw _ _, _, _ => .leak
  | .field _ _ _, _, _ => .leak
  | .entry _ _ _ _, _, _ => .leak
/-- WithComponentsConstraint: `for field, constraint in self._values: constraint(value.get(field))` -/
def runFields : Ops → CVal → Res
  | .nil, _ => .accept
  | .field f c rest, v =>
    match v.get f with
    | none => .leak
    | some x =>
      match run c none x with
      | .accept => runFields rest v
      | r => r
  | .con _ _, _ => .leak
  | .raw _ _, _ => .leak
  | .entry _ _ _ _, _ => .leak
/-- InnerTypeConstraint, single mode: `self.__singleTypeConstraint(value)` (last non-tuple operand) -/
def runLastCon : Ops → CVal → Res
  | .nil, _ => .accept
  | .con c rest, v => if rest.hasCon then runLastCon rest v else run c none v
  | .entry _ _ _ rest, v => runLastCon rest v
  | .raw _ _, _ => .leak
  | .field _ _ _, _ => .leak
/-- InnerTypeConstraint, multiple mode: `idx not in map` rejects, status `'ABSENT'` rejects, else
    the constraint stored last under `idx` decides -/
def runEntry : Ops → Nat → CVal → Res
  | .nil, _, _ => .reject
  | .entry k c ab rest, j, v =>
    if rest.hasKey j then runEntry rest j v
    else if k = j then (if ab then .reject else run c none v)
    else .reject
  | .con _ rest, j, v => runEntry rest j v
  | .raw _ _, _, _ => .leak
  | .field _ _ _, _, _ => .leak
end

/-- pyasn1 `c(value)` did not raise -/
def eval (c : Constr) (i : Option Nat) (v : CVal) : Bool := run c i v == .accept

/-! ## set-theoretic denotation (written independently of `run`: membership, ∧, ∨, ¬) -/

mutual
def den : Constr → Option Nat → CVal → Prop
  | .mk k ops, i, v =>
    match k with
    | .componentPresent => v ≠ .atom .none
    | .componentAbsent => v = .atom .none
    | .singleValue => ops = .nil ∨ ∃ a, v = .atom a ∧ a ∈ ops.raws
    | .permittedAlphabet => ops = .nil ∨ ∃ es, v.elems = some es ∧ ∀ e ∈ es, e ∈ ops.raws
    | .valueRange => ∃ lo hi z, bounds ops = some (lo, hi) ∧ v = .atom (.int z) ∧ lo ≤ z ∧ z ≤ hi
    | .valueSize => ∃ lo hi n, bounds ops = some (lo, hi) ∧ v.len = some n ∧ lo ≤ (n : Int) ∧ (n : Int) ≤ hi
    | .containedSubtype => ops = .nil ∨ denAll ops ops.raws i v
    | .intersection => ops = .nil ∨ denAll ops [] i v
    | .union => ops = .nil ∨ denAny ops i v
    | .exclusion => ops = .nil ∨ ¬ denAny ops i v
    | .withComponents => ops = .nil ∨ denFields ops v
    | .innerType =>
      ops = .nil ∨
        (if lastConTruthy ops then denLastCon ops v
         else if ops.hasEntry then ∃ j, i = some j ∧ denEntry ops j v
         else True)
/-- ⋂ of the operands; a plain operand of a contained subtype stands for "one of the plain values" -/
def denAll : Ops → List Atom → Option Nat → CVal → Prop
  | .nil, _, _, _ => True
  | .con c rest, s, i, v => den c i v ∧ denAll rest s i v
  | .raw _ rest, s, i, v => (∃ a, v = .atom a ∧ a ∈ s) ∧ denAll rest s i v
  | .field _ _ _, _, _, _ => False
  | .entry _ _ _ _, _, _, _ => False
/-- ⋃ of the operands -/
def denAny : Ops → Option Nat → CVal → Prop
  | .nil, _, _ => False
  | .con c rest, i, v => den c i v ∨ denAny rest i v
  | .raw _ _, _, _ => False
  | .field _ _ _, _, _ => False
  | .entry _ _ _ _, _, _ => False
/-- every listed component (its value, or `None` when absent) is in its constraint's set -/
def denFields : Ops → CVal → Prop
  | .nil, _ => True
  | .field f c rest, v => (∃ x, v.get f = some x ∧ den c none x) ∧ denFields rest v
  | .con _ _, _ => False
  | .raw _ _, _ => False
  | .entry _ _ _ _, _ => False
def denLastCon : Ops → CVal → Prop
  | .nil, _ => True
  | .con c rest, v => if rest.hasCon then denLastCon rest v else den c none v
  | .entry _ _ _ rest, v => denLastCon rest v
  | .raw _ _, _ => False
  | .field _ _ _, _ => False
def denEntry : Ops → Nat → CVal → Prop
  | .nil, _, _ => False
  | .entry k c ab rest, j, v =>
    if rest.hasKey j then denEntry rest j v
    else k = j ∧ ab = false ∧ den c none v
  | .con _ rest, j, v => denEntry rest j v
  | .raw _ _, _, _ => False
  | .field _ _ _, _, _ => False
end

/-! ## what can be constructed, and where a constraint is applicable -/

/-- which operand kinds a class takes (the documented call shapes) -/
structure Shape where
  con : Bool
  raw : Bool
  field : Bool
  entry : Bool

def Cls.shape : Cls → Shape
  | .singleValue | .permittedAlphabet | .valueRange | .valueSize => ⟨false, true, false, false⟩
  | .containedSubtype => ⟨true, true, false, false⟩
  | .componentPresent | .componentAbsent => ⟨false, false, false, false⟩
  | .withComponents => ⟨false, false, true, false⟩
  | .innerType => ⟨true, false, false, true⟩
  | .exclusion | .intersection | .union => ⟨true, false, false, false⟩

mutual
/-- the constructor call succeeds and has a documented shape
    (`ValueRangeConstraint._setValues`: two values, `start <= stop`;
     `ComponentPresentConstraint._setValues`: no arguments) -/
def Constr.wf : Constr → Bool
  | .mk k ops =>
    wfOps k.shape ops &&
      (match k with
       | .valueRange | .valueSize =>
         (match bounds ops with
          | some (lo, hi) => decide (lo ≤ hi)
          | none => false)
       | _ => true)
def wfOps : Shape → Ops → Bool
  | _, .nil => true
  | sh, .con c rest => sh.con && c.wf && wfOps sh rest
  | sh, .raw _ rest => sh.raw && wfOps sh rest
  | sh, .field _ c rest => sh.field && c.wf && wfOps sh rest
  | sh, .entry _ c _ rest => sh.entry && c.wf && wfOps sh rest
end

def CVal.isAtom : CVal → Bool
  | .atom _ => true
  | _ => false

def CVal.isInt : CVal → Bool
  | .atom (.int _) => true
  | _ => false

mutual
/-- the constraint is applicable to the value (the property's domain: ranges are asked of
    integers, sizes of sized values, alphabets of iterables, components of mappings) -/
def typed : Constr → CVal → Bool
  | .mk k ops, v =>
    match k with
    | .componentPresent => true
    | .componentAbsent => true
    | .singleValue => ops.isNil || v.isAtom
    | .permittedAlphabet => ops.isNil || v.elems.isSome
    | .valueRange => v.isInt
    | .valueSize => v.len.isSome
    | .containedSubtype => typedOps ops v && (ops.raws.isEmpty || v.isAtom)
    | .intersection => typedOps ops v
    | .union => typedOps ops v
    | .exclusion => typedOps ops v
    | .withComponents => ops.isNil || typedFields ops v
    | .innerType => typedOps ops v
def typedOps : Ops → CVal → Bool
  | .nil, _ => true
  | .con c rest, v => typed c v && typedOps rest v
  | .raw _ rest, v => typedOps rest v
  | .field _ _ rest, v => typedOps rest v
  | .entry _ c _ rest, v => typed c v && typedOps rest v
def typedFields : Ops → CVal → Bool
  | .nil, _ => true
  | .field f c rest, v =>
    (match v.get f with
     | some x => typed c x
     | none => false) && typedFields rest v
  | .con _ rest, v => typedFields rest v
  | .raw _ rest, v => typedFields rest v
  | .entry _ _ _ rest, v => typedFields rest v
end

/-! ## derivation bookkeeping: `_setValues` / `getValueMap` / `isSuperTypeOf` / `isSubTypeOf` -/

mutual
/-- `getValueMap()`: filled only by `AbstractConstraintSet._setValues` (intersection, union):
    every truthy operand and everything in the operand's own map.  Set membership is
    hash-and-`==`; the hash covers the class name, so it is structural equality. -/
def valueMap : Constr → List Constr
  | .mk k ops =>
    match k with
    | .intersection => collect ops
    | .union => collect ops
    | _ => []
def collect : Ops → List Constr
  | .nil => []
  | .con c rest => if c.truthy then c :: (valueMap c ++ collect rest) else collect rest
  | .raw _ rest => collect rest
  | .field _ _ rest => collect rest
  | .entry _ _ _ rest => collect rest
end

/-- ComponentPresent / ComponentAbsent store different marker strings as `_values` -/
def Cls.marker : Cls → Nat
  | .componentPresent => 1
  | .componentAbsent => 2
  | _ => 0

mutual
/-- `a == b` on constraint objects: `AbstractConstraint.__eq__` compares the `_values` tuples and
    ignores the class -/
def pyEq : Constr → Constr → Bool
  | .mk k1 o1, .mk k2 o2 => k1.marker == k2.marker && opsEq o1 o2
def opsEq : Ops → Ops → Bool
  | .nil, .nil => true
  | .con a r, .con b s => pyEq a b && opsEq r s
  | .raw a r, .raw b s => a == b && opsEq r s
  | .field f a r, .field g b s => f == g && pyEq a b && opsEq r s
  | .entry i a x r, .entry j b y s => i == j && pyEq a b && x == y && opsEq r s
  | _, _ => false
end

/-- `AbstractConstraint.isSuperTypeOf` (after fix 5ea3865):
    `other is self or not self._values or (hash(other) == hash(self) and other == self)
     or self in other.getValueMap()` — equal hash and `==` is structural equality (the class counts) -/
def baseIsSuperTypeOf (self other : Constr) : Bool :=
  !self.truthy || decide (other = self) || decide (self ∈ valueMap other)

mutual
/-- `ConstraintsIntersection._isImposedBy(constraint, other)` (fixes f8fea03, a3e4c68): equal hash and
    `==` (the membership test of the value map: structural equality, the class counts), or `other`
    is an intersection and one of its operands imposes it.  Unions are not entered. -/
def imposedBy (c : Constr) : Constr → Bool
  | .mk k ops => decide (c = .mk k ops) || (k == .intersection && imposedByOps c ops)
def imposedByOps (c : Constr) : Ops → Bool
  | .nil => false
  | .con d rest => imposedBy c d || imposedByOps c rest
  | .raw _ rest => imposedByOps c rest
  | .field _ _ rest => imposedByOps c rest
  | .entry _ _ _ rest => imposedByOps c rest
end

/-- the loop of `ConstraintsIntersection.isSuperTypeOf` (fixes e45f9fd, f8fea03, a3e4c68): every truthy
    operand is imposed by the other constraint -/
def imposedAll : Ops → Constr → Bool
  | .nil, _ => true
  | .con c rest, other => (!c.truthy || imposedBy c other) && imposedAll rest other
  | .raw _ _, _ => false
  | .field _ _ _, _ => false
  | .entry _ _ _ _, _ => false

def isSuperTypeOf (self other : Constr) : Bool :=
  match self with
  | .mk .intersection ops => baseIsSuperTypeOf self other || imposedAll ops other
  | _ => baseIsSuperTypeOf self other

/-- `AbstractConstraint.isSubTypeOf` (after fix 5ea3865):
    `other is self or not self or (hash(other) == hash(self) and other == self) or other in self._valueMap` -/
def isSubTypeOf (self other : Constr) : Bool :=
  !self.truthy || decide (other = self) || decide (other ∈ valueMap self)

/-- `subtypeSpec + extra` as `subtype()` computes it: `ConstraintsIntersection.__add__` appends to
    the operand tuple; any other subtypeSpec is first wrapped into an intersection (fix 8df4c27) -/
def derive (parent extra : Constr) : Constr :=
  match parent with
  | .mk .intersection ops => .mk .intersection (ops.append (.con extra .nil))
  | p => .mk .intersection (.con p (.con extra .nil))

/-- `subtype()` without a `subtypeSpec` argument keeps the constraint set -/
def deriveOpt (c : Constr) : Option Constr → Constr
  | some e => derive c e
  | none => c

def deriveChain (parent : Constr) : List Constr → Constr
  | [] => parent
  | e :: es => deriveChain (derive parent e) es

/-- `ConstructedAsn1Type._moveSizeSpec` (after fixes b99ccc0, 6dc686b, 63bd1d5): a legacy `sizeSpec` is added to the
    subtypeSpec unless the subtypeSpec already imposes it (cloning passes the moved one back in) -/
def moveSizeSpec (subtypeSpec sizeSpec : Constr) : Constr :=
  if !sizeSpec.truthy then subtypeSpec
  else if !subtypeSpec.truthy then derive subtypeSpec sizeSpec
  else if !imposedBy sizeSpec subtypeSpec then
    .mk .intersection (.con subtypeSpec (.con sizeSpec .nil))
  else subtypeSpec

/-! ## types: tags + constraints (`Asn1Type.isSameTypeWith / isSuperTypeOf`, `subtype`) -/

structure STy where
  tags : TagSet
  spec : Constr
deriving DecidableEq

/-- `TagSet.isSuperTagSetOf`: own tags are a prefix of the other's (tags compare on class+id) -/
def isSuperTagSetOf (a b : TagSet) : Bool :=
  decide (a.length ≤ b.length) && TagSet.same a (b.take a.length)

def STy.isSuperTypeOf (a b : STy) : Bool :=
  isSuperTagSetOf a.tags b.tags && Constraint.isSuperTypeOf a.spec b.spec

/-- `Asn1Type.isSameTypeWith` (after fix 9c46fea): equal tag sets, and constraint sets with equal hash
    and `==`, i.e. structurally equal -/
def STy.isSameTypeWith (a b : STy) : Bool :=
  TagSet.same a.tags b.tags && decide (a.spec = b.spec)

inductive Tagging
  | none
  | explicit (cls : TagClass) (num : Nat)
  | implicit (cls : TagClass) (num : Nat)

/-- `subtype(implicitTag=…/explicitTag=…, subtypeSpec=…)` on the type level;
    `none` = `tagExplicitly` refuses a UNIVERSAL tag -/
def STy.subtype (t : STy) (tg : Tagging) (extra : Option Constr) : Option STy :=
  let spec := deriveOpt t.spec extra
  match tg with
  | .none => some ⟨t.tags, spec⟩
  | .explicit c n => (t.tags.tagExplicitly c n).map fun ts => ⟨ts, spec⟩
  | .implicit c n => some ⟨t.tags.tagImplicitly c false n, spec⟩

/-- the check `setComponentByPosition` runs before storing a value object in a SEQUENCE field /
    SEQUENCE OF element declared with `fieldTy` (`strictConstraints` picks `isSameTypeWith`) -/
def assignable (strict : Bool) (fieldTy valueTy : STy) : Bool :=
  if strict then fieldTy.isSameTypeWith valueTy else fieldTy.isSuperTypeOf valueTy

/-! ## scalar value objects: everything goes through `__init__` -/

structure Scalar where
  ty : STy
  value : Atom

/-- `SimpleAsn1Type.__init__(value, **kwargs)` with a value: `self.subtypeSpec(prettyIn(value))`;
    a PyAsn1Error is re-raised (`reject`), anything else propagates (`leak`) -/
def mkScalar (ty : STy) (a : Atom) : Except Res Scalar :=
  match run ty.spec none (.atom a) with
  | .accept => .ok ⟨ty, a⟩
  | r => .error r

/-- `x.clone(value)`: `self.__class__(value, **readOnly)` -/
def Scalar.clone (x : Scalar) (value : Option Atom) : Except Res Scalar :=
  mkScalar x.ty (value.getD x.value)

/-- `x.subtype(value, implicitTag/explicitTag=…, subtypeSpec=…)` -/
def Scalar.subtype (x : Scalar) (value : Option Atom) (tg : Tagging) (extra : Option Constr) :
    Except Res Scalar :=
  match x.ty.subtype tg extra with
  | some ty => mkScalar ty (value.getD x.value)
  | none => .error .reject

/-- every arithmetic / slicing / concatenation / repetition method of Integer, BitString,
    OctetString and the character strings is `return self.clone(<expression over self._value>)`;
    `f` is that expression (`none`: it raised, e.g. ZeroDivisionError) -/
def Scalar.applyOp (x : Scalar) (f : Atom → Option Atom) : Except Res Scalar :=
  match f x.value with
  | some a => mkScalar x.ty a
  | none => .error .leak

/-- decoders create scalar components with `asn1Spec.clone(value)` (`_createComponent`) -/
def decodeScalar (ty : STy) (payload : Atom) : Except Res Scalar := mkScalar ty payload

/-- some of the payload expressions, for examples and the driver -/
def pyAdd (k : Int) : Atom → Option Atom
  | .int z => some (.int (z + k))
  | _ => none
def pyNeg : Atom → Option Atom
  | .int z => some (.int (-z))
  | _ => none
def pySlice (lo hi : Nat) : Atom → Option Atom
  | .bytes bs => some (.bytes ((bs.take hi).drop lo))
  | .str cs => some (.str ((cs.take hi).drop lo))
  | _ => none
def pyConcat (t : List Nat) : Atom → Option Atom
  | .bytes bs => some (.bytes (bs ++ t))
  | .str cs => some (.str (cs ++ t))
  | _ => none
def pyRepeat (n : Nat) : Atom → Option Atom
  | .bytes bs => some (.bytes (List.replicate n bs).flatten)
  | .str cs => some (.str (List.replicate n cs).flatten)
  | _ => none

/-! ## constructed values: the `isInconsistent` gate of the encoders -/

/-- `SequenceOfAndSetOfBase.isInconsistent` / `SequenceAndSetBase.isInconsistent` followed by
    `if inconsistency: raise inconsistency` in `SequenceEncoder.encodeValue` /
    `SequenceOfEncoder._encodeComponents` (ber; cer and der inherit or repeat it):
    `accept` = encoding goes on, `reject` = PyAsn1Error raised -/
def encodeGate (spec : Constr) (mapping : CVal) : Res :=
  if !spec.truthy then .accept else run spec none mapping

/-! ## driver glue (not verified) -/

def codesOf (s : String) : Option (List Nat) :=
  if s = "-" then some [] else (s.splitOn ".").mapM String.toNat?

def atomOf : Sexp → Option Atom
  | .atom "none" => some .none
  | .list [.atom "i", .atom x] => x.toInt?.map .int
  | .list [.atom "s", .atom x] => (codesOf x).map .str
  | .list [.atom "b", .atom x] => (codesOf x).map .bytes
  | .atom x => x.toInt?.map .int
  | _ => none

def clsOfName : String → Option Cls
  | "sv" => some .singleValue | "cs" => some .containedSubtype | "vr" => some .valueRange
  | "vs" => some .valueSize | "pa" => some .permittedAlphabet | "present" => some .componentPresent
  | "absent" => some .componentAbsent | "wc" => some .withComponents | "it" => some .innerType
  | "ex" => some .exclusion | "and" => some .intersection | "or" => some .union
  | _ => none

mutual
partial def constrOf : Sexp → Option Constr
  | .list (.atom k :: xs) => do
      let cls ← clsOfName k
      let ops ← opsOf xs
      pure (.mk cls ops)
  | _ => none
partial def opsOf : List Sexp → Option Ops
  | [] => some .nil
  | x :: rest => do
      let r ← opsOf rest
      match x with
      | .list [.atom "f", .atom name, c] => pure (.field name (← constrOf c) r)
      | .list [.atom "e", .atom idx, c, .atom ab] => pure (.entry (← idx.toNat?) (← constrOf c) (ab = "1") r)
      | _ =>
        match atomOf x with
        | some a => pure (.raw a r)
        | none => pure (.con (← constrOf x) r)
end

def cvalOf : Sexp → Option CVal
  | .list (.atom "coll" :: xs) => (xs.mapM atomOf).map .coll
  | .list (.atom "rec" :: xs) =>
      (xs.mapM fun (x : Sexp) =>
        match x with
        | .list [.atom n, a] => (atomOf a).map fun v => (n, v)
        | _ => none).map .record
  | x => (atomOf x).map .atom

def resStr : Res → String
  | .accept => "accept" | .reject => "reject" | .leak => "leak"

def b01 (b : Bool) : String := if b then "1" else "0"

def idxOf (s : String) : Option (Option Nat) :=
  if s = "none" then some none else s.toNat?.map some

def handle : List Sexp → Option String
  | [.atom "CONSTR_EVAL", c, v] => do
      let c ← constrOf c
      let v ← cvalOf v
      if !c.wf then some "err construct"
      else some s!"ok {resStr (run c none v)} {b01 (typed c v)}"
  | [.atom "CONSTR_EVAL", c, v, .atom idx] => do
      let c ← constrOf c
      let v ← cvalOf v
      let i ← idxOf idx
      if !c.wf then some "err construct"
      else some s!"ok {resStr (run c i v)} {b01 (typed c v)}"
  | [.atom "CONSTR_SUPER", p, c] => do
      let p ← constrOf p
      let c ← constrOf c
      some s!"ok {b01 (isSuperTypeOf p c)} {b01 (isSubTypeOf c p)} {b01 (pyEq p c)}"
  | [.atom "CONSTR_DERIVE_EQ", p, e, child] => do
      let p ← constrOf p
      let e ← constrOf e
      let child ← constrOf child
      some s!"ok {b01 (decide (derive p e = child))}"
  | [.atom "CONSTR_MOVESIZE", st, sz, res] => do
      let st ← constrOf st
      let sz ← constrOf sz
      let res ← constrOf res
      some s!"ok {b01 (decide (moveSizeSpec st sz = res))}"
  | [.atom "CONSTR_GATE", c, v] => do
      let c ← constrOf c
      let v ← cvalOf v
      some s!"ok {resStr (encodeGate c v)}"
  | [.atom "CONSTR_MK", c, a] => do
      let c ← constrOf c
      let a ← atomOf a
      match mkScalar ⟨[], c⟩ a with
      | .ok _ => some "ok accept"
      | .error r => some s!"ok {resStr r}"
  | _ => none

end Asn1.Constraint
