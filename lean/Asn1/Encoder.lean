/-
  Asn1.Encoder — executable model of the BER/CER/DER encoders (value-object personality).
  Mirrors ber/encoder.py `AbstractItemEncoder.encode` (one header per super tag, definite /
  indefinite framing, end-of-octets), the per-type `encodeValue`s, `SingleItemEncoder.__call__`
  (fixed modes), and the overrides of cer/encoder.py and der/encoder.py.
  The behavioural switches come from the generated tables (`Generated.lean`) as an `EncCfg`.
-/
import Asn1.Schema

namespace Asn1

inductive SetOrder
  | declared      -- BER: SequenceEncoder handles SET, declaration order
  | static        -- CER SetEncoder._componentSortKey (untagged CHOICE ↦ minTagSet)
  | dynamic       -- DER SetEncoder._componentSortKey (untagged CHOICE ↦ selected alternative)
deriving DecidableEq, Repr, Inhabited

structure EncCfg where
  fixedDefMode : Option Bool := none        -- SingleItemEncoder.fixedDefLengthMode
  fixedChunk : Option Nat := none           -- SingleItemEncoder.fixedChunkSize
  boolTrue : Nat := 1                       -- BooleanEncoder: 1 (BER) / 255 (CER, DER)
  sortSetOf : Bool := false                 -- cer SetOfEncoder
  setOrder : SetOrder := .declared
  seqOmitEmpty : Bool := false              -- SequenceEncoder.omitEmptyOptionals
  seqOfIfNotEmpty : Bool := false           -- cer SequenceOfEncoder honours ifNotEmpty
  -- supportIndefLenMode of the scalar encoders (False in the source for all of these)
  indefBoolean : Bool := false
  indefInteger : Bool := false
  indefNull : Bool := false
  indefOid : Bool := false
  indefReal : Bool := false
deriving Repr, Inhabited

structure EncOpts where
  defMode : Bool := true
  maxChunk : Nat := 0
  ifNotEmpty : Bool := false
deriving Repr, Inhabited

/-- `supportIndefLenMode` of the concrete encoder chosen for a base kind -/
def supportsIndef (cfg : EncCfg) : Ty → Bool
  | .prim .boolean => cfg.indefBoolean
  | .prim .integer => cfg.indefInteger
  | .prim .enumerated => cfg.indefInteger
  | .prim .null => cfg.indefNull
  | .prim .oid => cfg.indefOid
  | .prim .real => cfg.indefReal
  | _ => true

/-- `encodeLength(length, defMode)` on a concrete encoder -/
def encLen (indefOk : Bool) (n : Nat) (defMode : Bool) : Except Err Bytes :=
  if !defMode && indefOk then .ok [0x80]
  else match encodeLength n with
    | some b => .ok b
    | none => .error .refused

/-- the header loop of `AbstractItemEncoder.encode` over `tagSet.superTags` (innermost first).
    `first` is true for the base tag (idx 0). -/
def wrapTags (indefOk : Bool) (defMode : Bool) (isCons : Bool) :
    Bool → List Tag → Bytes → Except Err Bytes
  | _, [], sub => .ok sub
  | first, t :: ts, sub =>
    let defOverride := if first && !isCons then true else defMode
    match encLen indefOk sub.length defOverride with
    | .error e => .error e
    | .ok l =>
      let sub' := encodeTag t isCons ++ l ++ sub ++ (if defOverride then [] else eooBytesE)
      wrapTags indefOk defMode isCons false ts sub'
where eooBytesE : Bytes := [0, 0]

/-- split an octet string into pieces of at most `n` octets (`n > 0`) -/
def chunkBytes (n : Nat) : Nat → Bytes → List Bytes
  | 0, _ => []
  | _, [] => []
  | fuel + 1, bs => bs.take n :: chunkBytes n fuel (bs.drop n)

def chunkBits (n : Nat) : Nat → List Bool → List (List Bool)
  | 0, _ => []
  | _, [] => []
  | fuel + 1, bs => bs.take n :: chunkBits n fuel (bs.drop n)

/-- zero-padded comparison key of cer `SetOfEncoder` (`x.ljust(maxLen, b'\0')`) -/
def padTo (n : Nat) (b : Bytes) : Bytes := b ++ List.replicate (n - b.length) 0

def bytesLe : Bytes → Bytes → Bool
  | [], _ => true
  | _ :: _, [] => false
  | a :: as, b :: bs => a < b || (a == b && bytesLe as bs)

def sortSetOfChunks (chunks : List Bytes) : List Bytes :=
  if chunks.length > 1 then
    let m := chunks.foldl (fun a c => max a c.length) 0
    (chunks.mergeSort (fun a b => bytesLe (padTo m a) (padTo m b)))
  else chunks

/-- comparison of pyasn1 `TagSet`s: tuples of `(class, id)`, innermost first -/
def tagKey (t : Tag) : Nat × Nat := (t.cls.bits, t.num)

def tagSetLe : TagSet → TagSet → Bool
  | [], _ => true
  | _ :: _, [] => false
  | a :: as, b :: bs =>
    let ka := tagKey a; let kb := tagKey b
    if ka.1 < kb.1 then true else if kb.1 < ka.1 then false
    else if ka.2 < kb.2 then true else if kb.2 < ka.2 then false
    else tagSetLe as bs

/-- the outermost tag only (`tagSet[-1:]`): what the SET encoders sort by -/
def outerKey (ts : TagSet) : TagSet :=
  match ts.getLast? with
  | some t => [t]
  | none => []

/-- `NamedTypes.minTagSet` of an untagged CHOICE: the tag set with the smallest outermost tag among
    the alternatives (recursively for nested untagged CHOICEs) -/
def Ty.minTagSet : Ty → TagSet
  | .choice fs => Fields.minTagSet fs none
  | t => t.tags
where
  Fields.minTagSet : Fields → Option TagSet → TagSet
    | .nil, acc => acc.getD []
    | .cons _ t r, acc =>
      let ts := if t.tags.isEmpty then t.minTagSet else t.tags
      match acc with
      | none => Fields.minTagSet r (some ts)
      | some a => Fields.minTagSet r (some (if tagSetLe (outerKey a) (outerKey ts) then a else ts))

/-- `effectiveTagSet` of a value: its own tag set, or for an untagged CHOICE that of the selected
    alternative (recursively) -/
def effTags : Ty → Val → TagSet
  | t, .choice i v =>
    if !t.tags.isEmpty then t.tags
    else match t.base with
      | .choice fs => (match fs.get? i with | some (_, ti) => effTags ti v | none => [])
      | _ => []
  | t, _ => t.tags

/-- sort key for one SET member -/
def setKey (order : SetOrder) (t : Ty) (v : Val) : TagSet :=
  match t, order with
  | .choice fs, .dynamic => effTags (.choice fs) v
  | .choice fs, _ => Ty.minTagSet (.choice fs)
  | t, _ => t.tags

/-- fixed modes of `SingleItemEncoder.__call__` (idempotent; applied once at the top) -/
def normOpts (cfg : EncCfg) (o : EncOpts) : EncOpts :=
  { o with defMode := cfg.fixedDefMode.getD o.defMode, maxChunk := cfg.fixedChunk.getD o.maxChunk }

/-- `AbstractItemEncoder.encode` after `encodeValue` returned `(substrate, isConstructed)` -/
def finishItem (cfg : EncCfg) (o : EncOpts) (t : Ty) : Except Err (Bytes × Bool) → Except Err Bytes
  | .error e => .error e
  | .ok (sub, isCons) =>
    let tags := t.tags
    if tags.isEmpty then .ok sub
    else if sub.isEmpty && isCons && o.ifNotEmpty then .ok []
    else wrapTags (supportsIndef cfg t.base) o.defMode isCons true tags sub

def allOk {α} : List (Except Err α) → Except Err (List α)
  | [] => .ok []
  | .error e :: _ => .error e
  | .ok a :: rest => (allOk rest).map (a :: ·)

def skipField (k : FKind) (v : Val) : Bool :=
  match k, v with
  | .opt, .absent => true
  | .dflt d, v => v == d
  | _, _ => false

mutual
/-- the concrete encoder's `encodeValue`: (substrate, isConstructed).  `o` is normalised. -/
def encValue (cfg : EncCfg) (o : EncOpts) : Ty → Val → Except Err (Bytes × Bool)
  | .tagged _ _ _ t, v => encValue cfg o t v
  | .prim .boolean, .bool b => .ok ([UInt8.ofNat (if b then cfg.boolTrue else 0)], false)
  | .prim .integer, .int z => .ok (intToBytes z, false)
  | .prim .enumerated, .int z => .ok (intToBytes z, false)
  | .prim .null, .null => .ok ([], false)
  | .prim .oid, .oid arcs =>
    (match oidToContent arcs with
     | some b => .ok (b, false)
     | none => .error .refused)
  | .prim .real, .real .pinf => .ok ([0x40], false)
  | .prim .real, .real .minf => .ok ([0x41], false)
  | .prim .real, .real (.fin m b e) =>
    if m = 0 then .ok ([], false)
    else if b = 2 then
      (match realBinToContent m e with
       | some c => .ok (c, false)
       | none => .error .refused)
    else .error .refused
  | .prim .bitString, .bits bs =>
    let aligned := (bs.length + 7) / 8 * 8
    if o.maxChunk = 0 || aligned ≤ o.maxChunk * 8 then .ok (bitsToContent bs, false)
    else
      let frags := chunkBits (o.maxChunk * 8) bs.length bs
      (allOk (frags.map fun f =>
        finishItem cfg o (.prim .bitString) (.ok (bitsToContent f, false)))).map
          (fun cs => (cs.flatten, true))
  | .prim (.str _), .str bs =>
    if o.maxChunk = 0 || bs.length ≤ o.maxChunk then .ok (bs, false)
    else
      let frags := chunkBytes o.maxChunk bs.length bs
      (allOk (frags.map fun f =>
        finishItem cfg o (.prim (.str 4)) (.ok (f, false)))).map (fun cs => (cs.flatten, true))
  | .seq fs, .seq vs => (encFields cfg o fs vs).map (·, true)
  | .set fs, .seq vs =>
    (match cfg.setOrder with
     | .declared => (encFields cfg o fs vs).map (·, true)
     | ord =>
       match encSetMembers cfg o ord fs vs with
       | .error e => .error e
       | .ok ms =>
         let sorted := ms.mergeSort (fun a b => tagSetLe (outerKey a.1) (outerKey b.1))
         .ok ((sorted.map (·.2)).flatten, true))
  | .seqOf t, .seqOf vs =>
    if cfg.seqOfIfNotEmpty && o.ifNotEmpty && vs.isEmpty then .ok ([], true)
    else
      let o' := { o with ifNotEmpty := false }
      (allOk (vs.map fun v => finishItem cfg o' t (encValue cfg o' t v))).map
        (fun cs => (cs.flatten, true))
  | .setOf t, .seqOf vs =>
    let o' := { o with ifNotEmpty := false }
    (allOk (vs.map fun v => finishItem cfg o' t (encValue cfg o' t v))).map
      (fun cs => ((if cfg.sortSetOf then sortSetOfChunks cs else cs).flatten, true))
  | .choice fs, .choice i v => (encAlt cfg o fs i v).map (·, true)
  | .any, .any bs => .ok (bs, !o.defMode)
  | _, _ => .error .refused
/-- `ChoiceEncoder.encodeValue`: the complete encoding of the selected alternative -/
def encAlt (cfg : EncCfg) (o : EncOpts) : Fields → Nat → Val → Except Err Bytes
  | .nil, _, _ => .error .refused
  | .cons _ t _, 0, v => finishItem cfg o t (encValue cfg o t v)
  | .cons _ _ rest, i + 1, v => encAlt cfg o rest i v
/-- `SequenceEncoder.encodeValue`, value-object branch -/
def encFields (cfg : EncCfg) (o : EncOpts) : Fields → List Val → Except Err Bytes
  | .nil, [] => .ok []
  | .cons k t rest, v :: vs =>
    if skipField k v then encFields cfg o rest vs
    else
      let o' := if cfg.seqOmitEmpty then { o with ifNotEmpty := k.isOpt } else o
      match finishItem cfg o' t (encValue cfg o' t v) with
      | .error e => .error e
      | .ok b => (encFields cfg o' rest vs).map (b ++ ·)
  | _, _ => .error .refused
/-- cer/der `SetEncoder.encodeValue`: (sort key, encoding) per present member -/
def encSetMembers (cfg : EncCfg) (o : EncOpts) (ord : SetOrder) :
    Fields → List Val → Except Err (List (TagSet × Bytes))
  | .nil, [] => .ok []
  | .cons k t rest, v :: vs =>
    if skipField k v then encSetMembers cfg o ord rest vs
    else
      let o' := { o with ifNotEmpty := k.isOpt }
      match finishItem cfg o' t (encValue cfg o' t v) with
      | .error e => .error e
      | .ok b => (encSetMembers cfg o ord rest vs).map ((setKey ord t v, b) :: ·)
  | _, _ => .error .refused
end

/-- `encode(value, defMode=…, maxChunkSize=…)` -/
def encItem (cfg : EncCfg) (o : EncOpts) (t : Ty) (v : Val) : Except Err Bytes :=
  let o := normOpts cfg o
  finishItem cfg o t (encValue cfg o t v)

def berEncCfg : EncCfg := {}
def cerEncCfg : EncCfg :=
  { fixedDefMode := some false, fixedChunk := some 1000, boolTrue := 255, sortSetOf := true,
    setOrder := .static, seqOmitEmpty := true, seqOfIfNotEmpty := true }
def derEncCfg : EncCfg := { cerEncCfg with
  fixedDefMode := some true, fixedChunk := some 0, setOrder := .dynamic }

end Asn1
