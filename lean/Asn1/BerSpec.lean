/-
  Asn1.BerSpec — which trees are encodings of a value: X.690 §8 written as a relation between a
  type, an abstract value and a TLV tree (headers are whatever the tree carries — any length form —
  and every constructed element may be definite or indefinite; those are properties of the tree,
  see `TLV.WF`).  The relation leaves open exactly what the basic encoding rules leave open:
    * the octet for TRUE                                  (8.2.2; `anyTrue`)
    * primitive or segmented, also nested, strings        (8.7.3, 8.6.4; `segmented`)
    * the order of the members of a SET                   (8.11)
    * the order of the elements of a SET OF               (8.12)
    * DEFAULT members equal to their default present or absent (8.10.x / X.680)
  The canonical rules (CER/DER) are the same relation under a stricter `Profile`.
  Content octets of the scalar types are fixed by the rules and are the ones of `Asn1.Prim`
  (their agreement with an independent transcription of X.690 is C03's business).
-/
import Asn1.TLV
import Asn1.Schema

namespace Asn1

structure Profile where
  anyTrue : Bool := true       -- any non-zero octet stands for TRUE
  segmented : Bool := true     -- constructed (segmented) string encodings allowed
deriving Repr, DecidableEq

/-- canonical representative of a REAL value: zero, or base 2 with an odd mantissa (X.690 11.3.1);
    values in base 10 (not modelled: they go through CPython floats) stand for themselves -/
def realKey : RealVal → RealVal
  | .fin m b e =>
    if m = 0 then .fin 0 10 0
    else if b = 2 then
      let r := normOdd m.natAbs m.natAbs e
      .fin (if m < 0 then -(r.1 : Int) else r.1) 2 r.2
    else .fin m b e
  | r => r

/-- contents octets of a REAL (8.5): empty for zero, the special values, the binary form in base 2 -/
def realContent : RealVal → Option Bytes
  | .pinf => some [0x40]
  | .minf => some [0x41]
  | .fin m b e => if m = 0 then some [] else if b = 2 then realBinToContent m e else none

def berProfile : Profile := {}
def cerProfile : Profile := { anyTrue := false }
def derProfile : Profile := { anyTrue := false, segmented := false }

mutual
/-- one segment of a constructed string of universal tag `num` (8.7.3: segments may be
    constructed in turn) -/
inductive IsSeg (num : Nat) : TLV → Bytes → Prop
  | prim {h tg c} : tg.cls = .universal → tg.num = num → IsSeg num (.prim h tg c) c
  | cons {h tg i cs bs} : tg.cls = .universal → tg.num = num → IsSegs num cs bs →
      IsSeg num (.cons h tg i cs) bs
inductive IsSegs (num : Nat) : List TLV → Bytes → Prop
  | nil : IsSegs num [] []
  | cons {c cs b bs} : IsSeg num c b → IsSegs num cs bs → IsSegs num (c :: cs) (b ++ bs)
end

/-- segments of a constructed BIT STRING: primitive, each with its own initial octet -/
inductive IsBitSegs : List TLV → List Bool → Prop
  | nil : IsBitSegs [] []
  | cons {h tg f cs bs} : tg.cls = .universal → tg.num = 3 → IsBitSegs cs bs →
      IsBitSegs (.prim h tg (bitsToContent f) :: cs) (f ++ bs)

mutual
/-- `x` is an encoding of the value `v` of type `t`, all of the type's tags included -/
inductive IsBer (pf : Profile) : Ty → Val → TLV → Prop
  | explicit {cls num t v h tg i c} : tg.cls = cls → tg.num = num → IsBer pf t v c →
      IsBer pf (.tagged true cls num t) v (.cons h tg i [c])
  | implicit {cls num t v x} : x.tag.cls = cls → x.tag.num = num → IsBody pf t v x →
      IsBer pf (.tagged false cls num t) v x
  | choice {fs i w x} : IsAlt pf fs i w x → IsBer pf (.choice fs) (.choice i w) x
  | prim {p v x} : x.tag.cls = .universal → x.tag.num = p.univNum → IsBody pf (.prim p) v x →
      IsBer pf (.prim p) v x
  | seq {fs v x} : x.tag.cls = .universal → x.tag.num = 16 → IsBody pf (.seq fs) v x →
      IsBer pf (.seq fs) v x
  | seqOf {t v x} : x.tag.cls = .universal → x.tag.num = 16 → IsBody pf (.seqOf t) v x →
      IsBer pf (.seqOf t) v x
  | set {fs v x} : x.tag.cls = .universal → x.tag.num = 17 → IsBody pf (.set fs) v x →
      IsBer pf (.set fs) v x
  | setOf {t v x} : x.tag.cls = .universal → x.tag.num = 17 → IsBody pf (.setOf t) v x →
      IsBer pf (.setOf t) v x
/-- the same with the outermost tag of the type already accounted for (replaced by an IMPLICIT
    tag, or checked) -/
inductive IsBody (pf : Profile) : Ty → Val → TLV → Prop
  | explicit {cls num t v h tg i c} : IsBer pf t v c →
      IsBody pf (.tagged true cls num t) v (.cons h tg i [c])
  | implicit {cls num t v x} : IsBody pf t v x → IsBody pf (.tagged false cls num t) v x
  | boolFalse {h tg} : IsBody pf (.prim .boolean) (.bool false) (.prim h tg [0])
  | boolTrue {h tg o} : (if pf.anyTrue then o ≠ 0 else o = 0xFF) →
      IsBody pf (.prim .boolean) (.bool true) (.prim h tg [o])
  | int {z h tg} : IsBody pf (.prim .integer) (.int z) (.prim h tg (intToBytes z))
  | enum {z h tg} : IsBody pf (.prim .enumerated) (.int z) (.prim h tg (intToBytes z))
  | null {h tg} : IsBody pf (.prim .null) .null (.prim h tg [])
  | oid {arcs c h tg} : oidToContent arcs = some c → IsBody pf (.prim .oid) (.oid arcs) (.prim h tg c)
  | real {r c h tg} : realContent r = some c → IsBody pf (.prim .real) (.real r) (.prim h tg c)
  | bits {bs h tg} : IsBody pf (.prim .bitString) (.bits bs) (.prim h tg (bitsToContent bs))
  | bitsSeg {bs h tg i cs} : pf.segmented = true → cs ≠ [] → IsBitSegs cs bs →
      IsBody pf (.prim .bitString) (.bits bs) (.cons h tg i cs)
  | str {k bs h tg} : IsBody pf (.prim (.str k)) (.str bs) (.prim h tg bs)
  | strSeg {k bs h tg i cs} : pf.segmented = true → IsSegs 4 cs bs →
      IsBody pf (.prim (.str k)) (.str bs) (.cons h tg i cs)
  | seq {fs vs h tg i cs} : IsFields pf fs vs cs → IsBody pf (.seq fs) (.seq vs) (.cons h tg i cs)
  | set {fs vs h tg i cs ms} : IsFields pf fs vs ms → cs.Perm ms →
      IsBody pf (.set fs) (.seq vs) (.cons h tg i cs)
  | seqOf {t vs h tg i cs} : IsElems pf t vs cs → IsBody pf (.seqOf t) (.seqOf vs) (.cons h tg i cs)
  | setOf {t vs ws h tg i cs} : IsElems pf t ws cs → ws.Perm vs →
      IsBody pf (.setOf t) (.seqOf vs) (.cons h tg i cs)
  | choice {fs i w h tg ind c} : IsAlt pf fs i w c →
      IsBody pf (.choice fs) (.choice i w) (.cons h tg ind [c])
/-- the members of a SEQUENCE in declaration order (a SET permutes them) -/
inductive IsFields (pf : Profile) : Fields → List Val → List TLV → Prop
  | nil : IsFields pf .nil [] []
  | absentOpt {t rest vs cs} : IsFields pf rest vs cs →
      IsFields pf (.cons .opt t rest) (.absent :: vs) cs
  | absentDflt {d t rest vs cs} : IsFields pf rest vs cs →
      IsFields pf (.cons (.dflt d) t rest) (d :: vs) cs
  | present {k t rest v vs c cs} : IsBer pf t v c → IsFields pf rest vs cs →
      IsFields pf (.cons k t rest) (v :: vs) (c :: cs)
inductive IsElems (pf : Profile) : Ty → List Val → List TLV → Prop
  | nil {t} : IsElems pf t [] []
  | cons {t v vs c cs} : IsBer pf t v c → IsElems pf t vs cs → IsElems pf t (v :: vs) (c :: cs)
inductive IsAlt (pf : Profile) : Fields → Nat → Val → TLV → Prop
  | here {k t rest v x} : IsBer pf t v x → IsAlt pf (.cons k t rest) 0 v x
  | there {k t rest i v x} : IsAlt pf rest i v x → IsAlt pf (.cons k t rest) (i + 1) v x
end

/-! ### equality of values up to the order of SET OF elements -/

def All2 {α β} (R : α → β → Prop) : List α → List β → Prop
  | [], [] => True
  | a :: as, b :: bs => R a b ∧ All2 R as bs
  | _, _ => False

mutual
/-- same abstract value: SET OF is a multiset, a REAL is the number it denotes, everything else is
    compared as it stands -/
def VEq : Ty → Val → Val → Prop
  | .tagged _ _ _ t, a, b => VEq t a b
  | .prim .real, .real a, .real b => realKey a = realKey b
  | .seq fs, .seq as, .seq bs => VEqFields fs as bs
  | .set fs, .seq as, .seq bs => VEqFields fs as bs
  | .seqOf t, .seqOf as, .seqOf bs => All2 (fun a b => VEq t a b) as bs
  | .setOf t, .seqOf as, .seqOf bs => ∃ cs, All2 (fun a b => VEq t a b) as cs ∧ cs.Perm bs
  | .choice fs, .choice i a, .choice j b => i = j ∧ VEqAlt fs i a b
  | _, a, b => a = b
def VEqFields : Fields → List Val → List Val → Prop
  | .nil, [], [] => True
  | .cons _ t r, a :: as, b :: bs => VEq t a b ∧ VEqFields r as bs
  | _, _, _ => False
def VEqAlt : Fields → Nat → Val → Val → Prop
  | .nil, _, _, _ => False
  | .cons _ t _, 0, a, b => VEq t a b
  | .cons _ _ r, i + 1, a, b => VEqAlt r i a b
end

end Asn1
