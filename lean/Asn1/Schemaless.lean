/-
  Asn1.Schemaless — decoding without a guiding type (ber/decoder.py `stGetValueDecoderByTag`,
  `stTryAsExplicitTag`, `_decodeComponentsSchemaless`): the codec is chosen by the universal tag,
  non-universal constructed tags are unwrapped as EXPLICIT tags, containers are guessed as
  SEQUENCE/SET (members of different types) or SEQUENCE OF/SET OF (homogeneous or empty).
-/
import Asn1.Decoder

namespace Asn1

/-- the guessed object -/
inductive UVal
  | leaf (num : Nat) (v : Val)                       -- scalar with its universal tag number
  | record (isSet : Bool) (children : List UVal)      -- guessed SEQUENCE / SET
  | listOf (isSet : Bool) (children : List UVal)      -- guessed SEQUENCE OF / SET OF
  | tagged (tag : Tag) (inner : UVal)                 -- recovered EXPLICIT tag
deriving Repr, Inhabited

def strNums : List Nat := [4, 12, 18, 19, 20, 21, 22, 25, 26, 27, 28, 30, 7, 24, 23]

/-- the (class, number) of the outermost tag of a guessed object, as `component.tagSet` compares -/
def UVal.tagKey : UVal → List (Nat × Nat)
  | .leaf n _ => [(0, n)]
  | .record s _ => [(0, if s then 17 else 16)]
  | .listOf s _ => [(0, if s then 17 else 16)]
  | .tagged t u => u.tagKey ++ [(t.cls.bits, t.num)]

mutual
def decU (cfg : DecCfg) : TLV → Res UVal
  | .prim h tg c =>
    if tg.cls = .universal then
      let t : TLV := .prim h tg c
      if tg.num = 1 then (decPrim cfg .boolean t).map (.leaf 1)
      else if tg.num = 2 then (decPrim cfg .integer t).map (.leaf 2)
      else if tg.num = 3 then (decPrim cfg .bitString t).map (.leaf 3)
      else if tg.num = 5 then (decPrim cfg .null t).map (.leaf 5)
      else if tg.num = 6 then (decPrim cfg .oid t).map (.leaf 6)
      else if tg.num = 9 then (decPrim cfg .real t).map (.leaf 9)
      else if tg.num = 10 then (decPrim cfg .enumerated t).map (.leaf 10)
      else if strNums.contains tg.num then (decPrim cfg (.str tg.num) t).map (.leaf tg.num)
      else .error .malformed
    else .error .malformed
  | .cons h tg indef cs =>
    if tg.cls = .universal then
      if tg.num = 16 ∨ tg.num = 17 then
        match decUs cfg cs with
        | .error e => .error e
        | .ok us =>
          let keys := us.map UVal.tagKey
          let hetero := match keys with
            | [] => false
            | k :: ks => ks.any (· != k)
          .ok (if hetero then .record (tg.num = 17) us else .listOf (tg.num = 17) us)
      else if tg.num = 3 then (decPrim cfg .bitString (.cons h tg indef cs)).map (.leaf 3)
      else if strNums.contains tg.num then (decPrim cfg (.str tg.num) (.cons h tg indef cs)).map (.leaf tg.num)
      else .error .malformed
    else
      -- assume explicit tagging
      match cs with
      | [child] => (decU cfg child).map (.tagged tg)
      | _ => .error .malformed
def decUs (cfg : DecCfg) : List TLV → Res (List UVal)
  | [] => .ok []
  | c :: cs =>
    match decU cfg c with
    | .error e => .error e
    | .ok u => (decUs cfg cs).map (u :: ·)
end

mutual
/-- scalar leaves in order -/
def UVal.leaves : UVal → List (Nat × Val)
  | .leaf n v => [(n, v)]
  | .record _ cs => leavesL cs
  | .listOf _ cs => leavesL cs
  | .tagged _ u => u.leaves
def leavesL : List UVal → List (Nat × Val)
  | [] => []
  | u :: us => u.leaves ++ leavesL us
end

def decodeSchemaless (cfg : DecCfg) (bs : Bytes) : Res (UVal × Bytes) :=
  match parseOne cfg.parse bs with
  | .error e => .error e
  | .ok (t, rest) => (decU cfg t).map (·, rest)

end Asn1
