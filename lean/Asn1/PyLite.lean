/-
  Asn1.PyLite — the run-time library of the source-to-Lean translator (`gen/py2lean.py`).

  The translator turns a small, purely computational subset of Python (integers, tuples of integers,
  booleans, `if`/`while`/`for`, `return`, `raise`, `try/except IndexError`) into Lean definitions in
  the `Except PyErr` monad (`Asn1/GenKernels.lean`, regenerated from /repo on every run).  This file
  is the hand-written transcription of what the Python *builtins* used there mean: unbounded `int`
  with floor division, two's complement bitwise operators, tuple indexing with `IndexError`,
  `int.bit_length`, `int.to_bytes`.  It is part of the trusted base and is itself compared with
  CPython on random operands by the driver op `PYOP` (harness/kernels.py).
  No Mathlib imports: linked into the compiled driver.
-/

namespace Py

/-- what a translated function can raise -/
inductive PyErr
  | lib (cls : String)        -- an exception class of pyasn1.error (PyAsn1Error, SubstrateUnderrunError, …)
  | indexError
  | overflowError
  | fuel                      -- a translated loop ran out of the fuel the translator gave it (never: proved)
deriving DecidableEq, Repr, Inhabited

abbrev M := Except PyErr
abbrev Tup := List Int

/-- Python truthiness of an `int` -/
@[inline] def truthy (x : Int) : Bool := x != 0

/-- `~x` -/
def inv (x : Int) : Int := -x - 1

/-- `a & ~b` on naturals -/
def natLdiff (a b : Nat) : Nat := Nat.bitwise (fun x y => x && !y) a b

/-- `a & b` on Python ints (two's complement, unbounded) -/
def band : Int → Int → Int
  | .ofNat m, .ofNat n => Int.ofNat (m &&& n)
  | .ofNat m, .negSucc n => Int.ofNat (natLdiff m n)
  | .negSucc m, .ofNat n => Int.ofNat (natLdiff n m)
  | .negSucc m, .negSucc n => .negSucc (m ||| n)

/-- `a | b` -/
def bor : Int → Int → Int
  | .ofNat m, .ofNat n => Int.ofNat (m ||| n)
  | .ofNat m, .negSucc n => .negSucc (natLdiff n m)
  | .negSucc m, .ofNat n => .negSucc (natLdiff m n)
  | .negSucc m, .negSucc n => .negSucc (m &&& n)

/-- `a >> k` (`k ≥ 0`; Python raises ValueError on a negative count, which the translated
    functions never pass: counts are literals) -/
def shr (a : Int) (k : Int) : Int := a >>> k.toNat

/-- `a << k` (`k ≥ 0`) -/
def shl (a : Int) (k : Int) : Int := a * 2 ^ k.toNat

/-- `a // b` and `a % b` (floor) for `b ≠ 0`; the translated functions divide by non-zero literals -/
def fdiv (a b : Int) : Int := Int.fdiv a b
def fmod (a b : Int) : Int := Int.fmod a b

/-- `t[i]` with Python's negative indices and `IndexError` -/
def idx (t : Tup) (i : Int) : M Int :=
  let j := if i < 0 then i + t.length else i
  if j < 0 then throw .indexError
  else match t[j.toNat]? with
    | some x => pure x
    | none => throw .indexError

/-- `t[i:]` for a literal `i ≥ 0` -/
def sliceFrom (t : Tup) (i : Int) : Tup := t.drop i.toNat

/-- `t[:i]` for a literal `i ≥ 0` -/
def sliceTo (t : Tup) (i : Int) : Tup := t.take i.toNat

/-- `t[i:]` and `t[:i]` for an arbitrary int `i` (negative: counted from the end, clipped) -/
def sliceFromG (t : Tup) (i : Int) : Tup :=
  let j := if i < 0 then i + t.length else i
  t.drop j.toNat
def sliceToG (t : Tup) (i : Int) : Tup :=
  let j := if i < 0 then i + t.length else i
  t.take j.toNat

/-- `t[i:j]` for arbitrary ints: each bound counted from the end when negative, clipped to `0 .. len(t)`; empty when the
    bounds cross -/
def normIdx (n : Nat) (i : Int) : Nat := if i < 0 then (i + n).toNat else min i.toNat n
def sliceG (t : Tup) (i j : Int) : Tup :=
  let lo := normIdx t.length i
  let hi := normIdx t.length j
  (t.drop lo).take (hi - lo)

/-- `a ** b` for `b ≥ 0` (the translated functions raise to small non-negative powers; a negative exponent would be a
    float in Python and is refused by the translator's typing: the driver answers `.lib "TypeError"`) -/
def pow (a b : Int) : M Int := if b < 0 then throw (.lib "TypeError") else pure (a ^ b.toNat)

def len (t : Tup) : Int := t.length

/-- `x in t` -/
def mem (x : Int) (t : Tup) : Bool := t.contains x

/-- `set(s).issuperset(t)` on tuples of ints: every element of `t` occurs in `s` -/
def issuperset (s t : Tup) : Bool := t.all (fun x => s.contains x)

/-- `del t[i]` (negative indices as in Python; `IndexError` out of range) -/
def delAt (t : Tup) (i : Int) : M Tup :=
  let j := if i < 0 then i + t.length else i
  if j < 0 ∨ j ≥ t.length then throw .indexError else pure (t.eraseIdx j.toNat)

/-- `int.bit_length()` -/
def bitLength (x : Int) : Int := Int.ofNat (Nat.log2 x.natAbs + (if x = 0 then 0 else 1))

/-- big-endian base-256 digits of `n`, exactly `k` of them (most significant first) -/
def natToBE : Nat → Nat → List Int
  | 0, _ => []
  | k + 1, n => natToBE k (n / 256) ++ [Int.ofNat (n % 256)]

/-- `value.to_bytes(length, 'big', signed=signed)` as a tuple of octet values; `OverflowError` when
    the value does not fit (or is negative and `signed` is false) -/
def toBytes (value length : Int) (signed : Bool) : M Tup :=
  let k := length.toNat
  if signed then
    -- (CPython quirk, kept: `(-1).to_bytes(0, 'big', signed=True)` is `b''`, not an OverflowError)
    if (-(2 : Int) ^ (8 * k) ≤ 2 * value ∧ 2 * value < (2 : Int) ^ (8 * k)) ∨ (k = 0 ∧ value = -1) then
      pure (natToBE k (Int.emod value ((2 : Int) ^ (8 * k))).toNat)
    else throw .overflowError
  else
    if 0 ≤ value ∧ value < (2 : Int) ^ (8 * k) then pure (natToBE k value.toNat)
    else throw .overflowError

/-- unsigned big-endian value of a tuple of octet values -/
def natOfBE : Tup → Int → Int
  | [], acc => acc
  | b :: rest, acc => natOfBE rest (acc * 256 + b)

/-- `int.from_bytes(bytes(t), 'big', signed=signed)` (the elements of `t` are octet values 0..255: `bytes()` of anything
    else raises ValueError, which the translated functions never provoke - their tuples come from octet strings) -/
def fromBytes (t : Tup) (signed : Bool) : Int :=
  let u := natOfBE t 0
  match t with
  | [] => 0
  | b :: _ => if signed && decide (b ≥ 128) then u - (256 : Int) ^ t.length else u

/-- the decoder asking its substrate for `n` octets (`for x in readFromStream(substrate, n, options): …`) when the
    substrate is the complete input `t` and `pos` octets have been consumed: the next `n` octets, or - fewer are left -
    the `SubstrateUnderrunError` a one-shot decoder raises for the underrun the item decoder hands out -/
def readN (t : Tup) (pos n : Int) : M Tup :=
  if pos.toNat + n.toNat ≤ t.length then pure ((t.drop pos.toNat).take n.toNat)
  else throw (.lib "SubstrateUnderrunError")

/-- `ord(b)` of a bytes object given as the tuple of its octets: defined on exactly one octet (TypeError otherwise) -/
def ord (t : Tup) : M Int :=
  match t with
  | [x] => pure x
  | _ => throw (.lib "TypeError")

/-! ### `io.BytesIO` as a value: contents and position -/

structure BytesIO where
  buf : Tup
  pos : Int
deriving DecidableEq, Repr

/-- `io.BytesIO(initial)` -/
def bioNew (b : Tup) : BytesIO := ⟨b, 0⟩

/-- `b.read(n)`: the next `n` octets (`n < 0`: all that is left); the position moves by what was read; past the end: nothing -/
def bioRead (b : BytesIO) (n : Int) : Tup × BytesIO :=
  let rest := b.buf.drop b.pos.toNat
  let r := if n < 0 then rest else rest.take n.toNat
  (r, ⟨b.buf, b.pos + r.length⟩)

/-- `b.write(data)`: overwrite at the position, extending the buffer (a gap beyond the end is filled with zero octets);
    writing nothing changes nothing -/
def bioWrite (b : BytesIO) (data : Tup) : Int × BytesIO :=
  if data.isEmpty then (0, b)
  else
    let p := b.pos.toNat
    let buf := (b.buf.take p ++ List.replicate (p - b.buf.length) 0) ++ data ++ b.buf.drop (p + data.length)
    (data.length, ⟨buf, b.pos + data.length⟩)

/-- `b.seek(n, whence)`: absolute (`ValueError` when negative), relative to the position or to the end (clipped at 0) -/
def bioSeek (b : BytesIO) (n whence : Int) : M (Int × BytesIO) :=
  if whence = 0 then (if n < 0 then throw (.lib "ValueError") else pure (n, ⟨b.buf, n⟩))
  else if whence = 1 then (let p := if b.pos + n < 0 then 0 else b.pos + n; pure (p, ⟨b.buf, p⟩))
  else if whence = 2 then (let p := if (b.buf.length : Int) + n < 0 then 0 else (b.buf.length : Int) + n; pure (p, ⟨b.buf, p⟩))
  else throw (.lib "ValueError")

/-! ### a stream handed to a function: its position, and what `read(n)` answers there -/

/-- `substrate.read(n)` at position `pos` on a stream whose answers are given by `rd` (`none` = `None`: nothing yet):
    the position moves by what was handed out -/
def rsRead (rd : Int → Int → Option Tup) (pos n : Int) : Option Tup × Int :=
  match rd pos n with
  | none => (none, pos)
  | some t => (some t, pos + t.length)

/-- `substrate.seek(n, whence)` with `whence` = os.SEEK_CUR (1) or os.SEEK_SET (0) on such a stream -/
def rsSeek (pos n whence : Int) : M (Int × Int) :=
  if whence = 1 then (let p := if pos + n < 0 then 0 else pos + n; pure (p, p))
  else if whence = 0 then (if n < 0 then throw (.lib "ValueError") else pure (n, n))
  else throw (.lib "ValueError")

/-- `min(a, b)` -/
def imin (a b : Int) : Int := if b < a then b else a

/-- octets required where `None` may have arrived: Python's TypeError -/
def unwrap (x : Option Tup) : M Tup :=
  match x with
  | some t => pure t
  | none => throw (.lib "TypeError")

/-- truth value of `None` / an octet string -/
def otruthy (x : Option Tup) : Bool :=
  match x with
  | some t => !t.isEmpty
  | none => false

/-- `a <= b` on bytes objects given as tuples of octets: lexicographic, a proper prefix is smaller -/
def tupLe : Tup → Tup → Bool
  | [], _ => true
  | _ :: _, [] => false
  | a :: as, b :: bs => decide (a < b) || (a == b && tupLe as bs)

/-- `max(map(len, xs))`; `ValueError` on an empty list -/
def maxLen : List Tup → M Int
  | [] => throw (.lib "ValueError")
  | x :: xs => pure (xs.foldl (fun a c => max a (c.length : Int)) (x.length : Int))

/-- `x.ljust(n, fill)` with a one-octet `fill` (TypeError otherwise): `x` followed by `n - len(x)` copies of the fill octet -/
def ljust (x : Tup) (n : Int) (fill : Tup) : M Tup :=
  match fill with
  | [z] => pure (x ++ List.replicate (n - x.length).toNat z)
  | _ => throw (.lib "TypeError")

/-- `pairs.sort(key=lambda x: x[0])`: Python's sort is stable and orders by `<` on the keys -/
def sortByFst (l : List (Tup × Tup)) : List (Tup × Tup) := l.mergeSort (fun a b => tupLe a.1 b.1)

/-- `a and b`, `a or b` on ints (value semantics) -/
def andI (a b : Int) : Int := if a != 0 then b else a
def orI (a b : Int) : Int := if a != 0 then a else b

/-- `max(a, b)` -/
def max (a b : Int) : Int := if a < b then b else a

end Py
