/-
  Asn1.Time — GeneralizedTime / UTCTime: datetime <-> text, CER/DER canonicalisation, X.680 reading.

  Mirrors (function by function, as the code is AFTER the C20 `fix:` commits in /repo):
    pyasn1/type/useful.py     TimeMixIn.fromDateTime            -> `fromDateTime`
                              TimeMixIn.asDateTime              -> `asDateTime` (= zoneSplit, fracSplit, padMain, strptime)
    pyasn1/codec/cer/encoder.py TimeEncoderMixIn.encodeValue    -> `canonTime`
                              GeneralizedTimeEncoder/UTCTimeEncoder MIN_LENGTH/MAX_LENGTH -> `Kind.minLength/maxLength`
    CPython `_strptime` regexes for %Y %y %m %d %H %M %S (first-match backtracking) -> `strptime`
    CPython `int(str)` on ASCII text                             -> `pyInt`
  and carries this project's transcription of X.680 §46/§47 (`instant`), which is independent of the code.

  Dates are digit fields, no calendar arithmetic (only the days-in-month test `datetime` itself applies).
  Text is `List Char` (the values are us-ascii VisibleStrings). Python operations that raise a
  non-library exception are explicit `leak` results.  No Mathlib: linked into the driver.
-/
import Asn1.Sexp

namespace Asn1.Time

/-- how a call ends when it does not return: `liberr` = PyAsn1Error, `leak e` = another exception class -/
inductive TErr
  | liberr
  | leak (exc : String)
deriving DecidableEq, Repr

abbrev TRes (α : Type) := Except TErr α

instance instDecEqTRes {α : Type} [DecidableEq α] : DecidableEq (TRes α) := fun a b =>
  match a, b with
  | .ok x, .ok y => if h : x = y then isTrue (by rw [h]) else isFalse (fun e => h (by injection e))
  | .error x, .error y => if h : x = y then isTrue (by rw [h]) else isFalse (fun e => h (by injection e))
  | .ok _, .error _ => isFalse (fun e => by cases e)
  | .error _, .ok _ => isFalse (fun e => by cases e)

/-- the class attributes of `useful.GeneralizedTime`/`UTCTime` and of their CER encoders -/
structure Kind where
  yearsDigits : Nat
  hasSubsecond : Bool
  optionalMinutes : Bool
  shortTZ : Bool
  minLength : Nat
  maxLength : Nat
deriving DecidableEq, Repr

def gt : Kind := ⟨4, true, true, true, 12, 20⟩
def utc : Kind := ⟨2, false, false, false, 10, 14⟩

/-- a `datetime.datetime` as digit fields; `off` = utcoffset in minutes, `none` = naive -/
structure DT where
  year : Nat
  month : Nat
  day : Nat
  hour : Nat
  minute : Nat
  second : Nat
  micro : Nat
  off : Option Int
deriving DecidableEq, Repr

/-! ### digits -/

/-- the character of a decimal digit `d < 10` -/
def dig (d : Nat) : Char := Char.ofNat (48 + d)

/-- value of an ASCII digit character -/
def dv (c : Char) : Option Nat :=
  if 48 ≤ c.toNat ∧ c.toNat ≤ 57 then some (c.toNat - 48) else none

def isDig (c : Char) : Bool := (dv c).isSome

/-- `'%d' % n` -/
def dec (n : Nat) : List Char :=
  if _h : n < 10 then [dig n] else dec (n / 10) ++ [dig (n % 10)]
decreasing_by omega

/-- `'%.2d' % n` -/
def pad2 (n : Nat) : List Char := if n < 100 then [dig (n / 10), dig (n % 10)] else dec n

/-- `'%.4d' % n` -/
def pad4 (n : Nat) : List Char :=
  if n < 10000 then [dig (n / 1000), dig (n / 100 % 10), dig (n / 10 % 10), dig (n % 10)] else dec n

/-- value of a digit string read left to right (non-digits count as 0; only used on digit strings) -/
def digitsVal (acc : Nat) : List Char → Nat
  | [] => acc
  | c :: r => digitsVal (acc * 10 + (dv c).getD 0) r

/-! ### `int(str)` of CPython on ASCII text -/

def isWs (c : Char) : Bool :=
  c.toNat = 32 || (9 ≤ c.toNat && c.toNat ≤ 13) || (28 ≤ c.toNat && c.toNat ≤ 31)

/-- `str.rstrip()` -/
def stripR : List Char → List Char
  | [] => []
  | c :: r => match stripR r with
    | [] => if isWs c then [] else [c]
    | r' => c :: r'

/-- decimal digits with single underscores between digits; `prev` = the previous character was a digit -/
def pyDigits (acc : Nat) (prev : Bool) : List Char → Option Nat
  | [] => if prev then some acc else none
  | c :: r =>
    match dv c with
    | some d => pyDigits (acc * 10 + d) true r
    | none => if c = '_' ∧ prev then pyDigits acc false r else none

/-- `int(s)`; `none` = ValueError -/
def pyInt (s : List Char) : Option Int :=
  match stripR (s.dropWhile isWs) with
  | '+' :: r => (pyDigits 0 false r).map Int.ofNat
  | '-' :: r => (pyDigits 0 false r).map (fun n => - Int.ofNat n)
  | r => (pyDigits 0 false r).map Int.ofNat

/-! ### `fromDateTime` -/

/-- the zone designator `fromDateTime` appends: `Z` for naive / zero offset, else sign hh mm -/
def zoneText (off : Option Int) : List Char :=
  match off with
  | none => ['Z']
  | some o =>
    if o = 0 then ['Z']
    else if o < 0 then '-' :: (pad2 (o.natAbs / 60) ++ pad2 (o.natAbs % 60))
    else '+' :: (pad2 (o.natAbs / 60) ++ pad2 (o.natAbs % 60))

/-- `'%m%d%H%M%S'` of strftime (valid datetimes: two digits each) -/
def mdhms (dt : DT) : List Char :=
  pad2 dt.month ++ pad2 dt.day ++ pad2 dt.hour ++ pad2 dt.minute ++ pad2 dt.second

/-- `TimeMixIn.fromDateTime` -/
def fromDateTime (k : Kind) (dt : DT) : List Char :=
  let text := if k.yearsDigits = 4 then pad4 dt.year ++ mdhms dt else pad2 (dt.year % 100) ++ mdhms dt
  let text := if k.hasSubsecond then text ++ '.' :: dec (dt.micro / 1000) else text
  text ++ zoneText dt.off

/-! ### `asDateTime` -/

/-- `text.partition(c)` for a `c` that occurs: (before, after) -/
def splitOn1 (c : Char) : List Char → List Char × List Char
  | [] => ([], [])
  | x :: r => if x = c then ([], r) else ((splitOn1 c r).1.cons x, (splitOn1 c r).2)

/-- the time-zone part of `asDateTime`: remaining text and tzinfo (offset minutes) -/
def zoneSplit (k : Kind) (s : List Char) : TRes (List Char × Option Int) :=
  if s.getLast? = some 'Z' then .ok (s.dropLast, some 0)
  else if '-' ∈ s ∨ '+' ∈ s then
    let plus : Bool := '+' ∈ s
    let p := if plus then splitOn1 '+' s else splitOn1 '-' s
    let tz := if k.shortTZ ∧ p.2.length = 2 then p.2 ++ ['0', '0'] else p.2
    if tz.length ≠ 4 then .error .liberr
    else match pyInt (tz.take 2), pyInt (tz.drop 2) with
      | some a, some b =>
        let minutes := a * 60 + b
        .ok (p.1, some (if plus then minutes else -minutes))
      | _, _ => .error .liberr
  else .ok (s, none)

/-- the sub-second part: remaining text and `int(ms) * 1000` -/
def fracSplit (s : List Char) : TRes (List Char × Int) :=
  if '.' ∈ s ∨ ',' ∈ s then
    let p := if '.' ∈ s then splitOn1 '.' s else splitOn1 ',' s
    match pyInt p.2 with
    | some v => .ok (p.1, v * 1000)
    | none => .error .liberr
  else .ok (s, 0)

/-- padding of omitted minutes / seconds -/
def padMain (k : Kind) (s : List Char) : List Char :=
  if k.optionalMinutes ∧ s.length = k.yearsDigits + 6 then s ++ ['0', '0', '0', '0']
  else if s.length = k.yearsDigits + 8 then s ++ ['0', '0']
  else s

/-- one regex alternative made of two digit classes -/
def alt2 (p : Nat → Nat → Bool) : List Char → List (Nat × List Char)
  | c1 :: c2 :: r =>
    match dv c1, dv c2 with
    | some a, some b => if p a b then [(a * 10 + b, r)] else []
    | _, _ => []
  | _ => []

/-- one regex alternative made of one digit class -/
def alt1 (p : Nat → Bool) : List Char → List (Nat × List Char)
  | c :: r => match dv c with
    | some a => if p a then [(a, r)] else []
    | none => []
  | _ => []

/-- the alternative ` [1-9]` of `%d` -/
def altSp : List Char → List (Nat × List Char)
  | c1 :: c2 :: r =>
    if c1 = ' ' then
      match dv c2 with
      | some a => if 1 ≤ a then [(a, r)] else []
      | none => []
    else []
  | _ => []

/-- `(?P<Y>\d\d\d\d)` -/
def reYear4 : List Char → List (Nat × List Char)
  | c1 :: c2 :: c3 :: c4 :: r =>
    match dv c1, dv c2, dv c3, dv c4 with
    | some a, some b, some c, some d => [(a * 1000 + b * 100 + c * 10 + d, r)]
    | _, _, _, _ => []
  | _ => []

/-- `(?P<y>\d\d)` with the POSIX window: 00–68 -> 2000–2068, 69–99 -> 1969–1999 -/
def reYear2 (s : List Char) : List (Nat × List Char) :=
  (alt2 (fun _ _ => true) s).map fun (v, r) => (if v ≤ 68 then 2000 + v else 1900 + v, r)

/-- `1[0-2]|0[1-9]|[1-9]` -/
def reMonth (s : List Char) : List (Nat × List Char) :=
  alt2 (fun a b => a == 1 && b ≤ 2) s ++ alt2 (fun a b => a == 0 && 1 ≤ b) s ++ alt1 (fun a => 1 ≤ a) s

/-- `3[0-1]|[1-2]\d|0[1-9]|[1-9]| [1-9]` -/
def reDay (s : List Char) : List (Nat × List Char) :=
  alt2 (fun a b => a == 3 && b ≤ 1) s ++ alt2 (fun a _ => 1 ≤ a && a ≤ 2) s
    ++ alt2 (fun a b => a == 0 && 1 ≤ b) s ++ alt1 (fun a => 1 ≤ a) s ++ altSp s

/-- `2[0-3]|[0-1]\d|\d` -/
def reHour (s : List Char) : List (Nat × List Char) :=
  alt2 (fun a b => a == 2 && b ≤ 3) s ++ alt2 (fun a _ => a ≤ 1) s ++ alt1 (fun _ => true) s

/-- `[0-5]\d|\d` -/
def reMinute (s : List Char) : List (Nat × List Char) :=
  alt2 (fun a _ => a ≤ 5) s ++ alt1 (fun _ => true) s

/-- `6[0-1]|[0-5]\d|\d` -/
def reSecond (s : List Char) : List (Nat × List Char) :=
  alt2 (fun a b => a == 6 && b ≤ 1) s ++ alt2 (fun a _ => a ≤ 5) s ++ alt1 (fun _ => true) s

/-- `re.match` of a concatenation of groups: first complete match in backtracking order -/
def seqMatch : List (List Char → List (Nat × List Char)) → List Char → Option (List Nat × List Char)
  | [], s => some ([], s)
  | f :: fs, s => (f s).findSome? fun vr => (seqMatch fs vr.2).map fun wr => (vr.1 :: wr.1, wr.2)

def isLeap (y : Nat) : Bool := y % 4 == 0 && (y % 100 != 0 || y % 400 == 0)

def daysIn (y m : Nat) : Nat :=
  if m = 2 then (if isLeap y then 29 else 28)
  else if m = 4 ∨ m = 6 ∨ m = 9 ∨ m = 11 then 30 else 31

/-- what the `datetime` constructor accepts -/
def validDate (y m d : Nat) : Bool :=
  1 ≤ y && y ≤ 9999 && 1 ≤ m && m ≤ 12 && 1 ≤ d && d ≤ daysIn y m

/-- `datetime.strptime(text, '%Y%m%d%H%M%S' | '%y%m%d%H%M%S')`; `none` = ValueError -/
def strptime (k : Kind) (s : List Char) : Option (Nat × Nat × Nat × Nat × Nat × Nat) :=
  match seqMatch [if k.yearsDigits = 4 then reYear4 else reYear2, reMonth, reDay, reHour, reMinute, reSecond] s with
  | some ([y, m, d, h, mi, sec], []) =>
    if validDate y m d && sec ≤ 59 then some (y, m, d, h, mi, sec) else none
  | _ => none

/-- `TimeMixIn.asDateTime` -/
def asDateTime (k : Kind) (s : List Char) : TRes DT :=
  match zoneSplit k s with
  | .error e => .error e
  | .ok (text, tz) =>
    match fracSplit text with
    | .error e => .error e
    | .ok (text, ms) =>
      match strptime k (padMain k text) with
      | none => .error .liberr
      | some (y, m, d, h, mi, sec) =>
        -- `dt.replace(microsecond=ms)`: a C int argument, then the range test
        if 0 ≤ ms ∧ ms < 1000000 then .ok ⟨y, m, d, h, mi, sec, ms.toNat, tz⟩
        else if ms < -2147483648 ∨ 2147483647 < ms then .error (.leak "OverflowError")
        else .error (.leak "ValueError")

/-! ### CER/DER canonicaliser (`TimeEncoderMixIn.encodeValue`) -/

/-- the backward scan from the end of the string to the last `.`: every `0` met is deleted; then a `.`
    directly followed by `Z` is deleted. `rev` is the reversed text. -/
def stripFraction (s : List Char) : List Char :=
  let post := (s.reverse.takeWhile (· ≠ '.')).reverse      -- after the last dot
  let pre := (s.reverse.dropWhile (· ≠ '.')).drop 1 |>.reverse   -- before the last dot
  let post' := post.filter (· ≠ '0')
  if post'.head? = some 'Z' then pre ++ post' else pre ++ '.' :: post'

/-- string manipulation and refusals of `TimeEncoderMixIn.encodeValue` -/
def canonTime (k : Kind) (s : List Char) : TRes (List Char) :=
  if '+' ∈ s ∨ '-' ∈ s then .error .liberr
  else match s.getLast? with
    | none => .error (.leak "IndexError")
    | some l =>
      if l ≠ 'Z' then .error .liberr
      else if ',' ∈ s then .error .liberr
      else
        let s' := if '.' ∈ s then stripFraction s else s
        if k.minLength < s'.length ∧ s'.length < k.maxLength then .ok s' else .error .liberr

/-! ### X.680 reading (independent of the code) -/

/-- an instant as X.680 denotes it: calendar date digits, time of day as the decimal fraction
    `num / 10^scale` microseconds in lowest decimal terms, and the stated offset (`none` = local time) -/
structure Instant where
  year : Nat
  month : Nat
  day : Nat
  num : Nat
  scale : Nat
  off : Option Int
deriving DecidableEq, Repr

/-- lowest decimal terms of `n / 10^s` -/
def normDec : Nat → Nat → Nat × Nat
  | n, 0 => (n, 0)
  | n, s + 1 => if n % 10 = 0 then normDec (n / 10) s else (n, s + 1)

/-- which of the two X.680 types a kind is (GeneralizedTime has the four-digit year) -/
def isGT (k : Kind) : Bool := k.yearsDigits = 4

/-- all characters are digits -/
def allDig (s : List Char) : Bool := s.all isDig

def num2 (s : List Char) : Nat := digitsVal 0 (s.take 2)

/-- zone designator of a time string: text before it and the offset; GeneralizedTime admits
    `Z`, `±hhmm`, `±hh` and nothing (local); UTCTime admits `Z` and `±hhmm` -/
def readZone (k : Kind) (s : List Char) : Option (List Char × Option Int) :=
  if s.getLast? = some 'Z' then some (s.dropLast, some 0)
  else if '+' ∈ s ∨ '-' ∈ s then
    let plus : Bool := '+' ∈ s
    let p := if plus then splitOn1 '+' s else splitOn1 '-' s
    let z := p.2
    if allDig z ∧ (z.length = 4 ∨ (isGT k ∧ z.length = 2)) then
      let hh := num2 z
      let mm := num2 (z.drop 2)
      if hh < 24 ∧ mm < 60 then
        some (p.1, some (if plus then Int.ofNat (hh * 60 + mm) else - Int.ofNat (hh * 60 + mm)))
      else none
    else none
  else if isGT k then some (s, none) else none

def notMark (c : Char) : Bool := c != '.' && c != ','

/-- the fraction: text before the decimal mark and the fraction digits (`.` or `,`) -/
def readFrac (k : Kind) (s : List Char) : Option (List Char × List Char) :=
  if '.' ∈ s ∨ ',' ∈ s then
    if ¬ isGT k then none else
    let f := (s.dropWhile notMark).drop 1
    if f ≠ [] ∧ allDig f then some (s.takeWhile notMark, f) else none
  else some (s, [])

/-- time of day `base + unit * 0.f` microseconds, in lowest decimal terms -/
def todOf (base unit : Nat) (f : List Char) : Nat × Nat :=
  normDec (base * 10 ^ f.length + unit * digitsVal 0 f) f.length

/-- date and time-of-day fields; the fraction applies to the last stated unit -/
def readMain (k : Kind) (m f : List Char) (off : Option Int) : Option Instant :=
  if ¬ allDig m then none else
  let yd := k.yearsDigits
  let y := if yd = 4 then digitsVal 0 (m.take 4) else
    (if num2 m ≤ 68 then 2000 + num2 m else 1900 + num2 m)
  let r := m.drop yd
  let mo := num2 r
  let d := num2 (r.drop 2)
  let h := num2 (r.drop 4)
  let mi := num2 (r.drop 6)
  let sec := num2 (r.drop 8)
  let okLen := r.length = 10 ∨ r.length = 8 ∨ (isGT k ∧ r.length = 6)
  if ¬ okLen then none
  else if ¬ (1 ≤ mo ∧ mo ≤ 12 ∧ 1 ≤ d ∧ d ≤ daysIn y mo ∧ h < 24 ∧ mi < 60 ∧ sec < 60) then none
  else
    let unit := if r.length = 10 then 1000000 else if r.length = 8 then 60000000 else 3600000000
    let base := (h * 3600 + mi * 60 + sec) * 1000000
    let nd := todOf base unit f
    some ⟨y, mo, d, nd.1, nd.2, off⟩

/-- the instant a GeneralizedTime / UTCTime string denotes per X.680 §46 / §47; `none` = not in the grammar -/
def instant (k : Kind) (s : List Char) : Option Instant :=
  match readZone k s with
  | none => none
  | some (body, off) =>
    match readFrac k body with
    | none => none
    | some (m, f) => readMain k m f off

/-- the instant of a datetime (naive = UTC is applied by the caller through `off`) -/
def DT.instant (dt : DT) : Instant :=
  ⟨dt.year, dt.month, dt.day, (dt.hour * 3600 + dt.minute * 60 + dt.second) * 1000000 + dt.micro, 0, dt.off⟩

/-! ### driver ops -/

def kindOf : String → Option Kind
  | "gt" => some gt | "utc" => some utc | _ => none

def charsOf (b : Bytes) : List Char := b.map fun x => Char.ofNat x.toNat
def bytesOf (s : List Char) : Bytes := s.map fun c => UInt8.ofNat c.toNat

def offStr : Option Int → String
  | none => "none" | some o => toString o

def errStr : TErr → String
  | .liberr => "err liberr" | .leak e => "err leak:" ++ e

def b01 (b : Bool) : String := if b then "1" else "0"

def handle : List Sexp → Option String
  | [.atom "TIME_FLAGS", .atom k] => do
      let k ← kindOf k
      some s!"ok {k.yearsDigits} {b01 k.hasSubsecond} {b01 k.optionalMinutes} {b01 k.shortTZ} {k.minLength} {k.maxLength}"
  | [.atom "TIME_FROM", .atom k, .atom y, .atom m, .atom d, .atom h, .atom mi, .atom s, .atom us, .atom off] => do
      let k ← kindOf k
      let o ← if off = "none" then some none else off.toInt?.map some
      let dt : DT := ⟨← y.toNat?, ← m.toNat?, ← d.toNat?, ← h.toNat?, ← mi.toNat?, ← s.toNat?, ← us.toNat?, o⟩
      some s!"ok {hexOut (bytesOf (fromDateTime k dt))}"
  | [.atom "TIME_AS", .atom k, .atom hex] => do
      let k ← kindOf k
      let b ← hexArg hex
      match asDateTime k (charsOf b) with
      | .ok dt => some s!"ok {dt.year} {dt.month} {dt.day} {dt.hour} {dt.minute} {dt.second} {dt.micro} {offStr dt.off}"
      | .error e => some (errStr e)
  | [.atom "TIME_CANON", .atom k, .atom hex] => do
      let k ← kindOf k
      let b ← hexArg hex
      match canonTime k (charsOf b) with
      | .ok s => some s!"ok {hexOut (bytesOf s)}"
      | .error e => some (errStr e)
  | [.atom "TIME_INSTANT", .atom k, .atom hex] => do
      let k ← kindOf k
      let b ← hexArg hex
      match instant k (charsOf b) with
      | some i => some s!"ok {i.year} {i.month} {i.day} {i.num} {i.scale} {offStr i.off}"
      | none => some "none"
  | _ => none

end Asn1.Time
