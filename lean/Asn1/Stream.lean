/-
  Asn1.Stream — the stream layer (pyasn1/codec/streaming.py) and decoder programs over it.

  (a) `Prog ε α`: decoder programs as a free monad over the stream primitives the decoders use.
      A Python generator that `yield`s a `SubstrateUnderrunError` and is re-entered later is a
      program that suspends (`Out.susp`) and whose stored continuation is resumed on more data;
      a `yield` of a decoded object is `emit`.
        read n      readFromStream(substrate, n)   exactly n octets; a short read is rewound
        readAll c   readFromStream(substrate)      size = -1; `c` = the caller catches EndOfStreamError
                                                   (Decoder.__call__: tail = b'')
        eos         isEndOfStream(substrate)
        tell        substrate.tell()
        seekBack n  substrate.seek(-n, os.SEEK_CUR)
        mark        substrate.markedPosition = substrate.tell()
        toMark      substrate.seek(substrate.markedPosition); the continuation gets tell() - markedPosition
      `peek n` (peekIntoStream) is derived: read n, seek back.
      `run kind B d closed p s`: run `p` on the octets `d` that have arrived so far; `closed` = the
      stream has signalled its end.  Stream kinds (DESIGN §5 C05): `bytesIO` = K1/K2 (io.BytesIO and
      subclasses: complete at construction, isEndOfStream takes the tell()==end fast path),
      `seekable` = K3 (any other seekable stream: read() -> None while open and empty, b'' once
      closed), `wrapped` = K4 (non-seekable stream behind CachingStreamWrapper: as K3, and setting
      the mark more than `B` = io.DEFAULT_BUFFER_SIZE octets into the cache drops the cache and
      renumbers positions).
  (b) `parseP`: the framing parser of Asn1/TLV.lean (`parse`) as such a program, primitive by
      primitive as ber/decoder.py SingleItemDecoder.__call__ issues them; `iterP` =
      StreamingDecoder.__iter__; `oneShotP` = Decoder.__call__.
  (c) `Wrapper`: CachingStreamWrapper as a state machine over a model of io.BytesIO, next to the
      reference seekable stream `Ref`.
  No Mathlib imports: linked into the compiled driver.
-/
import Asn1.Generated
import Asn1.Sexp

namespace Asn1.Stream

/-! ## (a) programs and their semantics -/

inductive Kind
  | bytesIO | seekable | wrapped
deriving DecidableEq, Repr, Inhabited

/-- error classes of the stream layer: `eos` = EndOfStreamError (a SubstrateUnderrunError),
    `malformed` = any other PyAsn1Error, `leak` = a non-library exception, `fuel` = model fuel -/
inductive SErr
  | eos | malformed | leak | fuel
deriving DecidableEq, Repr, Inhabited

/-- what a program run carries along: absolute position, absolute marked position, the wrapper's
    renumbering offset (octets dropped from its cache; 0 on the other kinds) and the objects
    yielded so far (latest first) -/
structure St (ε : Type) where
  pos : Nat := 0
  mark : Nat := 0
  base : Nat := 0
  out : List ε := []
deriving Repr, Inhabited

inductive Prog (ε α : Type) where
  | pure : α → Prog ε α
  | fail : SErr → Prog ε α
  | emit : ε → Prog ε α → Prog ε α
  | read : Nat → (Bytes → Prog ε α) → Prog ε α
  | readAll : Bool → (Bytes → Prog ε α) → Prog ε α
  | eos : (Bool → Prog ε α) → Prog ε α
  | tell : (Nat → Prog ε α) → Prog ε α
  | seekBack : Nat → Prog ε α → Prog ε α
  | mark : Prog ε α → Prog ε α
  | toMark : (Nat → Prog ε α) → Prog ε α

variable {ε α β : Type}

def Prog.bind : Prog ε α → (α → Prog ε β) → Prog ε β
  | .pure a, g => g a
  | .fail e, _ => .fail e
  | .emit x p, g => .emit x (p.bind g)
  | .read n f, g => .read n fun b => (f b).bind g
  | .readAll c f, g => .readAll c fun b => (f b).bind g
  | .eos f, g => .eos fun b => (f b).bind g
  | .tell f, g => .tell fun n => (f n).bind g
  | .seekBack n p, g => .seekBack n (p.bind g)
  | .mark p, g => .mark (p.bind g)
  | .toMark f, g => .toMark fun n => (f n).bind g

/-- peekIntoStream(substrate, n): readFromStream, then seek back to where it started -/
def Prog.peek (n : Nat) (f : Bytes → Prog ε α) : Prog ε α :=
  .read n fun b => .seekBack n (f b)

inductive Out (ε α : Type) where
  | done (a : α) (s : St ε)
  | err (e : SErr) (s : St ε)
  | susp (p : Prog ε α) (s : St ε)

/-- answer of a stream primitive: a value, "no data yet" (the generator yields an underrun and
    will retry), or end of stream -/
inductive Ans (β : Type)
  | ok (b : β) | wait | eos
deriving DecidableEq, Repr

/-- can more octets still arrive?  never on a BytesIO (complete at construction) -/
def Kind.isOpen (k : Kind) (closed : Bool) : Bool :=
  match k with
  | .bytesIO => false
  | _ => !closed

/-- readFromStream(substrate, n).  All n octets there: they are returned.  Otherwise (read()
    returned None, or came back short and the follow-up reads ended in None): rewind, underrun;
    or (b'' seen): EndOfStreamError.  `read(0)` always succeeds. -/
def readAns (k : Kind) (d : Bytes) (closed : Bool) (pos n : Nat) : Ans Bytes :=
  if pos + n ≤ d.length then .ok ((d.drop pos).take n)
  else if k.isOpen closed then .wait else .eos

/-- readFromStream(substrate) with size = -1: whatever is there now; None -> underrun; b'' -> EndOfStreamError -/
def readAllAns (k : Kind) (d : Bytes) (closed : Bool) (pos : Nat) : Ans Bytes :=
  if pos < d.length then .ok (d.drop pos)
  else if k.isOpen closed then .wait else .eos

/-- isEndOfStream(substrate): BytesIO fast path `tell() == end`; otherwise read(1) -> None: underrun
    and retry, b'': True, an octet: seek(-1), False -/
def eosAns (k : Kind) (d : Bytes) (closed : Bool) (pos : Nat) : Ans Bool :=
  match k with
  | .bytesIO => .ok (pos == d.length)
  | _ => if pos < d.length then .ok false else if closed then .ok true else .wait

/-! ### below `read n`: raw `read()` calls that may come back short

`readFromStream` (after the repair "a short read while more octets are readily available is not an
underrun") keeps asking for what is missing until the stream has nothing more.  `rawRead` is one
`substrate.read(n)` on a growing stream that hands out at most `cap + 1` octets per call (any
`cap`, possibly different for every call: pipes, sockets, `MAX_READ_SIZE`); `gatherLoop` is the loop.
`Proofs/StreamRaw.lean` shows the loop computes `readAns`, whatever the caps. -/

/-- one `substrate.read(n)`: `none` = None (no data yet), `some []` = b'' -/
def rawRead (d : Bytes) (closed : Bool) (cap : Nat) (pos n : Nat) : Option Bytes :=
  if n = 0 then some []
  else if d.length ≤ pos then (if closed then some [] else none)
  else some ((d.drop pos).take (min n (cap + 1)))

/-- the collecting loop: `acc` = octets received so far, `missing` = octets still to come;
    `capOf i` = the cap of the call made with `i` units of fuel left -/
def gatherLoop (d : Bytes) (closed : Bool) (capOf : Nat → Nat) : Nat → Nat → Nat → Bytes → Ans Bytes
  | 0, _, _, acc => .ok acc
  | fuel + 1, pos, missing, acc =>
    if missing = 0 then .ok acc
    else
      match rawRead d closed (capOf fuel) pos missing with
      | none => .wait                 -- rewind, yield SubstrateUnderrunError
      | some [] => .eos               -- raise EndOfStreamError
      | some (x :: xs) =>
        gatherLoop d closed capOf fuel (pos + (x :: xs).length) (missing - (x :: xs).length) (acc ++ x :: xs)

/-- `readFromStream(substrate, n)` over raw reads with arbitrary caps -/
def readFromStreamRaw (d : Bytes) (closed : Bool) (capOf : Nat → Nat) (pos n : Nat) : Ans Bytes :=
  gatherLoop d closed capOf (n + 1) pos n []

/-- `substrate.markedPosition = substrate.tell()`; CachingStreamWrapper drops its cache and renumbers
    when more than `B` octets of it have been consumed -/
def St.setMark (k : Kind) (B : Nat) (s : St ε) : St ε :=
  if k = .wrapped ∧ B < s.pos - s.base then { s with mark := s.pos, base := s.pos }
  else { s with mark := s.pos }

def run (k : Kind) (B : Nat) (d : Bytes) (closed : Bool) : Prog ε α → St ε → Out ε α
  | .pure a, s => .done a s
  | .fail e, s => .err e s
  | .emit x p, s => run k B d closed p { s with out := x :: s.out }
  | .read n f, s =>
    match readAns k d closed s.pos n with
    | .ok b => run k B d closed (f b) { s with pos := s.pos + n }
    | .wait => .susp (.read n f) s
    | .eos => .err .eos s
  | .readAll c f, s =>
    match readAllAns k d closed s.pos with
    | .ok b => run k B d closed (f b) { s with pos := s.pos + b.length }
    | .wait => .susp (.readAll c f) s
    | .eos => if c then run k B d closed (f []) s else .err .eos s
  | .eos f, s =>
    match eosAns k d closed s.pos with
    | .ok b => run k B d closed (f b) s
    | .wait => .susp (.eos f) s
    | .eos => .err .eos s
  | .tell f, s => run k B d closed (f (s.pos - s.base)) s
  | .seekBack n p, s =>
    -- io.BytesIO.seek to a negative position raises ValueError
    if n ≤ s.pos - s.base then run k B d closed p { s with pos := s.pos - n } else .err .leak s
  | .mark p, s => run k B d closed p (s.setMark k B)
  | .toMark f, s => run k B d closed (f (s.pos - s.mark)) { s with pos := s.mark }

/-- feed the chunks one at a time: run on what has arrived; on an underrun deliver the next chunk
    (an empty chunk = a "no data yet" poll) and resume the suspended program; after the last chunk
    the stream is closed (a trailing empty chunk = end-of-stream signalled after the last octet
    rather than together with it) -/
def runSched (k : Kind) (B : Nat) : Bytes → List Bytes → Prog ε α → St ε → Out ε α
  | a, [], p, s => run k B a true p s
  | a, c :: cs, p, s =>
    match run k B a false p s with
    | .susp p' s' => runSched k B (a ++ c) cs p' s'
    | o => o

/-- the same, keeping every intermediate outcome (what the consumer of the iterator sees) -/
def runSchedAll (k : Kind) (B : Nat) : Bytes → List Bytes → Prog ε α → St ε → List (Out ε α)
  | a, [], p, s => [run k B a true p s]
  | a, c :: cs, p, s =>
    match run k B a false p s with
    | .susp p' s' => .susp p' s' :: runSchedAll k B (a ++ c) cs p' s'
    | o => [o]

/-- a comparable summary of an outcome: how it ended, `tell()` then, `tell()` after each object yielded -/
inductive Ending
  | done | err (e : SErr) | susp
deriving DecidableEq, Repr

def Out.summary : Out (TLV × Nat) α → Ending × Nat × List Nat
  | .done _ s => (.done, s.pos - s.base, (s.out.map (·.2)).reverse)
  | .err e s => (.err e, s.pos - s.base, (s.out.map (·.2)).reverse)
  | .susp _ s => (.susp, s.pos - s.base, (s.out.map (·.2)).reverse)

/-- the absolute position one past the last octet the pending primitive needs -/
def Prog.needs : Prog ε α → St ε → Nat
  | .read n _, s => s.pos + n
  | .readAll _ _, s => s.pos + 1
  | .eos _, s => s.pos + 1
  | _, s => s.pos

/-! ## (b) the framing parser as a program -/

/-- long-form tag number (`stDecodeTag` inner loop): one octet per read -/
def tagNumP : Nat → Nat → Bytes → Prog ε (Nat × Bytes)
  | 0, _, _ => .fail .fuel
  | tf + 1, acc, hb => .read 1 fun b =>
    match b with
    | [x] =>
      let acc' := acc * 128 + x.toNat % 128
      if x.toNat < 128 then .pure (acc', hb ++ [x]) else tagNumP tf acc' (hb ++ [x])
    | _ => .fail .leak

/-- `stDecodeTag`; returns the tag and the identifier octets read -/
def tagP (tf : Nat) : Prog ε (Tag × Bytes) :=
  .read 1 fun b =>
    match b with
    | [x] =>
      let n := x.toNat
      let cls := TagClass.ofBits n
      let cons := n / 32 % 2 = 1
      if n % 32 = 31 then
        (tagNumP tf 0 [x]).bind fun r => .pure (⟨cls, cons, r.1⟩, r.2)
      else .pure (⟨cls, cons, n % 32⟩, [x])
    | _ => .fail .leak

/-- `stDecodeLength`; returns the length and the length octets read -/
def lenP : Prog ε (Len × Bytes) :=
  .read 1 fun b =>
    match b with
    | [x] =>
      let n := x.toNat
      if n < 128 then .pure (.definite n, [x])
      else if n = 128 then .pure (.indefinite, [x])
      else .read (n % 128) fun lb => .pure (.definite (bytesToNat lb), x :: lb)
    | _ => .fail .leak

mutual
/-- SingleItemDecoder.__call__ (framing): mark, tag, length, then the value:
    primitive = one read; definite constructed = components while `tell() - original_position <
    length`, then the `bytesRead != length` check; indefinite = components until end-of-octets -/
def parseP (cfg : ParseCfg) (tf : Nat) : Nat → Prog ε TLV
  | 0 => .fail .fuel
  | fuel + 1 =>
    .mark ((tagP tf).bind fun th => lenP.bind fun lh =>
      let tag := th.1
      let hdr := th.2 ++ lh.2
      match lh.1 with
      | .definite n =>
        if tag.constructed then
          .tell fun orig => (childrenDefP cfg tf fuel n orig).bind fun cs =>
            .pure (.cons hdr tag false cs)
        else .read n fun c => .pure (.prim hdr tag c)
      | .indefinite =>
        if !cfg.allowIndef then .fail .malformed
        else if !tag.constructed then .fail .malformed
        else (childrenIndefP cfg tf fuel).bind fun cs => .pure (.cons hdr tag true cs))
/-- `while substrate.tell() - original_position < length`, then `bytesRead != length` -/
def childrenDefP (cfg : ParseCfg) (tf : Nat) : Nat → Nat → Nat → Prog ε (List TLV)
  | 0, _, _ => .fail .fuel
  | fuel + 1, n, orig => .tell fun p =>
    if (p : Int) - orig < n then
      (parseP cfg tf fuel).bind fun c => (childrenDefP cfg tf fuel n orig).bind fun cs =>
        .pure (c :: cs)
    else if (p : Int) - orig = n then .pure []
    else .fail .malformed
/-- `allowEoo`: read two octets; `00 00` ends the container, anything else is put back -/
def childrenIndefP (cfg : ParseCfg) (tf : Nat) : Nat → Prog ε (List TLV)
  | 0 => .fail .fuel
  | fuel + 1 => .read 2 fun e =>
    if e = eooBytes then .pure []
    else .seekBack 2 ((parseP cfg tf fuel).bind fun c => (childrenIndefP cfg tf fuel).bind fun cs =>
      .pure (c :: cs))
end

/-- StreamingDecoder.__iter__: an item, yield it, stop when isEndOfStream -/
def iterP (item : Prog ε ε) : Nat → Prog ε Unit
  | 0 => .fail .fuel
  | n + 1 => item.bind fun x => .emit x (.eos fun e => if e then .pure () else iterP item n)

/-- Decoder.__call__: the first item and whatever follows (`EndOfStreamError` -> empty tail) -/
def oneShotP (item : Prog ε α) : Prog ε (α × Bytes) :=
  item.bind fun x => .readAll true fun tail => .pure (x, tail)

/-- the streaming decoder over the framing layer, with fuel that always suffices for `n` octets -/
def streamP (cfg : ParseCfg) (n : Nat) : Prog (TLV × Nat) Unit :=
  iterP ((parseP cfg (n + 1) (n + 2)).bind fun t => .tell fun p => .pure (t, p)) (n + 1)

/-! ## (c) CachingStreamWrapper as a state machine -/

/-- `io.BytesIO.write(data)` at position `pos`: overwrites, zero-fills a gap, extends -/
def bioWrite (buf : Bytes) (pos : Nat) (data : Bytes) : Bytes :=
  (buf.take pos ++ List.replicate (pos - buf.length) 0) ++ data ++ buf.drop (pos + data.length)

/-- `io.BytesIO.read(n)` at position `pos` -/
def bioRead (buf : Bytes) (pos n : Nat) : Bytes := (buf.drop pos).take n

structure Wrapper where
  cache : Bytes := []     -- self._cache (contents)
  cpos : Nat := 0         -- self._cache.tell()
  mark : Nat := 0         -- self._markedPosition
  raw : Bytes             -- what self._raw will still deliver (complete, blocking: n octets unless at the end)
  dropped : Nat := 0      -- ghost (not in the Python object): octets dropped from the cache so far
deriving Repr, DecidableEq

/-- the reference: a seekable stream (io.BytesIO) over the same octets, with a `markedPosition` attribute -/
structure Ref where
  data : Bytes
  pos : Nat := 0
  mark : Nat := 0
deriving Repr, DecidableEq

inductive WOp
  | read (n : Nat)       -- read(n), n ≥ 0
  | readAll              -- read(-1)
  | peek (n : Nat)       -- peek(n)
  | seekSet (p : Nat)    -- seek(p, os.SEEK_SET)
  | seekCur (k : Nat)    -- seek(-k, os.SEEK_CUR)
  | seekMark             -- seek(markedPosition, os.SEEK_SET)
  | tell                 -- tell()
  | setMark              -- markedPosition = tell()
  | getMark              -- markedPosition
deriving Repr, DecidableEq

inductive WOut
  | bytes (b : Bytes) | nat (n : Nat) | unit | valueError
deriving Repr, DecidableEq

/-- CachingStreamWrapper.read(n) for n ≥ 0 -/
def Wrapper.read (w : Wrapper) (n : Nat) : Bytes × Wrapper :=
  let fromCache := bioRead w.cache w.cpos n
  if fromCache.length = n then (fromCache, { w with cpos := w.cpos + fromCache.length })
  else
    let need := n - fromCache.length
    let fromRaw := w.raw.take need
    let at_ := w.cpos + fromCache.length
    (fromCache ++ fromRaw,
      { w with cache := bioWrite w.cache at_ fromRaw, cpos := at_ + fromRaw.length, raw := w.raw.drop need })

/-- CachingStreamWrapper.read(-1) -/
def Wrapper.readAll (w : Wrapper) : Bytes × Wrapper :=
  let fromCache := w.cache.drop w.cpos
  let at_ := w.cpos + fromCache.length
  (fromCache ++ w.raw,
    { w with cache := bioWrite w.cache at_ w.raw, cpos := at_ + w.raw.length, raw := [] })

def Wrapper.step (B : Nat) (w : Wrapper) : WOp → WOut × Wrapper
  | .read n => let r := w.read n; (.bytes r.1, r.2)
  | .readAll => let r := w.readAll; (.bytes r.1, r.2)
  | .peek n =>
    -- result = self.read(n); self._cache.seek(-len(result), os.SEEK_CUR)
    let r := w.read n
    (.bytes r.1, { r.2 with cpos := r.2.cpos - r.1.length })
  | .seekSet p => (.nat p, { w with cpos := p })
  | .seekCur k => if k ≤ w.cpos then (.nat (w.cpos - k), { w with cpos := w.cpos - k }) else (.valueError, w)
  | .seekMark => (.nat w.mark, { w with cpos := w.mark })
  | .tell => (.nat w.cpos, w)
  | .setMark =>
    -- self._markedPosition = value; if self._cache.tell() > io.DEFAULT_BUFFER_SIZE: drop, renumber
    if B < w.cpos then
      (.unit, { w with cache := w.cache.drop w.cpos, cpos := 0, mark := 0, dropped := w.dropped + w.cpos })
    else (.unit, { w with mark := w.cpos })
  | .getMark => (.nat w.mark, w)

def Ref.step (r : Ref) : WOp → WOut × Ref
  | .read n => (.bytes (bioRead r.data r.pos n), { r with pos := r.pos + (bioRead r.data r.pos n).length })
  | .readAll => (.bytes (r.data.drop r.pos), { r with pos := r.pos + (r.data.drop r.pos).length })
  | .peek n => (.bytes (bioRead r.data r.pos n), r)
  | .seekSet p => (.nat p, { r with pos := p })
  | .seekCur k => if k ≤ r.pos then (.nat (r.pos - k), { r with pos := r.pos - k }) else (.valueError, r)
  | .seekMark => (.nat r.mark, { r with pos := r.mark })
  | .tell => (.nat r.pos, r)
  | .setMark => (.unit, { r with mark := r.pos })
  | .getMark => (.nat r.mark, r)

def Wrapper.runOps (B : Nat) : Wrapper → List WOp → List WOut
  | _, [] => []
  | w, op :: ops => let r := w.step B op; r.1 :: Wrapper.runOps B r.2 ops

def Ref.runOps : Ref → List WOp → List WOut
  | _, [] => []
  | r, op :: ops => let x := r.step op; x.1 :: Ref.runOps x.2 ops

/-- the precondition the decoder respects (docstring of `markedPosition`): never seek before the
    mark, never seek forward past what has been read -/
def Ref.pre (r : Ref) : WOp → Bool
  | .seekSet p => r.mark ≤ p && p ≤ r.pos
  | .seekCur k => k ≤ r.pos && r.mark ≤ r.pos - k
  | _ => true

def Ref.preAll : Ref → List WOp → Bool
  | _, [] => true
  | r, op :: ops => r.pre op && Ref.preAll (r.step op).2 ops

/-- no `setMark` of the history finds more than `B` octets consumed since the start (no cache drop) -/
def Ref.noDrop (B : Nat) : Ref → List WOp → Bool
  | _, [] => true
  | r, op :: ops => (op != .setMark || r.pos ≤ B) && Ref.noDrop B (r.step op).2 ops

/-! ## driver glue (not verified) -/

def kindOf : String → Option Kind
  | "K1" => some .bytesIO | "K2" => some .bytesIO | "K3" => some .seekable | "K4" => some .wrapped
  | _ => none

def serrStr : SErr → String
  | .eos => "eos" | .malformed => "malformed" | .leak => "leak" | .fuel => "fuel"

def splitSizes : Bytes → List Nat → List Bytes
  | _, [] => []
  | b, n :: ns => b.take n :: splitSizes (b.drop n) ns

/-- objects yielded between two outcomes: `V<tell() after the object>:<octets of the object>` -/
def newItems (before after : List (TLV × Nat)) : List String :=
  ((after.take (after.length - before.length)).reverse).map fun t => s!"V@{t.2}:{t.1.ser.length}"

def outTokens (prev : List (TLV × Nat)) : Out (TLV × Nat) Unit → List String × List (TLV × Nat)
  | .done _ s => (newItems prev s.out ++ [s!"stop@{s.pos - s.base}"], s.out)
  | .err e s => (newItems prev s.out ++ [s!"err:{serrStr e}@{s.pos - s.base}"], s.out)
  | .susp _ s => (newItems prev s.out ++ [s!"U@{s.pos - s.base}"], s.out)

def traceTokens : List (TLV × Nat) → List (Out (TLV × Nat) Unit) → List String
  | _, [] => []
  | prev, o :: os => let r := outTokens prev o; r.1 ++ traceTokens r.2 os

def natsOf : List Sexp → Option (List Nat)
  | [] => some []
  | .atom a :: rest => do pure ((← a.toNat?) :: (← natsOf rest))
  | _ => none

def wopOf : Sexp → Option WOp
  | .list [.atom "r", .atom n] => n.toNat?.map .read
  | .atom "a" => some .readAll
  | .list [.atom "p", .atom n] => n.toNat?.map .peek
  | .list [.atom "s", .atom n] => n.toNat?.map .seekSet
  | .list [.atom "c", .atom n] => n.toNat?.map .seekCur
  | .atom "k" => some .seekMark
  | .atom "t" => some .tell
  | .atom "m" => some .setMark
  | .atom "g" => some .getMark
  | _ => none

def woutStr : WOut → String
  | .bytes b => s!"b:{hexOut b}"
  | .nat n => s!"n:{n}"
  | .unit => "u"
  | .valueError => "ValueError"

def repeatBytes (b : Bytes) : Nat → Bytes
  | 0 => []
  | n + 1 => b ++ repeatBytes b n

def handle : List Sexp → Option String
  | [.atom "STREAM", .atom kind, .atom codec, .atom hex, .list sizes] => do
      let k ← kindOf kind
      let cfg : ParseCfg ← match codec with
        | "ber" => some Generated.berDecByType.parse
        | "cer" => some Generated.cerDecByType.parse
        | "der" => some Generated.derDecByType.parse
        | _ => none
      let d ← hexArg hex
      let ns ← natsOf sizes
      let chunks := splitSizes d ns
      -- a BytesIO holds everything from the start; the other kinds start empty and are fed the chunks
      let outs := if k = .bytesIO then runSchedAll k Generated.defaultBufferSize d [] (streamP cfg d.length) {}
                  else runSchedAll k Generated.defaultBufferSize [] chunks (streamP cfg d.length) {}
      some ("ok " ++ " ".intercalate (traceTokens [] outs))
  | .atom "WRAP" :: .atom hex :: .atom count :: ops => do
      let d := repeatBytes (← hexArg hex) (← count.toNat?)
      let ops ← ops.mapM wopOf
      let w := Wrapper.runOps Generated.defaultBufferSize { raw := d } ops
      let r := Ref.runOps { data := d } ops
      some ("ok " ++ " ".intercalate (w.map woutStr) ++ " / " ++ " ".intercalate (r.map woutStr))
  | _ => none

end Asn1.Stream
