/-
  Asn1.KernelDriver — line-protocol access to the translated kernels (`Asn1/GenKernels.lean`) and to
  the run-time library (`Asn1/PyLite.lean`), so that the harness can run the *translation* of a
  function and the function itself on the same arguments (harness/kernels.py): the translator and
  PyLite are checked, not trusted.
-/
import Asn1.GenKernels
import Asn1.Stream
import Asn1.Sexp

namespace Asn1.KernelDriver
open Asn1

def errName : Py.PyErr → String
  | .lib c => c
  | .indexError => "IndexError"
  | .overflowError => "OverflowError"
  | .fuel => "FUEL"

def ints (l : List Int) : String := String.join (l.map fun x => " " ++ toString x)

def out : Py.M Py.Tup → String
  | .ok l => "ok" ++ ints l
  | .error e => "err " ++ errName e

def intArgs (l : List Sexp) : Option (List Int) :=
  l.mapM fun x => match x with | .atom a => a.toInt? | _ => none

def handle : List Sexp → Option String
  | [.atom "KTAG", .atom c, .atom f, .atom n, .atom ic] => do
      some (out (GenK.encodeTag [← c.toInt?, ← f.toInt?, ← n.toInt?] (ic = "1")))
  | [.atom "KLEN", .atom indefOk, .atom n, .atom dm] => do
      some (out (GenK.encodeLength (indefOk = "1") (← n.toInt?) (dm = "1")))
  | [.atom "KTOBYTES", .atom v, .atom s, .atom l] => do
      some (out (GenK.toBytes (← v.toInt?) (s = "1") (← l.toInt?)))
  | .atom "KOIDENC" :: args => do
      let a ← intArgs args
      some (match GenK.oidEncode a with
        | .ok (l, b1, b2) => s!"ok{ints l} | {b1} {b2}"
        | .error e => "err " ++ errName e)
  | .atom "KTIME" :: .atom mn :: .atom mx :: args => do
      let a ← intArgs args
      some (out (GenK.timeCanon (← mx.toInt?) (← mn.toInt?) a))
  | [.atom "KREAL", .atom ms, .atom m, .atom eb, .atom e] => do
      some (out (GenK.realBin (← ms.toInt?) (← m.toInt?) (← eb.toInt?) (← e.toInt?)))
  | .atom "KREALDEC" :: .atom fo :: args => do
      let a ← intArgs args
      some (out (GenK.realDec (← fo.toInt?) a))
  | .atom "KDECLEN" :: .atom indef :: .atom fo :: args => do
      let a ← intArgs args
      some (match GenK.decodeLength (indef == "1") (← fo.toInt?) a with
        | .ok l => s!"ok {l}"
        | .error e => "err " ++ errName e)
  | .atom "KCRANGE" :: .atom lo :: .atom hi :: .atom z :: [] => do
      some (match GenK.rangeTest (← lo.toInt?) (← hi.toInt?) (← z.toInt?) with | .ok _ => "ok" | .error e => "err " ++ errName e)
  | .atom "KCSIZE" :: .atom lo :: .atom hi :: args => do
      let a ← intArgs args
      some (match GenK.sizeTest (← lo.toInt?) (← hi.toInt?) a with | .ok _ => "ok" | .error e => "err " ++ errName e)
  | .atom "KCSINGLE" :: .atom z :: args => do
      let a ← intArgs args
      some (match GenK.singleValueTest a (← z.toInt?) with | .ok _ => "ok" | .error e => "err " ++ errName e)
  | .atom "KCALPHA" :: .atom n :: args => do
      -- KCALPHA n s1..sn v...
      let a ← intArgs args
      let k ← n.toNat?
      some (match GenK.alphabetTest (a.take k) (a.drop k) with | .ok _ => "ok" | .error e => "err " ++ errName e)
  | .atom "KCSET" :: .atom which :: args => do
      -- KCSET inter|union|excl v1 v2 ... : operand k answers vk (0 = accepts, 1 = ValueConstraintError, 2 = TypeError)
      let a ← intArgs args
      let o : Int → Py.M Unit := fun k =>
        match a[k.toNat]? with
        | some 0 => .ok ()
        | some 1 => .error (.lib "ValueConstraintError")
        | _ => .error (.lib "TypeError")
      let ks : Py.Tup := (List.range a.length).map Int.ofNat
      let r := match which with
        | "inter" => GenK.intersectionTest ks o
        | "union" => GenK.unionTest ks o
        | _ => GenK.exclusionTest ks o
      some (match r with | .ok _ => "ok" | .error e => "err " ++ errName e)
  | .atom "KSETOF" :: .atom k :: args => do
      -- KSETOF k len1 .. lenk octets...
      let a ← intArgs args
      let n ← k.toNat?
      let lens := (a.take n).map Int.toNat
      let rec cut : List Nat → List Int → List (List Int)
        | [], _ => []
        | l :: ls, bs => bs.take l :: cut ls (bs.drop l)
      some (match GenK.setOfSort (cut lens (a.drop n)) with
        | .ok (sub, c, o) => s!"ok{ints sub} | {c} {o}"
        | .error e => "err " ++ errName e)
  | .atom "KWREAD" :: .atom which :: .atom n :: .atom pos :: .atom rawk :: .atom bl :: args => do
      -- KWREAD read|peek n pos rawkind(-1 = None, else length of the raw answer) buflen buf... raw...
      let a ← intArgs args
      let blen ← bl.toNat?
      let rk ← rawk.toInt?
      let raw : Option Py.Tup := if rk < 0 then none else some (a.drop blen)
      let p0 ← pos.toInt?
      let n0 ← n.toInt?
      let b : Py.BytesIO := ⟨a.take blen, p0⟩
      let r := if which == "peek" then GenK.wrapPeek raw n0 b else GenK.wrapRead raw n0 b
      some (match r with
        | .ok (res, b') => (match res with | none => "ok none" | some t => s!"ok some{ints t}") ++ s!" | {b'.pos} |{ints b'.buf}"
        | .error e => "err " ++ errName e)
  | .atom "KWMARK" :: .atom value :: .atom pos :: .atom mark :: args => do
      let a ← intArgs args
      let v0 ← value.toInt?
      let p0 ← pos.toInt?
      let m0 ← mark.toInt?
      some (match GenK.wrapSetMark v0 ⟨a, p0⟩ m0 with
        | .ok (b', m') => s!"ok {m'} | {b'.pos} |{ints b'.buf}"
        | .error e => "err " ++ errName e)
  | .atom "PYBIO" :: .atom op :: .atom pos :: .atom x :: .atom y :: args => do
      -- PYBIO read pos n 0 buf... | PYBIO seek pos n whence buf... | PYBIO write pos datalen 0 data... buf...
      let a ← intArgs args
      let p ← pos.toInt?
      let x ← x.toInt?
      let y ← y.toInt?
      match op with
      | "read" => let r := Py.bioRead ⟨a, p⟩ x; some s!"ok{ints r.1} | {r.2.pos} |{ints r.2.buf}"
      | "seek" => some (match Py.bioSeek ⟨a, p⟩ x y with
          | .ok (q, b') => s!"ok {q} | {b'.pos} |{ints b'.buf}"
          | .error e => "err " ++ errName e)
      | "write" => let r := Py.bioWrite ⟨a.drop x.toNat, p⟩ (a.take x.toNat); some s!"ok {r.1} | {r.2.pos} |{ints r.2.buf}"
      | _ => none
  | .atom "KREADTURN" :: .atom closed :: .atom cap :: .atom pos :: .atom n :: args => do
      -- KREADTURN closed cap pos n d... : one turn of readFromStream(substrate, n) at pos on the raw stream (d, closed, cap)
      let a ← intArgs args
      let d : List UInt8 := a.map fun z => UInt8.ofNat z.toNat
      let c ← cap.toNat?
      let p0 ← pos.toInt?
      let n0 ← n.toInt?
      let rd : Int → Int → Option Py.Tup := fun p k =>
        (Asn1.Stream.rawRead d (closed == "1") c p.toNat k.toNat).map fun bs => bs.map fun b => (b.toNat : Int)
      some (match GenK.readTurn rd p0 n0 with
        | .ok (res, p') => (match res with | none => "ok none" | some t => s!"ok some{ints t}") ++ s!" | {p'}"
        | .error e => "err " ++ errName e)
  | .atom "KEOSTURN" :: .atom closed :: .atom cap :: .atom pos :: args => do
      let a ← intArgs args
      let d : List UInt8 := a.map fun z => UInt8.ofNat z.toNat
      let c ← cap.toNat?
      let p0 ← pos.toInt?
      let rd : Int → Int → Option Py.Tup := fun p k =>
        (Asn1.Stream.rawRead d (closed == "1") c p.toNat k.toNat).map fun bs => bs.map fun b => (b.toNat : Int)
      some (match GenK.eosTurn rd p0 with
        | .ok (res, p') => (match res with | none => "ok none" | some t => s!"ok some {if t then 1 else 0}") ++ s!" | {p'}"
        | .error e => "err " ++ errName e)
  | [.atom "KINTENC", .atom compact, .atom v] => do
      some (match GenK.intEncode (compact == "1") (← v.toInt?) with
        | .ok (sub, c, o) => s!"ok{ints sub} | {c} {o}"
        | .error e => "err " ++ errName e)
  | [.atom "KBERBOOLENC", .atom v] => do
      some (match GenK.berBoolEnc (← v.toInt?) with
        | .ok (sub, c, o) => s!"ok{ints sub} | {c} {o}"
        | .error e => "err " ++ errName e)
  | [.atom "KCERBOOLENC", .atom v] => do
      some (match GenK.cerBoolEnc (← v.toInt?) with
        | .ok (sub, c, o) => s!"ok{ints sub} | {c} {o}"
        | .error e => "err " ++ errName e)
  | .atom "KDECTAG" :: args => do
      let a ← intArgs args
      some (out (GenK.decodeTag a))
  | .atom "KCERBOOL" :: .atom ln :: args => do
      let a ← intArgs args
      some (match GenK.cerBool (← ln.toInt?) a with
        | .ok l => s!"ok {l}"
        | .error e => "err " ++ errName e)
  | .atom "KWRAP" :: .atom indefOk :: .atom ine :: .atom dm :: .atom ic :: .atom io :: .atom nt :: args => do
      -- KWRAP supportIndefLenMode ifNotEmpty defMode isConstructed isOctets ntags (cls fmt num)* substrate...
      let a ← intArgs args
      let n ← nt.toNat?
      let rec triples : Nat → List Int → List (List Int)
        | 0, _ => []
        | k + 1, l => l.take 3 :: triples k (l.drop 3)
      let tags := triples n a
      let sub := a.drop (3 * n)
      some (out (GenK.wrapTags (indefOk == "1") (ine == "1") tags (dm == "1") sub (ic == "1") (io == "1")))
  | .atom "KREQSEEN" :: .atom indef :: .atom nreq :: args => do
      let a ← intArgs args
      let k ← nreq.toNat?
      let r := if indef == "1" then GenK.requiredSeenIndef (a.take k) (a.drop k) else GenK.requiredSeen (a.take k) (a.drop k)
      some (match r with
        | .ok v => s!"ok {v}"
        | .error e => "err " ++ errName e)
  | [.atom "KSEQOFIDX", .atom which, .atom n, .atom i] => do
      let n' ← n.toInt?
      let i' ← i.toInt?
      some (match (if which == "set" then GenK.seqOfSetIdx n' i' else GenK.seqOfGetIdx n' i') with
        | .ok v => s!"ok {v}"
        | .error e => "err " ++ errName e)
  | .atom "KANYCAP" :: .atom mark :: .atom start :: .atom unt :: .atom len :: args => do
      let a ← intArgs args
      let m ← mark.toInt?
      let st ← start.toInt?
      let l ← len.toInt?
      some (match GenK.anyCapture m a st (unt == "1") l with
        | .ok (c, p) => s!"ok{ints c} | {p}"
        | .error e => "err " ++ errName e)
  | [.atom "KEXPLGUESS", .atom es, .atom cls, .atom fmt] => do
      some (match GenK.explicitGuess (← es.toInt?) (← cls.toInt?) (← fmt.toInt?) [0] with
        | .ok v => s!"ok {v}"
        | .error e => "err " ++ errName e)
  | .atom "KBERBOOLDEC" :: args => do
      let a ← intArgs args
      some (match GenK.intDecode a >>= GenK.berBoolDec with
        | .ok v => s!"ok {v}"
        | .error e => "err " ++ errName e)
  | .atom "KNULLDEC" :: .atom ns :: args => do
      let a ← intArgs args
      some (match GenK.nullDecode (ns == "1") a a.length with
        | .ok v => s!"ok {v}"
        | .error e => "err " ++ errName e)
  | .atom "KBITSDEC" :: args => do
      let a ← intArgs args
      some (match GenK.bitsDecode a a.length with
        | .ok (v, n) => s!"ok {v} {n}"
        | .error e => "err " ++ errName e)
  | .atom "KBITSFROM" :: .atom pad :: args => do
      let a ← intArgs args
      let p ← pad.toInt?
      some (match GenK.bitsFromOctets a p with
        | .ok (v, n) => s!"ok {v} {n}"
        | .error e => "err " ++ errName e)
  | .atom "KINTDEC" :: args => do
      let a ← intArgs args
      some (match GenK.intDecode a with
        | .ok l => s!"ok {l}"
        | .error e => "err " ++ errName e)
  | .atom "PYFROMBYTES" :: .atom sg :: args => do
      let a ← intArgs args
      some s!"ok {Py.fromBytes a (sg == "1")}"
  | .atom "KOIDDEC" :: args => do
      let a ← intArgs args
      some (out (GenK.oidDecode a))
  | .atom "PYSL2" :: .atom i :: .atom j :: args => do
      let a ← intArgs args
      some s!"ok{ints (Py.sliceG a (← i.toInt?) (← j.toInt?))}"
  | .atom "KOCTCHUNK" :: .atom n :: args => do
      -- the callback of the real run is a stub writing EE, len % 256, chunk
      let a ← intArgs args
      some (match GenK.octetChunks (fun c => pure (([238, ((c.length % 256 : Nat) : Int)] : Py.Tup) ++ c)) a (← n.toInt?) with
        | .ok (sub, c, o) => s!"ok{ints sub} | {c} {o}"
        | .error e => "err " ++ errName e)
  | .atom "PYSL" :: .atom which :: .atom i :: args => do
      let a ← intArgs args
      let i ← i.toInt?
      match which with
      | "from" => some s!"ok{ints (Py.sliceFromG a i)}"
      | "to" => some s!"ok{ints (Py.sliceToG a i)}"
      | _ => none
  | [.atom "PYOP", .atom op, .atom a, .atom b] => do
      let a ← a.toInt?
      let b ← b.toInt?
      match op with
      | "pow" => some (match Py.pow a b with | .ok r => s!"ok {r}" | .error _ => "err TypeError")
      | "and" => some s!"ok {Py.band a b}"
      | "or" => some s!"ok {Py.bor a b}"
      | "shr" => some s!"ok {Py.shr a b}"
      | "shl" => some s!"ok {Py.shl a b}"
      | "fdiv" => some s!"ok {Py.fdiv a b}"
      | "fmod" => some s!"ok {Py.fmod a b}"
      | "inv" => some s!"ok {Py.inv a}"
      | "bitlen" => some s!"ok {Py.bitLength a}"
      | "tobytes" => some (out (Py.toBytes a b true))
      | "tobytesu" => some (out (Py.toBytes a b false))
      | _ => none
  | _ => none

end Asn1.KernelDriver
