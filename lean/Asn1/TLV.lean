/-
  Asn1.TLV — the syntactic layer of BER: tag-length-value trees, their serialisation and the
  parser.  The parser mirrors the framing part of ber/decoder.py `SingleItemDecoder.__call__`
  (stDecodeTag, stDecodeLength, the definite `bytesRead != length` check, the end-of-octets probe)
  independent of any schema.  Nodes remember their header octets verbatim so that
  `ser (parse b) = b` (needed for ANY, which captures the complete encoding).
-/
import Asn1.Tag

namespace Asn1

inductive TLV
  | prim (hdr : Bytes) (tag : Tag) (content : Bytes)
  | cons (hdr : Bytes) (tag : Tag) (indef : Bool) (children : List TLV)
deriving Repr, Inhabited

def TLV.tag : TLV → Tag
  | .prim _ t _ => t
  | .cons _ t _ _ => t

def eooBytes : Bytes := [0, 0]

mutual
def TLV.ser : TLV → Bytes
  | .prim h _ c => h ++ c
  | .cons h _ indef cs => h ++ (serList cs ++ (if indef then eooBytes else []))
def serList : List TLV → Bytes
  | [] => []
  | c :: cs => c.ser ++ serList cs
end

/-- decoder-side switches (from the generated codec tables) -/
structure ParseCfg where
  allowIndef : Bool := true      -- SingleItemDecoder.supportIndefLength
deriving Repr, Inhabited

def underrunToMalformed {α} : Res α → Res α
  | .error .underrun => .error .malformed
  | r => r

mutual
/-- one complete element from the front of `bs` -/
def parse (cfg : ParseCfg) : Nat → Bytes → Res (TLV × Bytes)
  | 0, _ => .error .fuel
  | fuel + 1, bs =>
    match decodeTag bs with
    | .error e => .error e
    | .ok (tag, r1) =>
      match decodeLength r1 with
      | .error e => .error e
      | .ok (len, r2) =>
        let hdr := bs.take (bs.length - r2.length)
        match len with
        | .definite n =>
          if n ≤ r2.length then
            let content := r2.take n
            let rest := r2.drop n
            if tag.constructed then
              match underrunToMalformed (parseAll cfg fuel content) with
              | .ok cs => .ok (.cons hdr tag false cs, rest)
              | .error e => .error e
            else .ok (.prim hdr tag content, rest)
          else .error .underrun
        | .indefinite =>
          if !cfg.allowIndef then .error .malformed
          else if !tag.constructed then .error .malformed
          else
            match parseUntilEoo cfg fuel r2 with
            | .ok (cs, rest) => .ok (.cons hdr tag true cs, rest)
            | .error e => .error e
/-- the contents of a definite-length constructed element: elements until exhausted -/
def parseAll (cfg : ParseCfg) : Nat → Bytes → Res (List TLV)
  | 0, _ => .error .fuel
  | _ + 1, [] => .ok []
  | fuel + 1, b :: bs =>
    match parse cfg fuel (b :: bs) with
    | .error e => .error e
    | .ok (t, rest) =>
      match parseAll cfg fuel rest with
      | .ok ts => .ok (t :: ts)
      | .error e => .error e
/-- the contents of an indefinite-length element: elements until the end-of-octets marker -/
def parseUntilEoo (cfg : ParseCfg) : Nat → Bytes → Res (List TLV × Bytes)
  | 0, _ => .error .fuel
  | _ + 1, [] => .error .underrun
  | _ + 1, [_] => .error .underrun
  | fuel + 1, a :: b :: bs =>
    if a = 0 ∧ b = 0 then .ok ([], bs)
    else
      match parse cfg fuel (a :: b :: bs) with
      | .error e => .error e
      | .ok (t, rest) =>
        match parseUntilEoo cfg fuel rest with
        | .ok (ts, rest') => .ok (t :: ts, rest')
        | .error e => .error e
end

/-- fuel that always suffices: each recursive call consumes at least one octet -/
def parseFuel (bs : Bytes) : Nat := bs.length + 2

def parseOne (cfg : ParseCfg) (bs : Bytes) : Res (TLV × Bytes) := parse cfg (parseFuel bs) bs

end Asn1
