/-
  Asn1.Sexp — the line protocol's s-expressions for types and values (driver glue, not verified).
-/
import Asn1.Schema

namespace Asn1

inductive Sexp
  | atom (s : String)
  | list (xs : List Sexp)
deriving Repr, Inhabited

def tokenize (s : String) : List String :=
  let rec go (cs : List Char) (cur : List Char) (acc : List String) : List String :=
    match cs with
    | [] => (if cur.isEmpty then acc else String.ofList cur.reverse :: acc).reverse
    | c :: rest =>
      if c = '(' || c = ')' then
        let acc := if cur.isEmpty then acc else String.ofList cur.reverse :: acc
        go rest [] (String.singleton c :: acc)
      else if c = ' ' || c = '\t' || c = '\n' || c = '\r' then
        go rest [] (if cur.isEmpty then acc else String.ofList cur.reverse :: acc)
      else go rest (c :: cur) acc
  go s.toList [] []

mutual
partial def parseSexp : List String → Option (Sexp × List String)
  | [] => none
  | "(" :: rest => do
      let (xs, rest') ← parseSexps rest
      pure (.list xs, rest')
  | ")" :: _ => none
  | a :: rest => some (.atom a, rest)
partial def parseSexps : List String → Option (List Sexp × List String)
  | [] => none
  | ")" :: rest => some ([], rest)
  | toks => do
      let (x, rest) ← parseSexp toks
      let (xs, rest') ← parseSexps rest
      pure (x :: xs, rest')
end

/-- all top-level s-expressions of a line -/
partial def parseLine (toks : List String) : Option (List Sexp) :=
  match toks with
  | [] => some []
  | _ => do
    let (x, rest) ← parseSexp toks
    let xs ← parseLine rest
    pure (x :: xs)

def hexArg (s : String) : Option Bytes := if s = "-" then some [] else ofHex s
def hexOut (b : Bytes) : String := if b.isEmpty then "-" else toHex b

def clsOf : String → Option TagClass
  | "u" => some .universal | "a" => some .application | "c" => some .context | "p" => some .priv
  | _ => none

def clsStr : TagClass → String
  | .universal => "u" | .application => "a" | .context => "c" | .priv => "p"

def bitsOf (s : String) : Option (List Bool) :=
  if s = "-" then some [] else
  s.toList.mapM fun c => if c = '0' then some false else if c = '1' then some true else none

def bitsStr (bs : List Bool) : String :=
  if bs.isEmpty then "-" else String.ofList (bs.map fun b => if b then '1' else '0')

partial def valOf : Sexp → Option Val
  | .atom "null" => some .null
  | .atom "absent" => some .absent
  | .list [.atom "b", .atom x] => some (.bool (x = "1"))
  | .list [.atom "i", .atom x] => x.toInt?.map .int
  | .list [.atom "bits", .atom x] => (bitsOf x).map .bits
  | .list [.atom "s", .atom x] => (hexArg x).map .str
  | .list (.atom "oid" :: xs) => (xs.mapM fun (x : Sexp) => match x with | .atom a => a.toNat? | _ => none).map .oid
  | .list [.atom "real", .atom "pinf"] => some (.real .pinf)
  | .list [.atom "real", .atom "minf"] => some (.real .minf)
  | .list [.atom "real", .atom m, .atom b, .atom e] => do
      pure (.real (.fin (← m.toInt?) (← b.toNat?) (← e.toInt?)))
  | .list (.atom "seq" :: xs) => (xs.mapM valOf).map .seq
  | .list (.atom "of" :: xs) => (xs.mapM valOf).map .seqOf
  | .list [.atom "ch", .atom i, v] => do pure (.choice (← i.toNat?) (← valOf v))
  | .list [.atom "any", .atom x] => (hexArg x).map .any
  | _ => none

partial def valStr : Val → String
  | .null => "null"
  | .absent => "absent"
  | .bool b => s!"(b {if b then 1 else 0})"
  | .int z => s!"(i {z})"
  | .bits bs => s!"(bits {bitsStr bs})"
  | .str b => s!"(s {hexOut b})"
  | .oid arcs => "(oid" ++ String.join (arcs.map fun a => s!" {a}") ++ ")"
  | .real .pinf => "(real pinf)"
  | .real .minf => "(real minf)"
  | .real (.fin m b e) => s!"(real {m} {b} {e})"
  | .seq vs => "(seq" ++ String.join (vs.map fun v => " " ++ valStr v) ++ ")"
  | .seqOf vs => "(of" ++ String.join (vs.map fun v => " " ++ valStr v) ++ ")"
  | .choice i v => s!"(ch {i} {valStr v})"
  | .any b => s!"(any {hexOut b})"

mutual
partial def tyOf : Sexp → Option Ty
  | .atom "bool" => some (.prim .boolean)
  | .atom "int" => some (.prim .integer)
  | .atom "enum" => some (.prim .enumerated)
  | .atom "bits" => some (.prim .bitString)
  | .atom "null" => some (.prim .null)
  | .atom "oid" => some (.prim .oid)
  | .atom "real" => some (.prim .real)
  | .atom "any" => some .any
  | .list [.atom "str", .atom n] => n.toNat?.map fun k => .prim (.str k)
  | .list (.atom "seq" :: fs) => (fieldsOf fs).map .seq
  | .list (.atom "set" :: fs) => (fieldsOf fs).map .set
  | .list (.atom "choice" :: fs) => (fieldsOf fs).map .choice
  | .list [.atom "seqof", t] => (tyOf t).map .seqOf
  | .list [.atom "setof", t] => (tyOf t).map .setOf
  | .list [.atom "tag", .atom m, .atom c, .atom n, t] => do
      pure (.tagged (m = "e") (← clsOf c) (← n.toNat?) (← tyOf t))
  | _ => none
partial def fieldsOf : List Sexp → Option Fields
  | [] => some .nil
  | .list [.atom "r", t] :: rest => do pure (.cons .req (← tyOf t) (← fieldsOf rest))
  | .list [.atom "o", t] :: rest => do pure (.cons .opt (← tyOf t) (← fieldsOf rest))
  | .list [.atom "d", v, t] :: rest => do
      pure (.cons (.dflt (← valOf v)) (← tyOf t) (← fieldsOf rest))
  | _ => none
end

end Asn1
