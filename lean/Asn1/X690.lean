/-
  Asn1.X690 — an independent transcription of the distinguished encoding rules (X.690 §8, §10, §11),
  used (a) as the reference implementation the real DER encoder is compared with byte for byte and
  (b) as the specification side of the C03 theorems.  It shares no code with Asn1.Encoder /
  Asn1.Prim: numbers are laid out by repeated division from the least significant end, minimality
  is found by search, ordering rules are written as comparison relations on encodings.
-/
import Asn1.Schema

namespace Asn1.X690

/-- little-endian base-`b` digits by repeated division (fuel = n suffices) -/
def digitsLE (b : Nat) : Nat → Nat → List Nat
  | 0, _ => []
  | fuel + 1, n => if n < b then [n] else (n % b) :: digitsLE b fuel (n / b)

def digitsBE (b n : Nat) : List Nat := (digitsLE b (n + 1) n).reverse

/-- X.690 8.1.2: identifier octets -/
def ident (cls : TagClass) (constructed : Bool) (num : Nat) : Bytes :=
  let lead := (match cls with | .universal => 0 | .application => 1 | .context => 2 | .priv => 3) * 64
              + (if constructed then 32 else 0)
  if num ≤ 30 then [UInt8.ofNat (lead + num)]
  else
    let ds := digitsBE 128 num
    let k := ds.length
    UInt8.ofNat (lead + 31) ::
      (ds.zipIdx.map fun (d, i) => UInt8.ofNat (if i + 1 < k then d + 128 else d))

/-- X.690 8.1.3 + 10.1: definite form, minimum number of octets -/
def len (n : Nat) : Bytes :=
  if n ≤ 127 then [UInt8.ofNat n]
  else
    let ds := digitsBE 256 n
    UInt8.ofNat (128 + ds.length) :: ds.map UInt8.ofNat

/-- the smallest k ≥ 1 with -2^(8k-1) ≤ z < 2^(8k-1) -/
def intWidth (z : Int) : Nat → Nat → Nat
  | 0, k => k
  | fuel + 1, k =>
    if -(2 : Int) ^ (8 * k - 1) ≤ z ∧ z < (2 : Int) ^ (8 * k - 1) then k else intWidth z fuel (k + 1)

/-- X.690 8.3: two's complement, fewest octets -/
def intOctets (z : Int) : Bytes :=
  let k := intWidth z (z.natAbs + 1) 1
  let u : Nat := (z % (2 : Int) ^ (8 * k)).toNat
  let ds := digitsBE 256 u
  (List.replicate (k - ds.length) 0 ++ ds).map UInt8.ofNat

/-- X.690 8.6: initial octet = number of unused bits, then the bits, unused bits zero (11.2) -/
def bitOctets (bs : List Bool) : Bytes :=
  let unused := (8 - bs.length % 8) % 8
  let padded := bs ++ List.replicate unused false
  let rec pack : Nat → List Bool → Bytes
    | 0, _ => []
    | f + 1, l =>
      if l.isEmpty then []
      else
        let byte := (l.take 8).foldl (fun a b => 2 * a + (if b then 1 else 0)) 0
        UInt8.ofNat byte :: pack f (l.drop 8)
  UInt8.ofNat unused :: pack (padded.length + 1) padded

/-- X.690 8.19: first two arcs combined as 40·X + Y, each subidentifier base 128 -/
def subId (n : Nat) : Bytes :=
  let ds := digitsBE 128 n
  let k := ds.length
  ds.zipIdx.map fun (d, i) => UInt8.ofNat (if i + 1 < k then d + 128 else d)

def oidOctets : List Nat → Option Bytes
  | x :: y :: rest =>
    if x ≤ 1 ∧ y ≤ 39 ∨ x = 2 then some (((40 * x + y) :: rest).flatMap subId) else none
  | _ => none

/-- X.690 8.5 + 11.3: binary encoding, base 2, mantissa odd, exponent in fewest octets -/
def realOctets : RealVal → Option Bytes
  | .pinf => some [0x40]
  | .minf => some [0x41]
  | .fin m b e =>
    if m = 0 then some []
    else if b ≠ 2 then none
    else
      let rec odd : Nat → Nat → Int → Nat × Int
        | 0, n, e => (n, e)
        | f + 1, n, e => if n % 2 = 0 then odd f (n / 2) (e + 1) else (n, e)
      let (n, e') := odd m.natAbs m.natAbs e
      let eo := intOctets e'
      let first := 128 + (if m < 0 then 64 else 0)
      let (first, eo) :=
        if eo.length = 1 then (first, eo) else if eo.length = 2 then (first + 1, eo)
        else if eo.length = 3 then (first + 2, eo) else (first + 3, UInt8.ofNat eo.length :: eo)
      if eo.length > 256 then none
      else some (UInt8.ofNat first :: (eo ++ (digitsBE 256 n).map UInt8.ofNat))

/-- lexicographic order on octet strings, the shorter one padded with 00 (X.690 11.6) -/
def paddedLe : Bytes → Bytes → Bool
  | [], _ => true
  | a :: as, [] => a == 0 && paddedLe as []
  | a :: as, b :: bs => a < b || (a == b && paddedLe as bs)

/-- canonical order of tags (X.680 8.6): class universal < application < context < private, then number -/
def tagRank (cls : TagClass) (num : Nat) : Nat × Nat :=
  ((match cls with | .universal => 0 | .application => 1 | .context => 2 | .priv => 3), num)

def rankLe (a b : Nat × Nat) : Bool := a.1 < b.1 || (a.1 == b.1 && a.2 ≤ b.2)

/-- insertion sort (stable), independent of the model's merge sort -/
def insertBy {α} (le : α → α → Bool) (x : α) : List α → List α
  | [] => [x]
  | y :: ys => if le x y then x :: y :: ys else y :: insertBy le x ys

def sortBy {α} (le : α → α → Bool) (l : List α) : List α := l.foldr (insertBy le) []

/-- an encoded element together with its outermost tag -/
structure Elem where
  cls : TagClass
  num : Nat
  bytes : Bytes

def wrap (cls : TagClass) (cons : Bool) (num : Nat) (content : Bytes) : Elem :=
  ⟨cls, num, ident cls cons num ++ len content.length ++ content⟩

/-- the contents octets and primitive/constructed form of the *untagged* base type -/
inductive Body
  | prim (content : Bytes)
  | cons (content : Bytes)
  | elem (e : Elem)          -- untagged CHOICE / ANY: already a complete element

mutual
/-- DER of a value: `none` when the value is not of the type or has no distinguished encoding -/
def derElem : Ty → Val → Option Elem
  | .tagged true cls num t, v =>
    (match derElem t v with
     | some e => some (wrap cls true num e.bytes)
     | none => none)
  | .tagged false cls num t, v =>
    -- IMPLICIT: the outermost identifier is replaced, form and contents stay
    (match derBody t v with
     | some (.prim c) => some (wrap cls false num c)
     | some (.cons c) => some (wrap cls true num c)
     | some (.elem e) => some (wrap cls true num e.bytes)      -- IMPLICIT on CHOICE/ANY acts as EXPLICIT
     | none => none)
  | t, v =>
    (match derBody t v, t with
     | some (.elem e), _ => some e
     | some (.prim c), .prim p => some (wrap .universal false p.univNum c)
     | some (.cons c), .seq _ => some (wrap .universal true 16 c)
     | some (.cons c), .seqOf _ => some (wrap .universal true 16 c)
     | some (.cons c), .set _ => some (wrap .universal true 17 c)
     | some (.cons c), .setOf _ => some (wrap .universal true 17 c)
     | _, _ => none)
/-- contents of the type with its outermost tag stripped -/
def derBody : Ty → Val → Option Body
  | .tagged true _ _ t, v =>
    -- contents of an explicit wrapper = the complete inner element
    (derElem t v).map fun e => Body.cons e.bytes
  | .tagged false _ _ t, v => derBody t v
  | .prim .boolean, .bool b => some (.prim [if b then 0xFF else 0x00])
  | .prim .integer, .int z => some (.prim (intOctets z))
  | .prim .enumerated, .int z => some (.prim (intOctets z))
  | .prim .null, .null => some (.prim [])
  | .prim .oid, .oid arcs => (oidOctets arcs).map .prim
  | .prim .real, .real r => (realOctets r).map .prim
  | .prim .bitString, .bits bs => some (.prim (bitOctets bs))
  | .prim (.str _), .str s => some (.prim s)
  | .seq fs, .seq vs => (derFields fs vs).map fun es => .cons (es.flatMap (·.bytes))
  | .set fs, .seq vs =>
    (derFields fs vs).map fun es =>
      .cons ((sortBy (fun a b => rankLe (tagRank a.cls a.num) (tagRank b.cls b.num)) es).flatMap (·.bytes))
  | .seqOf t, .seqOf vs => (derElems t vs).map fun es => .cons (es.flatMap (·.bytes))
  | .setOf t, .seqOf vs =>
    (derElems t vs).map fun es => .cons ((sortBy paddedLe (es.map (·.bytes))).flatten)
  | .choice fs, .choice i v => (derAlt fs i v).map .elem
  | .any, .any raw =>
    -- ANY stands for a complete encoding; its outermost tag is read off the bytes
    (match decodeTag raw with
     | .ok (tg, _) => some (.elem ⟨tg.cls, tg.num, raw⟩)
     | .error _ => none)
  | _, _ => none
def derAlt : Fields → Nat → Val → Option Elem
  | .nil, _, _ => none
  | .cons _ t _, 0, v => derElem t v
  | .cons _ _ rest, i + 1, v => derAlt rest i v
/-- members of a SEQUENCE/SET in declaration order; absent OPTIONAL and DEFAULT-valued members
    are not encoded (X.690 11.5) -/
def derFields : Fields → List Val → Option (List Elem)
  | .nil, [] => some []
  | .cons k t rest, v :: vs =>
    let skip : Bool := match k, v with
      | .opt, .absent => true
      | .dflt d, v => v == d
      | _, _ => false
    if skip then derFields rest vs
    else
      (match derElem t v, derFields rest vs with
       | some e, some es => some (e :: es)
       | _, _ => none)
  | _, _ => none
def derElems (t : Ty) : List Val → Option (List Elem)
  | [] => some []
  | v :: vs =>
    (match derElem t v, derElems t vs with
     | some e, some es => some (e :: es)
     | _, _ => none)
end

/-- the distinguished encoding -/
def der (t : Ty) (v : Val) : Option Bytes := (derElem t v).map (·.bytes)


/-! ### every BER form (X.690 §8): an executable generator driven by a choice script

`berVariant T v script` makes each choice X.690 leaves open according to the next numbers of the
script: length form per element (short / long / long with redundant leading zeros), definite or
indefinite per constructed element, primitive or segmented (also nested) strings, the octet for
TRUE, the order of SET members, DEFAULT members present or absent. -/


inductive PKind | plain | string | bitstring | boolTrue
deriving Repr, DecidableEq

/-- an element with the annotations the variant writer needs -/
inductive XT
  | prim (cls : TagClass) (num : Nat) (kind : PKind) (content : Bytes)
  | cons (cls : TagClass) (num : Nat) (isSet : Bool) (children : List XT)
  | raw (bytes : Bytes)
deriving Repr, Inhabited

abbrev Script := List Nat

def next (s : Script) : Nat × Script :=
  match s with
  | [] => (0, [])
  | x :: xs => (x, xs)

def pkindOf : Ty → PKind
  | .prim .boolean => .boolTrue
  | .prim .bitString => .bitstring
  | .prim (.str _) => .string
  | _ => .plain

mutual
/-- the annotated tree; DEFAULT members equal to their default are kept when the script says so -/
def xtElem : Ty → Val → Script → Option (XT × Script)
  | .tagged true cls num t, v, s =>
    (match xtElem t v s with
     | some (e, s') => some (.cons cls num false [e], s')
     | none => none)
  | .tagged false cls num t, v, s =>
    (match xtBody t v s with
     | some (.prim _ _ k c, s') => some (.prim cls num k c, s')
     | some (.cons _ _ b cs, s') => some (.cons cls num b cs, s')
     | some (.raw r, s') => some (.cons cls num false [.raw r], s')
     | none => none)
  | t, v, s => xtBody t v s
/-- element of the type with its own outermost tag (for IMPLICIT the caller replaces class/number) -/
def xtBody : Ty → Val → Script → Option (XT × Script)
  | .tagged true cls num t, v, s =>
    (match xtElem t v s with
     | some (e, s') => some (.cons cls num false [e], s')
     | none => none)
  | .tagged false _ _ t, v, s => xtBody t v s
  | .prim .boolean, .bool b, s =>
    some (.prim .universal 1 (if b then .boolTrue else .plain) [if b then 0xFF else 0x00], s)
  | .prim .integer, .int z, s => some (.prim .universal 2 .plain (intOctets z), s)
  | .prim .enumerated, .int z, s => some (.prim .universal 10 .plain (intOctets z), s)
  | .prim .null, .null, s => some (.prim .universal 5 .plain [], s)
  | .prim .oid, .oid arcs, s => (oidOctets arcs).map fun c => (.prim .universal 6 .plain c, s)
  | .prim .real, .real r, s => (realOctets r).map fun c => (.prim .universal 9 .plain c, s)
  | .prim .bitString, .bits bs, s => some (.prim .universal 3 .bitstring (bitOctets bs), s)
  | .prim (.str n), .str b, s => some (.prim .universal n .string b, s)
  | .seq fs, .seq vs, s => (xtFields fs vs s).map fun (es, s') => (.cons .universal 16 false es, s')
  | .set fs, .seq vs, s => (xtFields fs vs s).map fun (es, s') => (.cons .universal 17 true es, s')
  | .seqOf t, .seqOf vs, s => (xtElems t vs s).map fun (es, s') => (.cons .universal 16 false es, s')
  | .setOf t, .seqOf vs, s => (xtElems t vs s).map fun (es, s') => (.cons .universal 17 true es, s')
  | .choice fs, .choice i v, s => xtAlt fs i v s
  | .any, .any r, s => some (.raw r, s)
  | _, _, _ => none
def xtAlt : Fields → Nat → Val → Script → Option (XT × Script)
  | .nil, _, _, _ => none
  | .cons _ t _, 0, v, s => xtElem t v s
  | .cons _ _ rest, i + 1, v, s => xtAlt rest i v s
def xtFields : Fields → List Val → Script → Option (List XT × Script)
  | .nil, [], s => some ([], s)
  | .cons k t rest, v :: vs, s =>
    let (skip, s) : Bool × Script := match k, v with
      | .opt, .absent => (true, s)
      | .dflt d, v => if v == d then (let (c, s') := next s; (c % 2 == 0, s')) else (false, s)
      | _, _ => (false, s)
    if skip then xtFields rest vs s
    else
      (match xtElem t v s with
       | none => none
       | some (e, s') =>
         match xtFields rest vs s' with
         | none => none
         | some (es, s'') => some (e :: es, s''))
  | _, _, _ => none
def xtElems (t : Ty) : List Val → Script → Option (List XT × Script)
  | [], s => some ([], s)
  | v :: vs, s =>
    (match xtElem t v s with
     | none => none
     | some (e, s') =>
       match xtElems t vs s' with
       | none => none
       | some (es, s'') => some (e :: es, s''))
end

/-- length octets in the form selected by `c`: 0 minimal, 1 long form, 2.. long form with
    `(c / 4) % 120 + 1` redundant leading zero octets (X.690 8.1.3.5 allows up to 126 subsequent
    octets in all) -/
def lenForm (c : Nat) (n : Nat) : Bytes :=
  if c % 4 = 0 then len n
  else
    let ds := digitsBE 256 n
    let zeros := if c % 4 = 1 then 0 else min ((c / 4) % 120 + 1) (126 - ds.length)
    let ds := List.replicate zeros 0 ++ ds
    UInt8.ofNat (128 + ds.length) :: ds.map UInt8.ofNat

/-- rotate a list: a cheap family of permutations -/
def rotate {α} (l : List α) (k : Nat) : List α :=
  if l.isEmpty then l else l.drop (k % l.length) ++ l.take (k % l.length)

/-- split `c` into at most `parts` consecutive pieces of size `size` (last takes the rest) -/
def splitEvery (size : Nat) : Nat → Bytes → List Bytes
  | 0, c => [c]
  | f + 1, c => if c.length ≤ size ∨ size = 0 then [c] else c.take size :: splitEvery size f (c.drop size)

mutual
def serXT : Nat → XT → Script → Bytes × Script
  | 0, _, s => ([], s)
  | _, .raw r, s => (r, s)
  | fuel + 1, .prim cls num kind content, s =>
    let (c0, s) := next s
    match kind with
    | .boolTrue =>
      let (c1, s) := next s
      let body : Bytes := [UInt8.ofNat (c1 % 255 + 1)]
      (ident cls false num ++ lenForm c0 body.length ++ body, s)
    | .string =>
      let (c1, s) := next s
      if c1 % 3 = 0 then (ident cls false num ++ lenForm c0 content.length ++ content, s)
      else
        -- constructed form: OCTET STRING segments, possibly themselves constructed (nested); X.690 8.7.3 allows
        -- "zero, one or more" segments, and a segment may be empty: the script may put an empty segment in
        -- front, in the middle or at the end (an empty string: no segment at all, or empty ones)
        let (c2, s) := next s
        let pieces0 := splitEvery (c2 % 5 + 1) 6 content
        let pieces : List Bytes :=
          match c2 / 5 % 5 with
          | 1 => [] :: pieces0
          | 2 => pieces0 ++ [[]]
          | 3 => pieces0.take 1 ++ [[]] ++ pieces0.drop 1
          | 4 => [] :: (pieces0 ++ [[], []])
          | _ => pieces0
        let kids : List XT := pieces.map fun p => XT.prim .universal 4 (if c1 % 3 = 2 then .string else .plain) p
        let (body, s) := serXTs fuel kids s
        let (c3, s) := next s
        if c3 % 2 = 0 then (ident cls true num ++ lenForm c0 body.length ++ body, s)
        else (ident cls true num ++ [0x80] ++ body ++ [0, 0], s)
    | .bitstring =>
      let (c1, s) := next s
      match content with
      | unused :: rest =>
        if c1 % 2 = 0 ∨ rest.length < 2 then (ident cls false num ++ lenForm c0 content.length ++ content, s)
        else
          let (c2, s) := next s
          let pieces := splitEvery (c2 % 4 + 1) 6 rest
          let n := pieces.length
          let kids : List XT := pieces.zipIdx.map fun (p, i) =>
            XT.prim .universal 3 .plain ((if i + 1 = n then unused else 0) :: p)
          let (body, s) := serXTs fuel kids s
          let (c3, s) := next s
          if c3 % 2 = 0 then (ident cls true num ++ lenForm c0 body.length ++ body, s)
          else (ident cls true num ++ [0x80] ++ body ++ [0, 0], s)
      | [] => (ident cls false num ++ lenForm c0 0, s)
    | .plain => (ident cls false num ++ lenForm c0 content.length ++ content, s)
  | fuel + 1, .cons cls num isSet children, s =>
    let (c0, s) := next s
    let (children, s) := if isSet then (let (c1, s') := next s; (rotate children c1, s')) else (children, s)
    let (body, s) := serXTs fuel children s
    let (c2, s) := next s
    if c2 % 2 = 0 then (ident cls true num ++ lenForm c0 body.length ++ body, s)
    else (ident cls true num ++ [0x80] ++ body ++ [0, 0], s)
def serXTs : Nat → List XT → Script → Bytes × Script
  | 0, _, s => ([], s)
  | _, [], s => ([], s)
  | fuel + 1, x :: xs, s =>
    let (a, s) := serXT fuel x s
    let (b, s) := serXTs fuel xs s
    (a ++ b, s)
end

/-- one member of BER(T, v), chosen by the script (`none` if `v` is not a value of `T`) -/
def berVariant (t : Ty) (v : Val) (script : Script) : Option Bytes :=
  match xtElem t v script with
  | some (x, s) => some (serXT 10000 x s).1
  | none => none

end Asn1.X690
