"""Operation histories on the mutable container objects (C19, C04): three subjects driven by the same
s-expression ops — the real pyasn1 object, a plain Python prototype, and (through the driver op HIST)
the Lean model `Asn1.Container`.

Ops are tuples; `op_sexp` prints them in the driver's syntax.  Element universe: INTEGER.
Results are canonical strings (same syntax as `Asn1.Container.Proto.outStr`):
  unit | (n k) | (b 0/1) | (c comp) | (cs (comp…)) | (ns k…) | (kv (k comp)…) | lookup | lib | value | leak:<Exc>
comp = hole | ph | (v z)."""
from harness import common  # noqa: F401
from harness import gen

from pyasn1 import error
from pyasn1.type import univ, base, namedtype, tag
from pyasn1.codec.der import encoder as der_encoder
from pyasn1.codec.cer import encoder as cer_encoder
from pyasn1.codec.ber import encoder as ber_encoder

noValue = base.noValue


# ----------------------------------------------------------------------------- printing

def arg_sexp(a):
    return 'bad' if a[0] == 'bad' else '(%s %d)' % a


def oi(x):
    return '_' if x is None else str(x)


def op_sexp(op):
    k = op[0]
    if k in ('setitem', 'setpos', 'setitem-pos', 'setitem-name', 'setname', 'settype'):
        return '(%s %d %s)' % (k, op[1], arg_sexp(op[2]))
    if k == 'append':
        return '(append %s)' % arg_sexp(op[1])
    if k == 'extend':
        return '(extend%s)' % ''.join(' ' + arg_sexp(a) for a in op[1])
    if k == 'setslice':
        return '(setslice %s %s%s)' % (oi(op[1]), oi(op[2]), ''.join(' ' + arg_sexp(a) for a in op[3]))
    if k == 'getslice':
        return '(getslice %s %s)' % (oi(op[1]), oi(op[2]))
    if k in ('getpos', 'getname', 'gettype'):
        return '(%s %d %d)' % (k, op[1], 1 if op[2] else 0)
    if k == 'clone':
        return '(clone %d)' % (1 if op[1] else 0)
    if k == 'eq':
        if isinstance(op[1], int):
            return '(eq %d %d)' % (op[1], op[2])
        return '(eq%s)' % ''.join(' ' + (comp_str(x) if isinstance(x, tuple) or x in ('hole', 'ph') else str(x)) for x in op[1])
    if len(op) == 1:
        return '(%s)' % k
    return '(%s %d)' % (k, int(op[1]))


def comp_str(c):
    if c == 'hole' or c == 'ph':
        return c
    return '(v %d)' % c[1]


def canon_comp(x):
    if x is noValue or x is None:
        return 'hole'
    if isinstance(x, base.Asn1Item):
        if isinstance(x, base.SimpleAsn1Type):
            return ('v', int(x)) if x.isValue else 'ph'
        return 'ph' if not x.isValue else ('v', -999999)
    return ('v', int(x))


def out_comps(cs):
    return '(cs (%s))' % ' '.join(comp_str(c) for c in cs)


def out_items(kvs):
    return '(kv%s)' % ''.join(' (%d %s)' % (k, comp_str(c)) for k, c in kvs)


def classify(e):
    if isinstance(e, (IndexError, KeyError)):
        return 'lookup'
    if isinstance(e, error.PyAsn1Error):
        return 'lib'
    if isinstance(e, ValueError):
        return 'value'
    return 'leak:' + type(e).__name__


def enc_hex(codec, obj):
    try:
        return gen.hexs(codec.encode(obj))
    except Exception:  # noqa
        return 'err'


# ----------------------------------------------------------------------------- kinds

class Kind(object):
    """what is being driven: ('seqof', typed, isSet) | ('rec', isSet, fields) | ('choice', n)"""

    def __init__(self, *k):
        self.k = k
        self.kind = k[0]
        if self.kind == 'seqof':
            self.typed, self.isSet = k[1], k[2]
            self.t = ('setof' if self.isSet else 'seqof', ('int',))
            cls = univ.SetOf if self.isSet else univ.SequenceOf
            self.schema = cls(componentType=univ.Integer()) if self.typed else cls()
        elif self.kind == 'rec':
            self.isSet, self.fields = k[1], list(k[2])
            self.n = len(self.fields)
            if self.n:
                self.t = ('set' if self.isSet else 'seq',
                          [(f[0], ('i', f[1]) if f[0] == 'd' else None, ('tag', 'i', 'c', i, ('int',)))
                           for i, f in enumerate(self.fields)])
                self.schema = gen.build(self.t)
            else:
                self.t = None
                self.schema = univ.Set() if self.isSet else univ.Sequence()
        else:
            self.n = k[1]
            self.t = ('choice', [('r', None, ('tag', 'i', 'c', i, ('int',))) for i in range(self.n)])
            self.schema = gen.build(self.t)

    def head(self):
        if self.kind == 'seqof':
            return 'HIST seqof %d %d' % (self.typed, self.isSet)
        if self.kind == 'rec':
            return 'HIST rec %d (%s)' % (self.isSet, ' '.join('(d %d)' % f[1] if f[0] == 'd' else f[0] for f in self.fields))
        return 'HIST choice %d' % self.n

    def canon(self):
        return self.head()

    def name(self, k):
        """field name for name index k (beyond the known names: an unknown name)"""
        if self.kind == 'rec' and not self.n:
            return 'field-%d' % k
        return 'f%d' % k

    def tagset(self, k):
        return univ.Integer().subtype(implicitTag=tag.Tag(tag.tagClassContext, tag.tagFormatSimple, k)).tagSet

    def dyn_type(self, n):
        return ('set' if self.isSet else 'seq', [('r', None, ('int',))] * n)


# ----------------------------------------------------------------------------- the real object

class Real(object):
    def __init__(self, kind):
        self.kind = kind
        self.obj = kind.schema.clone()

    # -- argument objects
    def _arg(self, a, pos=None):
        if a[0] == 'bad':
            return 'x'
        if a[0] == 'py':
            return a[1]
        k = self.kind
        if k.kind in ('rec', 'choice') and k.n and pos is not None:
            if -k.n <= pos < k.n:
                return k.schema.componentType[pos].asn1Object.clone(a[1])
        return univ.Integer(a[1])

    def apply(self, op):
        """-> canonical result string; the object is mutated in place (clone replaces it)"""
        try:
            return self._apply(op)
        except Exception as e:  # noqa
            return classify(e)

    def _apply(self, op):
        o = self.obj
        k = op[0]
        K = self.kind
        if K.kind == 'seqof':
            if k == 'setitem':
                o[op[1]] = self._arg(op[2])
                return 'unit'
            if k == 'setpos':
                o.setComponentByPosition(op[1], self._arg(op[2]))
                return 'unit'
            if k == 'setnone':
                o.setComponentByPosition(op[1])
                return 'unit'
            if k == 'append':
                o.append(self._arg(op[1]))
                return 'unit'
            if k == 'extend':
                o.extend([self._arg(a) for a in op[1]])
                return 'unit'
            if k == 'setslice':
                o[slice(op[1], op[2])] = [self._arg(a) for a in op[3]]
                return 'unit'
            if k == 'sort':
                o.sort()
                return 'unit'
            if k == 'reverse':
                o.reverse()
                return 'unit'
            if k == 'len':
                return '(n %d)' % len(o)
            if k == 'iter':
                return out_comps([canon_comp(x) for x in o])
            if k == 'contains':
                return '(b %d)' % (1 if op[1] in o else 0)
            if k == 'getitem':
                return '(c %s)' % comp_str(canon_comp(o[op[1]]))
            if k == 'getpos':
                return '(c %s)' % comp_str(canon_comp(o.getComponentByPosition(op[1], instantiate=op[2])))
            if k == 'getslice':
                return out_comps([canon_comp(x) for x in o[slice(op[1], op[2])]])
            if k == 'count':
                return '(n %d)' % o.count(op[1])
            if k == 'index':
                return '(n %d)' % o.index(op[1])
            if k == 'pretty':
                txt = o.prettyPrint()
                lines = txt.split('\n')
                vals = [int(x) for x in ''.join(lines[1:]).split()] if len(lines) > 1 else []
                return out_comps([('v', z) for z in vals])
            if k == 'eq':
                other = K.schema.clone() if K.typed else type(K.schema)(componentType=univ.Integer())
                other.clear()
                other.extend(list(op[1]))
                return '(b %d)' % (1 if o == other else 0)
        else:
            if k in ('setitem-pos',):
                o[op[1]] = self._arg(op[2], op[1])
                return 'unit'
            if k == 'setitem-name':
                o[K.name(op[1])] = self._arg(op[2], op[1])
                return 'unit'
            if k == 'setpos':
                o.setComponentByPosition(op[1], self._arg(op[2], op[1]))
                return 'unit'
            if k == 'setname':
                o.setComponentByName(K.name(op[1]), self._arg(op[2], op[1]))
                return 'unit'
            if k == 'settype':
                o.setComponentByType(K.tagset(op[1]), self._arg(op[2], op[1]))
                return 'unit'
            if k == 'setnone':
                o.setComponentByPosition(op[1])
                return 'unit'
            if k == 'len':
                return '(n %d)' % len(o)
            if k == 'keys':
                names = list(o.keys())
                assert names == [x for x in o]
                return '(ns%s)' % ''.join(' %d' % self._name_idx(n) for n in names)
            if k == 'contains':
                return '(b %d)' % (1 if K.name(op[1]) in o else 0)
            if k == 'getitem-pos':
                return '(c %s)' % comp_str(canon_comp(o[op[1]]))
            if k == 'getitem-name':
                return '(c %s)' % comp_str(canon_comp(o[K.name(op[1])]))
            if k == 'getpos':
                return '(c %s)' % comp_str(canon_comp(o.getComponentByPosition(op[1], instantiate=op[2])))
            if k == 'getname':
                return '(c %s)' % comp_str(canon_comp(o.getComponentByName(K.name(op[1]), instantiate=op[2])))
            if k == 'gettype':
                return '(c %s)' % comp_str(canon_comp(o.getComponentByType(K.tagset(op[1]), instantiate=op[2])))
            if k == 'values':
                return out_comps([canon_comp(x) for x in o.values()])
            if k == 'items':
                return out_items([(self._name_idx(n), canon_comp(x)) for n, x in o.items()])
            if k == 'getcomponent':
                return '(c %s)' % comp_str(canon_comp(o.getComponent()))
            if k == 'getchosenname':
                return '(ns %d)' % self._name_idx(o.getName())
            if k == 'pretty':
                txt = o.prettyPrint()
                kvs = []
                for line in txt.split('\n')[1:]:
                    line = line.strip()
                    if line:
                        n, v = line.split('=')
                        kvs.append((self._name_idx(n), ('v', int(v))))
                return out_items(kvs)
            if k == 'eq':
                if K.kind == 'choice':
                    other = K.schema.clone()
                    other.setComponentByPosition(op[1], op[2])
                    return '(b %d)' % (1 if o == other else 0)
                other = K.schema.clone()
                other.clear()
                for i, c in enumerate(op[1]):
                    if c != 'hole':
                        other.setComponentByPosition(i, self._arg(('obj', c[1]), i))
                if K.n and other._componentValues == [] and len(op[1]):
                    other._componentValues = [noValue] * K.n
                return '(b %d)' % (1 if o == other else 0)
        if k == 'clear':
            o.clear()
            return 'unit'
        if k == 'reset':
            o.reset()
            return 'unit'
        if k == 'clone':
            self.obj = o.clone(cloneValueFlag=op[1])
            return 'unit'
        if k == 'encode':
            try:
                der_encoder.encode(o)
            except Exception:  # noqa
                pass
            return 'unit'
        raise common.MachineryError('unknown op %r' % (op,))

    def _name_idx(self, n):
        return int(n.split('-')[1]) if n.startswith('field-') else int(n[1:])

    # -- observation (never mutates: the private state is restored afterwards)
    def _snapshot(self):
        o = self.obj
        cv = o._componentValues
        if cv is not noValue:
            cv = dict(cv) if isinstance(cv, dict) else list(cv)
        return cv, getattr(o, '_currentIdx', None)

    def _restore(self, snap):
        self.obj._componentValues = snap[0]
        if self.kind.kind == 'choice':
            self.obj._currentIdx = snap[1]

    def state_str(self):
        o = self.obj
        cv = o._componentValues
        K = self.kind
        if K.kind == 'seqof':
            if cv is noValue:
                return '(st none)'
            return '(st%s)' % ''.join(' (%d %s)' % (k, comp_str(canon_comp(v))) for k, v in cv.items())
        comps = 'none' if cv is noValue else '(%s)' % ' '.join(comp_str(canon_comp(v)) for v in cv)
        if K.kind == 'rec':
            dn = o._dynamicNames
            return '(st %s %d)' % (comps, 0 if isinstance(dn, int) else len(dn))
        cur = o._currentIdx
        return '(st %s %s)' % (comps, 'none' if cur is None else str(cur))

    def abstract(self):
        o = self.obj
        K = self.kind
        try:
            if K.kind == 'rec' and not K.n:
                if o._componentValues is noValue or not o.isValue:
                    return None
                return gen.abstract(K.dyn_type(len(o._componentValues)), o)
            if K.kind == 'rec' and o._componentValues is noValue:
                return None
            return gen.abstract(K.t, o)
        except gen.NotAValue:
            return None
        except error.PyAsn1Error:
            return None

    def observe(self):
        """(len, state, isValue, abs, der, cer) as strings"""
        o = self.obj
        snap = self._snapshot()
        try:
            try:
                n = str(len(o))
            except error.PyAsn1Error:
                n = 'err'
            try:
                iv = '1' if o.isValue else '0'
            except error.PyAsn1Error:
                iv = 'err'
            a = self.abstract()
            a = 'none' if a is None else gen.val_sexp(a)
            st = self.state_str()
            d = enc_hex(der_encoder, o)
            self._restore(snap)
            snap = self._snapshot()
            c = enc_hex(cer_encoder, o)
        finally:
            self._restore(snap)
        return n, st, iv, a, d, c

    def ber(self):
        snap = self._snapshot()
        try:
            return enc_hex(ber_encoder, self.obj)
        finally:
            self._restore(snap)


# ----------------------------------------------------------------------------- Lean model

def lean_run(drv, kind, ops):
    """-> list of (out, len, state, isValue, abs, der, cer) per step"""
    if not ops:
        return []
    ans = drv.ask(kind.head() + ''.join(' ' + op_sexp(o) for o in ops))
    if not ans.startswith('ok'):
        raise common.MachineryError('driver: %s on %s' % (ans, kind.head() + ' ' + ' '.join(op_sexp(o) for o in ops)))
    sx = gen.parse_sexps(ans[2:])
    out = []
    for step in sx:
        out.append(tuple(unparse(x) for x in step))
    return out


def unparse(x):
    if isinstance(x, list):
        return '(' + ' '.join(unparse(y) for y in x) + ')'
    return x


# ----------------------------------------------------------------------------- plain prototypes

class Unspecified(Exception):
    """the op is outside the documented range without being required to fail (sparse write, slice
    assignment that a list would treat differently, …): the property makes no claim"""


class ListProto(object):
    """a plain Python list of ints (None = an element that is there but unset), or no list (None)"""

    def __init__(self, kind):
        self.kind = kind
        self.l = None

    def copy_state(self):
        return None if self.l is None else list(self.l)

    def _n(self):
        return 0 if self.l is None else len(self.l)

    def _val(self, a, cur_exists_set):
        """the int an argument stores, or None when the library must refuse it"""
        if a[0] == 'bad':
            return None
        if a[0] == 'py' and not self.kind.typed and not cur_exists_set:
            return None
        return a[1]

    def _unset(self):
        return 'ph' if self.kind.typed else 'hole'

    def _comp(self, x):
        return self._unset() if x is None else ('v', x)

    def classify(self, op):
        """'wf' | 'ill' (must raise, change nothing) | 'unspec'"""
        try:
            self.unspec_reason = ''
            l2 = ListProto(self.kind)
            l2.l = self.copy_state()
            r = l2.apply(op)
            return 'ill' if r in ('lookup', 'lib', 'value') else 'wf'
        except Unspecified as why:
            self.unspec_reason = str(why)
            return 'unspec'

    def _set(self, i, a, err):
        n = self._n()
        if i < -n:
            return err
        if i > n:
            raise Unspecified('sparse write')
        j = i if i >= 0 else n + i
        exists = j < n and self.l[j] is not None
        if a is None:       # setComponentByPosition(i)
            if self.kind.typed:
                v = None
            elif exists:
                # without a component type there is no schema object to store: the library stores the
                # noValue sentinel itself, a state the documentation does not describe
                raise Unspecified('setComponentByPosition(idx) without value on a container without component type')
            else:
                return err
            l = list(self.l or [])
            if j == n:
                l.append(v)
            else:
                l[j] = v
            self.l = l
            return 'unit'
        v = self._val(a, exists)
        if v is None:
            return err
        l = list(self.l or [])
        if j == n:
            l.append(v)
        else:
            l[j] = v
        self.l = l
        return 'unit'

    def apply(self, op):
        k = op[0]
        n = self._n()
        l = self.l
        if k == 'setitem':
            return self._set(op[1], op[2], 'lookup')
        if k == 'setpos':
            return self._set(op[1], op[2], 'lib')
        if k == 'setnone':
            return self._set(op[1], None, 'lib')
        if k == 'append':
            return self._set(n, op[1], 'lookup')
        if k == 'extend':
            vals = [self._val(a, False) for a in op[1]]
            if vals and vals[0] is None:
                return 'lookup'
            if any(v is None for v in vals):
                raise Unspecified('invalid value after valid ones in a multi-element assignment')
            self.l = list(l or []) + vals
            return 'unit'
        if k == 'setslice':
            a, b, args = op[1], op[2], op[3]
            cur = list(l or [])
            rng = list(range(n))[slice(a, b)]
            if n and not rng:
                raise Unspecified('empty slice target')
            start = rng[0] if rng else 0
            vals = []
            for i, x in enumerate(args):
                exists = start + i < n and cur[start + i] is not None
                vals.append(self._val(x, exists))
            if vals and vals[0] is None:
                return 'lookup'
            if any(v is None for v in vals):
                raise Unspecified('invalid value after valid ones in a multi-element assignment')
            want = list(cur)
            want[slice(a, b)] = vals
            seqd = list(cur)
            for i, v in enumerate(vals):
                if start + i < len(seqd):
                    seqd[start + i] = v
                elif start + i == len(seqd):
                    seqd.append(v)
                else:
                    raise Unspecified('sparse write')
            if want != seqd or not vals:
                raise Unspecified('slice assignment a list would resize')
            self.l = seqd
            return 'unit'
        if k == 'sort':
            if l is None:
                return 'lib'
            if n >= 2 and any(x is None for x in l):
                return 'lib'
            self.l = sorted(l) if n >= 2 else list(l)
            return 'unit'
        if k == 'reverse':
            if l is None:
                return 'lib'
            self.l = list(reversed(l))
            return 'unit'
        if k == 'clear':
            self.l = []
            return 'unit'
        if k == 'reset':
            self.l = None
            return 'unit'
        if k == 'clone':
            if not op[1]:
                self.l = None
            elif l is not None and not self.kind.typed:
                self.l = [x for x in l if x is not None]     # unset entries of an untyped container are not copied
            return 'unit'
        if k == 'len':
            return '(n %d)' % n
        if k in ('iter', 'encode', 'pretty'):
            if k == 'encode':
                return 'unit'
            if k == 'pretty':
                return out_comps([('v', x) for x in l] if (l is not None and all(x is not None for x in l)) else [])
            return out_comps([self._comp(x) for x in (l or [])])
        if k == 'contains':
            for x in (l or []):
                if x is None:
                    return 'lib'
                if x == op[1]:
                    return '(b 1)'
            return '(b 0)'
        if k in ('getitem', 'getpos'):
            i = op[1]
            inst = True if k == 'getitem' else op[2]
            err = 'lookup' if k == 'getitem' else 'lib'
            if i < -n:
                return err
            j = i if i >= 0 else n + i
            if j < n:
                return '(c %s)' % comp_str(self._comp(l[j]))
            if not inst:
                return '(c hole)'
            if j == n and self.kind.typed:
                # documented "N+1": the component type is instantiated and appended
                self.l = list(l or []) + [None]
                return '(c ph)'
            return err          # beyond the documented range (or no component type to instantiate)
        if k == 'getslice':
            return out_comps([self._comp(x) for x in (l or [])[slice(op[1], op[2])]])
        if k == 'count':
            if l is None or any(x is None for x in l):
                return 'lib'
            return '(n %d)' % l.count(op[1])
        if k == 'index':
            if l is None:
                return 'lib'
            for i, x in enumerate(l):
                if x is None:
                    return 'value'
                if x == op[1]:
                    return '(n %d)' % i
            return 'value'
        if k == 'eq':
            if l is None:
                return 'lib'
            vs = list(op[1])
            if len(vs) != len(l):
                return '(b 0)'
            for v, x in zip(vs, l):
                if x is None:
                    return 'lib'
                if x != v:
                    return '(b 0)'
            return '(b 1)'
        raise common.MachineryError('ListProto: unknown op %r' % (op,))

    # -- observables
    def is_value(self):
        return self.l is not None and all(x is not None for x in self.l)

    def abs(self):
        return ('of', [('i', x) for x in self.l]) if self.is_value() else None

    def len_str(self):
        return str(self._n())

    def enc_value(self):
        """the content whose fresh encoding the object's encoding must equal (None: must fail)"""
        if self.l is None:
            return ('of', [])            # a schema SEQUENCE OF is encoded like the empty one (documented leniency)
        return self.abs()

    def ty(self):
        return self.kind.t


class DictProto(object):
    """declared fields: no dict (None), {} ([]), or every declared key present ([int|None]*N) —
    allocated lazily by the first assignment or touch; touching an unset DEFAULT field stores its
    default.  Without declared fields: a list that grows one field at a time (None = unset)."""

    def __init__(self, kind):
        self.kind = kind
        self.N = kind.n
        self.s = [] if self.N else None

    def copy_state(self):
        return None if self.s is None else list(self.s)

    def classify(self, op):
        try:
            p = DictProto(self.kind)
            p.s = self.copy_state()
            r = p.apply(op)
            return 'ill' if r in ('lookup', 'lib', 'value') else 'wf'
        except Unspecified:
            return 'unspec'

    def _nnames(self):
        return self.N if self.N else len(self.s or [])

    def _pos(self, i):
        n = self.N if self.N else len(self.s or [])
        if 0 <= i < n:
            return i
        if -n <= i < 0:
            return n + i
        return None

    def _alloc(self):
        s = list(self.s or [])
        if self.N and not s:
            s = [None] * self.N
        return s

    def _dflt(self, j):
        f = self.kind.fields[j]
        return f[1] if f[0] == 'd' else None

    def _set(self, i, a, err):
        if self.N:
            j = self._pos(i)
            if j is None:
                return err
            if a is not None and a[0] == 'bad':
                return err
            s = self._alloc()
            s[j] = self._dflt(j) if a is None else a[1]
            self.s = s
            return 'unit'
        s = list(self.s or [])
        n = len(s)
        if not (0 <= i <= n):
            return err          # a negative position is never a field name of a record without declared fields
        exists = i < n and s[i] is not None
        if a is None:
            if not exists:
                return err
            raise Unspecified('setComponentByPosition(idx) without value on a record without component type')
        elif a[0] == 'bad' or (a[0] == 'py' and not exists):
            return err
        else:
            v = a[1]
        if i == n:
            s.append(v)
        else:
            s[i] = v
        self.s = s
        return 'unit'

    def _get(self, i, inst, err):
        j = self._pos(i)
        if not inst:
            x = self.s[j] if (j is not None and self.s) else None
            return '(c %s)' % comp_str(('v', x) if x is not None else 'hole')
        if j is None:
            return err
        if self.N:
            s = self._alloc()
            if s[j] is None:
                s[j] = self._dflt(j)
            self.s = s
            return '(c %s)' % comp_str(('v', s[j]) if s[j] is not None else 'ph')
        if self.s[j] is None:
            return err          # no component type to instantiate
        return '(c %s)' % comp_str(('v', self.s[j]))

    def _name_pos(self, k):
        return k if k < self._nnames() else None

    def apply(self, op):
        k = op[0]
        s = self.s
        if k == 'setitem-pos':
            return self._set(op[1], op[2], 'lookup')
        if k == 'setpos':
            return self._set(op[1], op[2], 'lib')
        if k == 'setnone':
            return self._set(op[1], None, 'lib')
        if k in ('setitem-name', 'setname', 'settype'):
            err = 'lookup' if k == 'setitem-name' else 'lib'
            j = self._name_pos(op[1])
            if j is None or (k == 'settype' and not self.N):
                return err
            return self._set(j, op[2], err)
        if k == 'clear':
            self.s = []
            return 'unit'
        if k == 'reset':
            self.s = None
            return 'unit'
        if k == 'clone':
            if not op[1]:
                self.s = [] if self.N else None
            elif s is not None and not self.N:
                if any(x is None for x in s):
                    pre = []
                    for x in s:
                        if x is None:
                            break
                        pre.append(x)
                    if any(x is not None for x in s[len(pre):]):
                        return 'lib'
                    self.s = pre
            return 'unit'
        if k == 'len':
            return 'lib' if s is None else '(n %d)' % len(s)
        if k == 'keys':
            return '(ns%s)' % ''.join(' %d' % i for i in range(self._nnames()))
        if k == 'contains':
            return '(b %d)' % (1 if op[1] < self._nnames() else 0)
        if k == 'getitem-pos':
            return self._get(op[1], True, 'lookup')
        if k == 'getpos':
            return self._get(op[1], op[2], 'lib')
        if k in ('getitem-name', 'getname', 'gettype'):
            err = 'lookup' if k == 'getitem-name' else 'lib'
            inst = True if k == 'getitem-name' else op[2]
            j = self._name_pos(op[1])
            if j is None or (k == 'gettype' and not self.N):
                return err
            return self._get(j, inst, err)
        if k in ('values', 'items'):
            out = []
            for j in range(self._nnames()):
                r = self._get(j, True, 'lookup')
                if r == 'lookup':
                    return 'lookup'
                out.append((j, r[3:-1]))
            if k == 'values':
                return '(cs (%s))' % ' '.join(c for _, c in out)
            return '(kv%s)' % ''.join(' (%d %s)' % (j, c) for j, c in out)
        if k == 'pretty':
            if s is None:
                return 'lib'
            return out_items([(j, ('v', x)) for j, x in enumerate(s) if x is not None])
        if k == 'eq':
            if s is None:
                return 'lib'
            other = [None if c == 'hole' else c[1] for c in op[1]]
            return '(b %d)' % (1 if other == list(s) else 0)
        if k == 'encode':
            # the encoder instantiates the first mandatory component that is missing (and then fails on it),
            # which allocates the slots: encoding an incomplete record is a touch
            if self.N and any(f[0] == 'r' and (not s or s[j] is None) for j, f in enumerate(self.kind.fields)):
                self.s = self._alloc()
            return 'unit'
        raise common.MachineryError('DictProto: unknown op %r' % (op,))

    def is_value(self):
        if self.s is None:
            return False
        if self.N:
            for j, f in enumerate(self.kind.fields):
                if f[0] == 'r' and (not self.s or self.s[j] is None):
                    return False
            return True
        return all(x is not None for x in self.s)

    def abs(self):
        if not self.is_value():
            return None
        if not self.N:
            return ('seq', [('i', x) for x in self.s])
        out = []
        for j, f in enumerate(self.kind.fields):
            x = self.s[j] if self.s else None
            if x is not None:
                out.append(('i', x))
            elif f[0] == 'o':
                out.append(('absent',))
            else:
                out.append(('i', f[1]))
        return ('seq', out)

    def len_str(self):
        return 'err' if self.s is None else str(len(self.s))

    def enc_value(self):
        if self.s is None:
            # a schema record is encoded like one whose components are all absent (library leniency)
            p = DictProto(self.kind)
            p.s = []
            return p.abs()
        return self.abs()

    def ty(self):
        return self.kind.t if self.N else self.kind.dyn_type(len(self.s or []))


class OptionProto(object):
    """at most one (alternative, value|None); `alloc` = the slots exist; `obj` False after reset()"""

    def __init__(self, kind):
        self.kind = kind
        self.n = kind.n
        self.obj, self.alloc, self.sel = True, False, None

    def copy_state(self):
        return (self.obj, self.alloc, self.sel)

    def classify(self, op):
        p = OptionProto(self.kind)
        p.obj, p.alloc, p.sel = self.obj, self.alloc, self.sel
        r = p.apply(op)
        return 'ill' if r in ('lookup', 'lib', 'value') else 'wf'

    def _pos(self, i):
        if 0 <= i < self.n:
            return i
        if -self.n <= i < 0:
            return self.n + i
        return None

    def _set(self, i, a, err):
        j = self._pos(i)
        if j is None or (a is not None and a[0] == 'bad'):
            return err
        self.obj, self.alloc, self.sel = True, True, (j, None if a is None else a[1])
        return 'unit'

    def _get(self, i, inst, err):
        if self.sel is not None and self.sel[0] == i:
            x = self.sel[1]
            return '(c %s)' % comp_str(('v', x) if x is not None else 'ph')
        j = self._pos(i)
        cur = self.sel[1] if (self.sel is not None and j == self.sel[0]) else None
        is_cur = self.sel is not None and j == self.sel[0]
        if not inst:
            return '(c %s)' % comp_str(('v', cur) if cur is not None else 'hole')
        if j is None:
            return err
        if is_cur:
            return '(c %s)' % comp_str(('v', cur) if cur is not None else 'ph')
        # select by touching (the library's design, DESIGN T3)
        self.obj, self.alloc, self.sel = True, True, (j, None)
        return '(c ph)'

    def apply(self, op):
        k = op[0]
        if k == 'setitem-pos':
            return self._set(op[1], op[2], 'lookup')
        if k == 'setpos':
            return self._set(op[1], op[2], 'lib')
        if k == 'setnone':
            return self._set(op[1], None, 'lib')
        if k in ('setitem-name', 'setname', 'settype'):
            err = 'lookup' if k == 'setitem-name' else 'lib'
            if op[1] >= self.n:
                return err
            return self._set(op[1], op[2], err)
        if k == 'clear':
            self.obj, self.alloc, self.sel = True, False, None
            return 'unit'
        if k == 'reset':
            self.obj, self.alloc, self.sel = False, False, None
            return 'unit'
        if k == 'clone':
            if op[1] and self.sel is not None:
                self.obj, self.alloc = True, True
            else:
                self.obj, self.alloc, self.sel = True, False, None
            return 'unit'
        if k == 'len':
            return '(n %d)' % (1 if self.sel is not None else 0)
        if k == 'keys':
            return '(ns%s)' % ('' if self.sel is None else ' %d' % self.sel[0])
        if k == 'contains':
            return '(b %d)' % (1 if (self.sel is not None and self.sel[0] == op[1]) else 0)
        if k == 'getitem-pos':
            return self._get(op[1], True, 'lookup')
        if k == 'getpos':
            return self._get(op[1], op[2], 'lib')
        if k in ('getitem-name', 'getname', 'gettype'):
            err = 'lookup' if k == 'getitem-name' else 'lib'
            inst = True if k == 'getitem-name' else op[2]
            if op[1] >= self.n:
                return err
            return self._get(op[1], inst, err)
        if k == 'values':
            return out_comps([] if self.sel is None else [('v', self.sel[1]) if self.sel[1] is not None else 'ph'])
        if k == 'items':
            return out_items([] if self.sel is None else [(self.sel[0], ('v', self.sel[1]) if self.sel[1] is not None else 'ph')])
        if k == 'getcomponent':
            if self.sel is None:
                return 'lib'
            return '(c %s)' % comp_str(('v', self.sel[1]) if self.sel[1] is not None else 'ph')
        if k == 'getchosenname':
            return 'lib' if self.sel is None else '(ns %d)' % self.sel[0]
        if k == 'pretty':
            if not self.obj:
                return 'lib'
            return out_items([(self.sel[0], ('v', self.sel[1]))] if (self.sel is not None and self.sel[1] is not None) else [])
        if k == 'eq':
            if not self.obj:
                return 'lib'
            if not self.alloc:
                return '(b 0)'
            if self.sel is None:
                return 'lib'
            if self.sel[0] != op[1]:
                return '(b 0)'          # another alternative: not equal, whatever the values
            if self.sel[1] is None:
                return 'lib'
            return '(b %d)' % (1 if self.sel[1] == op[2] else 0)
        if k == 'encode':
            return 'unit'
        raise common.MachineryError('OptionProto: unknown op %r' % (op,))

    def is_value(self):
        return self.sel is not None and self.sel[1] is not None

    def abs(self):
        return ('ch', self.sel[0], ('i', self.sel[1])) if self.is_value() else None

    def len_str(self):
        return '1' if self.sel is not None else '0'

    def enc_value(self):
        return self.abs()

    def ty(self):
        return self.kind.t


def proto_for(kind):
    return {'seqof': ListProto, 'rec': DictProto, 'choice': OptionProto}[kind.kind](kind)


MUTATORS = {'setitem', 'setpos', 'setnone', 'append', 'extend', 'setslice', 'sort', 'reverse', 'clear', 'reset',
            'clone', 'setitem-pos', 'setitem-name', 'setname', 'settype'}


def reader_obligations(kind, proto, op):
    """which observables an accessor must leave unchanged in the prototype's current state:
    subset of {'len','isValue','abs','der','cer','ber'}; empty for mutators and for the documented
    "touch" idioms (append by reading position N of a typed SEQUENCE OF, selecting a CHOICE
    alternative by touching it, touching members of a record that holds no value)."""
    k = op[0]
    full = {'len', 'isValue', 'abs', 'der', 'cer', 'ber'}
    if k in MUTATORS:
        return set()
    if kind.kind == 'seqof':
        if k in ('getitem', 'getpos'):
            n = proto._n()
            inst = True if k == 'getitem' else op[2]
            j = op[1] if op[1] >= 0 else n + op[1]
            if inst and j >= n:
                return set()        # N: documented append-by-touching; beyond: not a read of an existing member
        return full
    if kind.kind == 'rec':
        if proto.s is None:
            return set() if k in ('getitem-pos', 'getitem-name', 'values', 'items', 'encode') or (
                k in ('getpos', 'getname', 'gettype') and op[2]) else full
        touches = k in ('getitem-pos', 'getitem-name', 'values', 'items') or (k in ('getpos', 'getname', 'gettype') and op[2])
        if k == 'encode' and not proto.is_value():
            return {'isValue', 'abs'}
        if touches and kind.n and not proto.s:
            return full - {'len'}      # the slots are allocated by the first touch
        return full
    # choice
    if k in ('getitem-pos', 'getitem-name') or (k in ('getpos', 'getname', 'gettype') and op[2]):
        j = proto._pos(op[1]) if k in ('getitem-pos', 'getpos') else (op[1] if op[1] < proto.n else None)
        if j is not None and (proto.sel is None or proto.sel[0] != j):
            return set()            # select by touching
    return full
