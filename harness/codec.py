"""Calls into the real pyasn1 codecs, canonicalised for comparison with the model (DESIGN §2.1 b)."""
import io

from harness import common  # noqa: F401  (sets sys.path to /repo)
from harness import gen

from pyasn1 import error
from pyasn1.codec.ber import encoder as ber_enc, decoder as ber_dec
from pyasn1.codec.cer import encoder as cer_enc, decoder as cer_dec
from pyasn1.codec.der import encoder as der_enc, decoder as der_dec

ENC = {'ber': ber_enc, 'cer': cer_enc, 'der': der_enc}
DEC = {'ber': ber_dec, 'cer': cer_dec, 'der': der_dec}


def classify(exc):
    if isinstance(exc, error.SubstrateUnderrunError):
        return 'underrun'
    if isinstance(exc, error.PyAsn1Error):
        return 'liberr'
    return 'leak:' + type(exc).__name__


NOMINAL = {'der': (True, 0), 'cer': (False, 1000)}


def impl_encode(codec, t, v, defMode=True, maxChunk=0, obj=None):
    """-> ('ok', bytes) | ('err', class)"""
    try:
        if obj is None:
            obj = gen.build_value(t, v)
        kw = {}
        if codec == 'ber' or (defMode, maxChunk) != NOMINAL.get(codec):
            # the canonical encoders fix their modes themselves; options are handed to them only when a caller's
            # foreign options are being tried (they must not change the output)
            kw = dict(defMode=defMode, maxChunkSize=maxChunk)
        return ('ok', ENC[codec].encode(obj, **kw))
    except RecursionError:
        return ('err', 'leak:RecursionError')
    except Exception as e:  # noqa
        return ('err', classify(e))


def impl_decode(codec, t, data, schema=None, **kw):
    """-> ('ok', abstract value, rest bytes) | ('err', class) | ('bad', why)  (accepted but not a value)"""
    try:
        if schema is None and t is not None:
            schema = gen.build(t)
        obj, rest = DEC[codec].decode(data, asn1Spec=schema, **kw)
    except RecursionError:
        return ('err', 'leak:RecursionError')
    except Exception as e:  # noqa
        return ('err', classify(e))
    try:
        return ('ok', gen.abstract(t, obj), bytes(rest), obj)
    except gen.NotAValue as e:
        return ('bad', str(e), bytes(rest), obj)
    except Exception as e:  # noqa
        return ('bad', 'abstract failed: %s: %s' % (type(e).__name__, e), bytes(rest), obj)


def model_encode(drv, codec, t, v, defMode=True, maxChunk=0):
    ans = drv.ask('ENC %s %d %d %s %s' % (codec, 1 if defMode else 0, maxChunk, gen.ty_sexp(t), gen.val_sexp(v)))
    parts = ans.split(' ', 1)
    if parts[0] == 'ok':
        return ('ok', gen.unhex(parts[1]))
    if parts[0] == 'err':
        return ('err', parts[1])
    raise common.MachineryError('driver: %s' % ans)


def model_decode(drv, codec, t, data):
    ans = drv.ask('DEC %s %s %s' % (codec, gen.ty_sexp(t), gen.hexs(data)))
    if ans.startswith('ok '):
        sx = gen.parse_sexps(ans[3:])
        return ('ok', gen.val_of_sexp(sx[0]), gen.unhex(sx[1]))
    if ans.startswith('err '):
        return ('err', ans[4:])
    raise common.MachineryError('driver: %s' % ans)
