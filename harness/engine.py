"""Shared sweep over the schema universe for the codec properties (C01, C02, C03, C06, C07, C09...).

For each generated (type, value) the engine establishes the facts every codec property needs —
the implementation's and the model's encodings under every mode — runs the ENC/DEC correspondence
(model vs code) and hands the case to the property's own oracle."""
from harness import common, gen, codec, wire, sigs

BER_MODES = [('ber', True, 0), ('ber', False, 0)]
CHUNKS = [1, 2, 3, 7, 1000]


class Case(object):
    __slots__ = ('t', 'v', 'schema', 'obj', 'canon', 'replay')

    def __init__(self, t, v):
        self.t = t
        self.v = v
        self.schema = gen.build(t)
        self.obj = None
        self.canon = gen.ty_sexp(t) + ' ' + gen.val_sexp(v)
        self.replay = {'type': gen.ty_sexp(t), 'value': gen.val_sexp(v)}

    def fresh_obj(self):
        return gen.build_value(self.t, self.v, self.schema)


def representable(case):
    """build -> abstract must be the identity, otherwise the library's object model cannot hold the value"""
    try:
        back = gen.abstract(case.t, case.fresh_obj())
    except Exception:  # noqa
        return False
    return gen.val_equiv(case.t, back, case.v)


def modes_for(rng, tier):
    m = [('ber', True, 0), ('ber', False, 0), ('ber', True, rng.choice(CHUNKS)), ('ber', False, rng.choice(CHUNKS)),
         ('cer', False, 1000), ('der', True, 0)]
    return m


def corr_encode(rep, drv, case, mode):
    """ENC correspondence; returns the implementation's result"""
    cdc, dm, ch = mode
    ie = codec.impl_encode(cdc, case.t, case.v, dm, ch, obj=case.fresh_obj())
    me = codec.model_encode(drv, cdc, case.t, case.v, dm, ch)
    rep.corr_checked += 1
    if ie[0] == 'ok' and me[0] == 'ok':
        if ie[1] != me[1]:
            rep.disagree('ENC', dict(case.replay, mode=list(mode)), me[1].hex(), ie[1].hex())
    elif ie[0] != me[0]:
        sig = encode_refusal_region(case, ie)
        if sig is None:
            rep.disagree('ENC', dict(case.replay, mode=list(mode)), repr(me[:2]), repr(ie[:2]))
    return ie


def encode_refusal_region(case, ie):
    """encoder refusals that belong to a recorded finding's region (the model does not mirror them:
    they live in `==` of the object model, outside the codec model)"""
    if ie[0] == 'err' and ie[1] == 'liberr' and sigs.has_constructed_default(case.t):
        return 'T11-default-of-constructed-type'
    if ie[0] == 'err' and ie[1] == 'leak:OverflowError' and sigs.has_real_default(case.t):
        return 'T12-real-default-through-float'
    return None


def corr_decode(rep, drv, case, dec_codec, data, want_same_class=False):
    """DEC correspondence on one input; returns (impl result, model result)"""
    idr = codec.impl_decode(dec_codec, case.t, data, case.schema)
    md = codec.model_decode(drv, dec_codec, case.t, data)
    rep.corr_checked += 1
    if idr[0] == 'ok' and md[0] == 'ok':
        if not gen.val_equiv(case.t, idr[1], md[1]) or idr[2] != md[2]:
            rep.disagree('DEC', dict(case.replay, codec=dec_codec, bytes=data.hex()),
                         [gen.val_sexp(md[1]), md[2].hex()], [gen.val_sexp(idr[1]), idr[2].hex()])
    elif md[0] == 'ok' and idr[0] != 'ok':
        # the model is the X.690 reading: what it accepts the code must accept
        rep.disagree('DEC', dict(case.replay, codec=dec_codec, bytes=data.hex()), 'ok', repr(idr[:2]))
    elif want_same_class and md[0] == 'err' and idr[0] == 'err':
        mc = 'underrun' if md[1] == 'underrun' else 'liberr'
        if mc != idr[1]:
            rep.disagree('DEC-class', dict(case.replay, codec=dec_codec, bytes=data.hex()), md[1], idr[1])
    return idr, md


def gen_cases(rng, n, **opts):
    g = gen.Gen(rng, **opts)
    for _ in range(n):
        t, v = g.case()
        yield Case(t, v)


def roundtrip_verdict(rep, case, enc_mode, dec_codec, data, idr, prop_sig_prefix=''):
    """direct oracle: decode(encode(v)) has the abstract content of v and nothing is left over"""
    cdc, dm, ch = enc_mode
    ok = idr[0] == 'ok' and gen.val_equiv(case.t, idr[1], case.v) and idr[2] == b''
    if ok:
        return True
    sig = sigs.classify_roundtrip(case.t, case.v, cdc, dm)
    if sig is None:
        if idr[0] == 'err':
            sig = 'roundtrip-' + idr[1]
        elif idr[0] == 'bad':
            sig = 'roundtrip-not-a-value'
        elif idr[2] != b'':
            sig = 'roundtrip-remainder'
        else:
            sig = 'roundtrip-value-differs'
    what = '%s-encode %s defMode=%s chunk=%s, %s-decode -> %s' % (
        cdc, gen.ty_sexp(case.t)[:200], dm, ch, dec_codec,
        (idr[0], gen.val_sexp(idr[1])[:200], idr[2].hex()) if idr[0] == 'ok' else idr[:2])
    rep.fail(prop_sig_prefix + sig, what, dict(case.replay, kind='roundtrip', enc=[cdc, dm, ch], dec=dec_codec,
                                               bytes=data.hex()))
    return False


class Collector(object):
    """a stand-in for Report used while shrinking: same recording interface, no output"""

    def __init__(self):
        self.failures = []
        self.corr_disagreements = []
        self.corr_checked = 0
        self.known = []

    def fail(self, signature, what, replay):
        self.failures.append({'signature': signature, 'what': what, 'replay': replay})

    def disagree(self, op, case, model, impl):
        self.corr_disagreements.append({'op': op, 'case': case, 'model': model, 'impl': impl})

    def count(self, *a, **k):
        pass

    def case(self, *a, **k):
        pass


def post_shrink(rep, drv, check_one, max_items=4):
    """minimise the first few unlisted failures / disagreements in place.
    check_one(collector, drv, case, replay_dict) re-runs the property's single-case check."""
    from harness import shrink, sexp_types
    done = set()
    for f in rep.failures:
        if len(done) >= max_items or f['signature'] in done:
            continue
        r = f['replay']
        if 'type' not in r or 'value' not in r:
            continue
        done.add(f['signature'])
        try:
            t = sexp_types.ty_of_sexp(gen.parse_sexps(r['type'])[0])
            v = gen.val_of_sexp(gen.parse_sexps(r['value'])[0])
        except Exception:  # noqa
            continue

        def fails(t2, v2, sig=f['signature'], r=r):
            c = Collector()
            check_one(c, drv, Case(t2, v2), r)
            return any(x['signature'] == sig for x in c.failures)
        try:
            t2, v2 = shrink.shrink(t, v, fails)
            c = Collector()
            check_one(c, drv, Case(t2, v2), r)
            hit = [x for x in c.failures if x['signature'] == f['signature']]
            f['minimized'] = {'type': gen.ty_sexp(t2), 'value': gen.val_sexp(v2),
                              'what': hit[0]['what'] if hit else None,
                              'replay': hit[0]['replay'] if hit else None}
        except Exception as e:  # noqa
            f['minimized'] = {'error': repr(e)}
    n = 0
    for d in rep.corr_disagreements:
        if n >= max_items:
            break
        r = d['case']
        if not isinstance(r, dict) or 'type' not in r or 'value' not in r:
            continue
        n += 1
        try:
            t = sexp_types.ty_of_sexp(gen.parse_sexps(r['type'])[0])
            v = gen.val_of_sexp(gen.parse_sexps(r['value'])[0])
        except Exception:  # noqa
            continue

        def differs(t2, v2, op=d['op'], r=r):
            c = Collector()
            check_one(c, drv, Case(t2, v2), r)
            return any(x['op'] == op for x in c.corr_disagreements)
        try:
            t2, v2 = shrink.shrink(t, v, differs)
            c = Collector()
            check_one(c, drv, Case(t2, v2), r)
            hit = [x for x in c.corr_disagreements if x['op'] == d['op']]
            d['minimized'] = hit[0] if hit else {'type': gen.ty_sexp(t2), 'value': gen.val_sexp(v2)}
        except Exception as e:  # noqa
            d['minimized'] = {'error': repr(e)}
