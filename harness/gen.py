"""Type/value universe shared by every check: generator, s-expression printer, pyasn1 builders and
the `abstract` extractor (DESIGN §3.2, §3.3, §7).

Types (Python tuples, mirroring lean/Asn1/Schema.lean `Ty`):
  ('bool',) ('int',) ('enum',) ('bits',) ('null',) ('oid',) ('real',) ('str', n) ('any',)
  ('seq', [field...]) ('set', [field...]) ('choice', [field...])    field = (kind, default, T), kind in 'r','o','d'
  ('seqof', T) ('setof', T) ('tag', 'e'|'i', cls, num, T)            cls in 'u','a','c','p'
Values (`Val`):
  ('b', bool) ('i', int) ('bits', '0101') ('s', bytes) ('null',) ('oid', [arcs]) ('real', 'pinf'|'minf')
  ('real', m, b, e) ('seq', [v...]) ('of', [v...]) ('ch', idx, v) ('any', bytes) ('absent',)
"""
import random
from fractions import Fraction

from pyasn1.type import univ, char, useful, tag, namedtype, constraint
from pyasn1.type import base as pbase

STR_CLASSES = {
    4: univ.OctetString, 12: char.UTF8String, 18: char.NumericString, 19: char.PrintableString,
    20: char.TeletexString, 21: char.VideotexString, 22: char.IA5String, 25: char.GraphicString,
    26: char.VisibleString, 27: char.GeneralString, 28: char.UniversalString, 30: char.BMPString,
    7: useful.ObjectDescriptor, 24: useful.GeneralizedTime, 23: useful.UTCTime,
}
CLS = {'u': tag.tagClassUniversal, 'a': tag.tagClassApplication, 'c': tag.tagClassContext,
       'p': tag.tagClassPrivate}
CLS_INV = {v: k for k, v in CLS.items()}

# ----------------------------------------------------------------------------- s-expressions


def hexs(b):
    return b.hex() if b else '-'


def ty_sexp(t):
    k = t[0]
    if k in ('bool', 'int', 'enum', 'bits', 'null', 'oid', 'real', 'any'):
        return k
    if k == 'str':
        return '(str %d)' % t[1]
    if k in ('seq', 'set', 'choice'):
        return '(%s%s)' % (k, ''.join(' ' + field_sexp(f) for f in t[1]))
    if k in ('seqof', 'setof'):
        return '(%s %s)' % (k, ty_sexp(t[1]))
    if k == 'tag':
        return '(tag %s %s %d %s)' % (t[1], t[2], t[3], ty_sexp(t[4]))
    raise ValueError(t)


def field_sexp(f):
    kind, dflt, t = f
    if kind == 'd':
        return '(d %s %s)' % (val_sexp(dflt), ty_sexp(t))
    return '(%s %s)' % (kind, ty_sexp(t))


def val_sexp(v):
    k = v[0]
    if k == 'b':
        return '(b %d)' % (1 if v[1] else 0)
    if k == 'i':
        return '(i %d)' % v[1]
    if k == 'bits':
        return '(bits %s)' % (v[1] or '-')
    if k == 's':
        return '(s %s)' % hexs(v[1])
    if k in ('null', 'absent'):
        return k
    if k == 'oid':
        return '(oid%s)' % ''.join(' %d' % a for a in v[1])
    if k == 'real':
        if len(v) == 2:
            return '(real %s)' % v[1]
        return '(real %d %d %d)' % (v[1], v[2], v[3])
    if k == 'seq':
        return '(seq%s)' % ''.join(' ' + val_sexp(x) for x in v[1])
    if k == 'of':
        return '(of%s)' % ''.join(' ' + val_sexp(x) for x in v[1])
    if k == 'ch':
        return '(ch %d %s)' % (v[1], val_sexp(v[2]))
    if k == 'any':
        return '(any %s)' % hexs(v[1])
    raise ValueError(v)


def _tokens(s):
    return s.replace('(', ' ( ').replace(')', ' ) ').split()


def _parse(toks, i):
    if toks[i] == '(':
        out = []
        i += 1
        while toks[i] != ')':
            x, i = _parse(toks, i)
            out.append(x)
        return out, i + 1
    return toks[i], i + 1


def parse_sexps(s):
    toks = _tokens(s)
    out = []
    i = 0
    while i < len(toks):
        x, i = _parse(toks, i)
        out.append(x)
    return out


def unhex(s):
    return b'' if s == '-' else bytes.fromhex(s)


def val_of_sexp(x):
    if x == 'null':
        return ('null',)
    if x == 'absent':
        return ('absent',)
    h = x[0]
    if h == 'b':
        return ('b', x[1] == '1')
    if h == 'i':
        return ('i', int(x[1]))
    if h == 'bits':
        return ('bits', '' if x[1] == '-' else x[1])
    if h == 's':
        return ('s', unhex(x[1]))
    if h == 'oid':
        return ('oid', [int(a) for a in x[1:]])
    if h == 'real':
        if len(x) == 2:
            return ('real', x[1])
        return ('real', int(x[1]), int(x[2]), int(x[3]))
    if h == 'seq':
        return ('seq', [val_of_sexp(y) for y in x[1:]])
    if h == 'of':
        return ('of', [val_of_sexp(y) for y in x[1:]])
    if h == 'ch':
        return ('ch', int(x[1]), val_of_sexp(x[2]))
    if h == 'any':
        return ('any', unhex(x[1]))
    raise ValueError(x)


# ----------------------------------------------------------------------------- type helpers


def base_of(t):
    while t[0] == 'tag':
        t = t[4]
    return t


UNIV = {'bool': 1, 'int': 2, 'bits': 3, 'null': 5, 'oid': 6, 'real': 9, 'enum': 10}


def tags_of(t):
    """superTags, innermost first, as (cls, constructed, num)"""
    k = t[0]
    if k in UNIV:
        return [('u', False, UNIV[k])]
    if k == 'str':
        return [('u', False, t[1])]
    if k in ('seq', 'seqof'):
        return [('u', True, 16)]
    if k in ('set', 'setof'):
        return [('u', True, 17)]
    if k in ('choice', 'any'):
        return []
    if k == 'tag':
        inner = tags_of(t[4])
        if t[1] == 'e':
            return inner + [(t[2], True, t[3])]
        if inner:
            return inner[:-1] + [(t[2], inner[-1][1], t[3])]
        return [(t[2], False, t[3])]
    raise ValueError(t)


def outer_tags(t):
    """set of (cls, num) an encoding may start with; None = anything"""
    if t[0] == 'choice':
        out = set()
        for _, _, ft in t[1]:
            o = outer_tags(ft)
            if o is None:
                return None
            out |= o
        return out
    if t[0] == 'any':
        return None
    ts = tags_of(t)
    return {(ts[-1][0], ts[-1][2])}


def wf(t):
    """the side condition under which ASN.1 itself is unambiguous (mirror of Lean `Ty.WF`)"""
    k = t[0]
    if k == 'tag':
        if t[1] == 'e' and t[2] == 'u':
            return False
        return wf(t[4])
    if k in ('seqof', 'setof'):
        return wf(t[1])
    if k == 'choice':
        if not t[1]:
            return False
        seen = set()
        for _, _, ft in t[1]:
            if not wf(ft):
                return False
            o = outer_tags(ft)
            if o is None or (o & seen):
                return False
            seen |= o
        return True
    if k == 'set':
        seen = set()
        for _, _, ft in t[1]:
            if not wf(ft):
                return False
            o = outer_tags(ft)
            if o is None or (o & seen):
                return False
            seen |= o
        return True
    if k == 'seq':
        window = set()
        for kind, _, ft in t[1]:
            if not wf(ft):
                return False
            o = outer_tags(ft)
            if window:
                if o is None or (o & window):
                    return False
            if kind in ('o', 'd'):
                if o is None:
                    return False
                window |= o
            else:
                window = set()
        return True
    return True


def depth(t):
    k = t[0]
    if k == 'tag':
        return depth(t[4])
    if k in ('seqof', 'setof'):
        return 1 + depth(t[1])
    if k in ('seq', 'set', 'choice'):
        return 1 + max([depth(f[2]) for f in t[1]] + [0])
    return 0


def has_tag(t):
    k = t[0]
    if k == 'tag':
        return True
    if k in ('seqof', 'setof'):
        return has_tag(t[1])
    if k in ('seq', 'set', 'choice'):
        return any(has_tag(f[2]) for f in t[1])
    return False


def nontrivial(t):
    return depth(t) >= 1 or has_tag(t)


# ----------------------------------------------------------------------------- pyasn1 builders

def _apply_tag(obj, mode, cls, num):
    tg = tag.Tag(CLS[cls], tag.tagFormatSimple, num)
    if mode == 'e':
        return obj.subtype(explicitTag=tg)
    return obj.subtype(implicitTag=tg)


def build(t):
    """pyasn1 schema object for a type"""
    k = t[0]
    if k == 'bool':
        return univ.Boolean()
    if k == 'int':
        return univ.Integer()
    if k == 'enum':
        return univ.Enumerated()
    if k == 'bits':
        return univ.BitString()
    if k == 'null':
        return univ.Null()
    if k == 'oid':
        return univ.ObjectIdentifier()
    if k == 'real':
        return univ.Real()
    if k == 'any':
        return univ.Any()
    if k == 'str':
        return STR_CLASSES[t[1]]()
    if k in ('seq', 'set', 'choice'):
        nts = []
        for i, (kind, dflt, ft) in enumerate(t[1]):
            name = 'f%d' % i
            if kind == 'r' or k == 'choice':
                nts.append(namedtype.NamedType(name, build(ft)))
            elif kind == 'o':
                nts.append(namedtype.OptionalNamedType(name, build(ft)))
            else:
                dv = build_value(ft, dflt)
                if base_of(ft)[0] in ('seq', 'set') and all(x[0] == 'absent' for x in dflt[1]) and len(dflt[1]) % 2 == 0:
                    # the empty record as schemas usually declare it: a bare instance of the record type (a value in
                    # its own right when nothing in it is mandatory), not an object that went through clear()
                    bare = build(ft)
                    if bare.isValue:
                        dv = bare
                nts.append(namedtype.DefaultedNamedType(name, dv))
        cls = {'seq': univ.Sequence, 'set': univ.Set, 'choice': univ.Choice}[k]
        return cls(componentType=namedtype.NamedTypes(*nts))
    if k == 'seqof':
        return univ.SequenceOf(componentType=build(t[1]))
    if k == 'setof':
        return univ.SetOf(componentType=build(t[1]))
    if k == 'tag':
        return _apply_tag(build(t[4]), t[1], t[2], t[3])
    raise ValueError(t)


def build_value(t, v, schema=None):
    """pyasn1 value object of type `t` holding abstract value `v`"""
    if schema is None:
        schema = build(t)
    b = base_of(t)
    k = b[0]
    if k == 'bool':
        return schema.clone(1 if v[1] else 0)
    if k in ('int', 'enum'):
        return schema.clone(v[1])
    if k == 'bits':
        return schema.clone(univ.BitString(binValue=v[1])) if v[1] else schema.clone(())
    if k == 'null':
        return schema.clone('')
    if k == 'oid':
        return schema.clone(tuple(v[1]))
    if k == 'real':
        if len(v) == 2:
            return schema.clone('inf' if v[1] == 'pinf' else '-inf')
        return schema.clone((v[1], v[2], v[3]))
    if k == 'any':
        return schema.clone(v[1])
    if k == 'str':
        return schema.clone(v[1])
    if k in ('seq', 'set'):
        obj = schema.clone()
        obj.clear()     # an empty record that is present is a value, not a schema
        for i, ((kind, dflt, ft), fv) in enumerate(zip(b[1], v[1])):
            if fv[0] == 'absent':
                continue
            obj.setComponentByPosition(i, build_value(ft, fv, schema.componentType[i].asn1Object))
        return obj
    if k == 'choice':
        obj = schema.clone()
        idx = v[1]
        ft = b[1][idx][2]
        obj.setComponentByPosition(idx, build_value(ft, v[2], schema.componentType[idx].asn1Object))
        return obj
    if k in ('seqof', 'setof'):
        obj = schema.clone()
        obj.clear()
        for i, ev in enumerate(v[1]):
            obj.setComponentByPosition(i, build_value(b[1], ev, schema.componentType))
        return obj
    raise ValueError(t)


class NotAValue(Exception):
    pass


def abstract(t, obj):
    """abstract content of a pyasn1 value object read against type `t` (DESIGN §3.2)"""
    b = base_of(t)
    k = b[0]
    if not isinstance(obj, pbase.Asn1Item):
        raise NotAValue('not an ASN.1 object: %r' % (obj,))
    # the object in a slot is an object of the slot's kind (a CHOICE object answers int() and == through its component,
    # so reading the content alone would not notice one sitting in an INTEGER slot)
    want = {'bool': univ.Boolean, 'int': univ.Integer, 'enum': univ.Enumerated, 'bits': univ.BitString, 'null': univ.Null,
            'oid': univ.ObjectIdentifier, 'real': univ.Real, 'any': univ.Any, 'str': univ.OctetString, 'seq': univ.Sequence,
            'set': univ.Set, 'seqof': univ.SequenceOf, 'setof': univ.SetOf, 'choice': univ.Choice}.get(k)
    if want is not None and not isinstance(obj, want):
        raise NotAValue('a %s object in a slot of kind %s' % (type(obj).__name__, k))
    if k in ('seq', 'set'):
        out = []
        for i, (kind, dflt, ft) in enumerate(b[1]):
            comp = obj.getComponentByPosition(i, default=None, instantiate=False)
            if comp is None or comp is pbase.noValue or not comp.isValue:
                if kind == 'o':
                    out.append(('absent',))
                elif kind == 'd':
                    out.append(dflt)
                else:
                    raise NotAValue('mandatory component %d missing' % i)
            else:
                out.append(abstract(ft, comp))
        return ('seq', out)
    if k in ('seqof', 'setof'):
        if not obj.isValue:
            raise NotAValue('valueless container')
        return ('of', [abstract(b[1], obj.getComponentByPosition(i, instantiate=False))
                       for i in range(len(obj))])
    if k == 'choice':
        if not obj.isValue:
            raise NotAValue('valueless CHOICE')
        name = obj.getName()
        idx = int(name[1:])
        return ('ch', idx, abstract(b[1][idx][2], obj.getComponent()))
    if not obj.isValue:
        raise NotAValue('valueless scalar')
    if k == 'bool':
        return ('b', bool(int(obj)))
    if k in ('int', 'enum'):
        return ('i', int(obj))
    if k == 'bits':
        return ('bits', obj.asBinary() if len(obj) else '')
    if k == 'null':
        return ('null',)
    if k == 'oid':
        return ('oid', [int(a) for a in obj.asTuple()])
    if k == 'real':
        if obj.isPlusInf:
            return ('real', 'pinf')
        if obj.isMinusInf:
            return ('real', 'minf')
        m, bb, e = tuple(obj)
        return ('real', m, int(bb), int(e))
    if k == 'any':
        return ('any', obj.asOctets())
    if k == 'str':
        return ('s', obj.asOctets())
    raise ValueError(t)


def real_q(v):
    m, b, e = v[1], v[2], v[3]
    return Fraction(m) * (Fraction(b) ** e)


def val_equiv(t, a, b):
    """abstract equality: structural, reals as rationals, SET OF up to permutation, absent DEFAULT = default"""
    bt = base_of(t)
    k = bt[0]
    if a[0] != b[0]:
        return False
    if k == 'real':
        if len(a) == 2 or len(b) == 2:
            return a == b
        try:
            return real_q(a) == real_q(b)
        except (TypeError, ValueError, ZeroDivisionError):
            return a == b
    if k in ('seq', 'set'):
        if len(a[1]) != len(b[1]) or len(a[1]) != len(bt[1]):
            return False
        for (kind, dflt, ft), x, y in zip(bt[1], a[1], b[1]):
            if x[0] == 'absent' or y[0] == 'absent':
                if x[0] != y[0]:
                    return False
                continue
            if not val_equiv(ft, x, y):
                return False
        return True
    if k == 'seqof':
        return len(a[1]) == len(b[1]) and all(val_equiv(bt[1], x, y) for x, y in zip(a[1], b[1]))
    if k == 'setof':
        if len(a[1]) != len(b[1]):
            return False
        rest = list(b[1])
        for x in a[1]:
            for j, y in enumerate(rest):
                if val_equiv(bt[1], x, y):
                    del rest[j]
                    break
            else:
                return False
        return True
    if k == 'choice':
        return a[1] == b[1] and val_equiv(bt[1][a[1]][2], a[2], b[2])
    return a == b


# ----------------------------------------------------------------------------- generator

TAG_NUMS = [0, 1, 2, 3, 5, 30, 31, 32, 127, 128, 16383, 16384, 2 ** 32, 2 ** 64 + 1]
INT_BOUNDS = [0, 1, -1, 127, 128, -128, -129, 255, 256, -256, 32767, 32768, -32768, -32769,
              2 ** 31 - 1, 2 ** 31, -2 ** 31, -2 ** 31 - 1, 2 ** 63, -2 ** 63, 2 ** 64, 2 ** 127, -2 ** 127,
              2 ** 1000, -2 ** 1000]
SCALARS = ['bool', 'int', 'enum', 'bits', 'null', 'oid', 'real', 'str', 'str', 'str']
STR_KINDS = [4, 4, 4, 12, 18, 19, 20, 21, 22, 25, 26, 27, 28, 30, 7]


class Gen(object):
    def __init__(self, rng, max_depth=3, allow_any=False, allow_real10=False, allow_choice=True,
                 allow_set=True, allow_implicit=True, allow_time=False, any_ber=False):
        self.r = rng
        self.max_depth = max_depth
        self.allow_any = allow_any
        self.allow_real10 = allow_real10
        self.allow_choice = allow_choice
        self.allow_set = allow_set
        self.allow_implicit = allow_implicit
        self.any_ber = any_ber      # ANY values in arbitrary BER form (else DER form)

    # --- types
    def scalar(self):
        k = self.r.choice(SCALARS)
        if k == 'str':
            return ('str', self.r.choice(STR_KINDS))
        return (k,)

    def rand_tag(self, t):
        r = self.r
        cls = r.choice('acp')
        num = r.choice(TAG_NUMS) if r.random() < 0.4 else r.randrange(0, 40)
        mode = 'e'
        if self.allow_implicit and r.random() < 0.5 and base_of(t)[0] not in ('choice', 'any'):
            mode = 'i'
        return ('tag', mode, cls, num, t)

    def maybe_tag(self, t, p=0.35):
        while self.r.random() < p:
            t = self.rand_tag(t)
            p *= 0.5
        return t

    def ty(self, d=None):
        r = self.r
        if d is None:
            d = self.max_depth
        for _ in range(200):
            t = self._ty(d)
            if wf(t):
                return t
        return ('int',)

    def _ty(self, d):
        r = self.r
        if d <= 0 or r.random() < 0.3:
            t = self.scalar()
            if self.allow_any and r.random() < 0.05:
                t = ('any',)
            return self.maybe_tag(t)
        kinds = ['seq', 'seq', 'seqof', 'setof']
        if self.allow_set:
            kinds.append('set')
        if self.allow_choice:
            kinds.append('choice')
        k = r.choice(kinds)
        if k in ('seqof', 'setof'):
            return self.maybe_tag((k, self._ty(d - 1)))
        n = r.choice([0, 1, 1, 2, 2, 3, 3, 4, 5]) if k != 'choice' else r.choice([1, 2, 2, 3, 4])
        fields = []
        for i in range(n):
            ft = self._ty(d - 1)
            # make tag collisions rare: context-tag most members by position; an untagged CHOICE nested directly in
            # a CHOICE / SET / SEQUENCE (found by the tags of its alternatives) is kept untagged more often
            nested_choice = ft[0] == 'choice'
            if r.random() < (0.25 if nested_choice else 0.6):
                ft = ('tag', r.choice('ei') if (self.allow_implicit and base_of(ft)[0] not in ('choice', 'any')) else 'e',
                      'c', i, ft)
            kind = 'r'
            dflt = None
            if k != 'choice':
                x = r.random()
                if x < 0.25:
                    kind = 'o'
                elif x < 0.4 and (base_of(ft)[0] not in ('seq', 'set', 'seqof', 'setof', 'choice')
                                  or r.random() < 0.1):
                    # (DEFAULT of a constructed type trips `==` in the encoder: finding T11, kept rare)
                    kind = 'd'
                    dflt = self.val(ft, for_default=True)
            fields.append((kind, dflt, ft))
        return self.maybe_tag((k, fields))

    # --- values
    def integer(self):
        r = self.r
        x = r.random()
        if x < 0.4:
            return r.choice(INT_BOUNDS) + r.choice([0, 0, 1, -1])
        if x < 0.7:
            return r.randrange(-300, 300)
        k = r.randrange(1, 20)
        return r.choice([1, -1]) * (2 ** (8 * k - 1)) + r.choice([-2, -1, 0, 1, 2])

    def text_octets(self, kind, n):
        r = self.r
        if kind == 4:
            return bytes(r.randrange(256) for _ in range(n))
        if kind == 12:
            s = ''.join(r.choice(['a', 'é', '€', '𝄞', 'z', ' ']) for _ in range(n))
            return s.encode('utf-8')
        if kind == 30:
            s = ''.join(r.choice(['a', 'é', '€', 'Ж']) for _ in range(n))
            return s.encode('utf-16-be')
        if kind == 28:
            s = ''.join(r.choice(['a', 'é', '€', '𝄞']) for _ in range(n))
            return s.encode('utf-32-be')
        if kind == 18:
            return bytes(r.choice(b'0123456789 ') for _ in range(n))
        if kind in (19, 22, 26, 7):
            return bytes(r.choice(b"abcXYZ019 '()+,-./:=?") for _ in range(n))
        return bytes(r.randrange(0x20, 0x100) for _ in range(n))   # iso-8859-1 kinds

    def val(self, t, for_default=False):
        r = self.r
        b = base_of(t)
        k = b[0]
        if k == 'bool':
            return ('b', r.random() < 0.5)
        if k in ('int', 'enum'):
            return ('i', self.integer())
        if k == 'bits':
            n = r.choice([0, 1, 7, 8, 9, 15, 16, 17, 23, 24, 25]) if r.random() < 0.7 else r.randrange(0, 80)
            bits = ''.join(r.choice('01') for _ in range(n))
            x = r.random()
            if x < 0.25:
                bits = '0' * r.choice([1, 7, 8, 9, 16, 24]) + bits       # leading zero bits / octets
            elif x < 0.35:
                bits = '0' * max(len(bits), r.choice([1, 2, 4, 8, 13]))     # all-zero and not empty
            return ('bits', bits)
        if k == 'null':
            return ('null',)
        if k == 'oid':
            first = r.choice([0, 1, 2])
            second = r.randrange(0, 40) if first < 2 else r.choice([0, 39, 40, 47, 48, 100, 999, 2 ** 40])
            rest = [r.choice([0, 1, 127, 128, 16383, 16384, 2 ** 32, 2 ** 70, r.randrange(0, 100000)])
                    for _ in range(r.randrange(0, 6))]
            return ('oid', [first, second] + rest)
        if k == 'real':
            x = r.random()
            if x < 0.1:
                return ('real', 'pinf')
            if x < 0.2:
                return ('real', 'minf')
            if x < 0.3:
                return ('real', 0, 10, 0) if self.allow_real10 else ('real', 0, 2, 0)
            m = r.choice([1, -1]) * r.choice([1, 2, 3, 5, 255, 256, 257, 2 ** 20, 2 ** 52 + 1, 12345, 10 ** 15 + 3])
            e = r.choice([0, 1, -1, 2, -2, 10, -10, 127, 128, -128, -129, 255, 256, 1000, -1000])
            base = 10 if (self.allow_real10 and r.random() < 0.3) else 2
            # normal form (odd mantissa / no trailing decimal zeros) so that structural equality of the
            # triples coincides with numeric equality (DEFAULT comparison is numeric)
            while m % base == 0:
                m //= base
                e += 1
            return ('real', m, base, e)
        if k == 'any':
            # the complete encoding of some value: scalar, constructed, definite or indefinite
            x = r.random()
            if x < 0.3:
                return ('any', bytes([2, 1, r.randrange(128)]))
            from pyasn1.codec.ber import encoder as _ber_encoder
            from pyasn1.codec.der import encoder as _der_encoder
            sub = Gen(r, max_depth=1, allow_any=False)
            for _ in range(5):
                t2 = sub.ty(1)
                v2 = sub.val(t2)
                if base_of(t2)[0] == 'choice' and not tags_of(t2):
                    continue
                try:
                    if self.any_ber:
                        raw = _ber_encoder.encode(build_value(t2, v2), defMode=r.random() < 0.6)
                    else:
                        raw = _der_encoder.encode(build_value(t2, v2))
                except Exception:  # noqa
                    continue
                # only encodings that are one well-formed element (skip the stray end-of-octets region)
                from harness import wire as _wire
                try:
                    nodes = _wire.read_all(raw)
                except Exception:  # noqa
                    continue
                if len(nodes) == 1:
                    return ('any', raw)
            return ('any', bytes([5, 0]))
        if k == 'str':
            x = r.random()
            n = 0 if x < 0.15 else (r.randrange(1, 12) if x < 0.9 else r.randrange(12, 70))
            if r.random() < 0.04:
                n = r.choice([126, 127, 128, 129, 255, 256, 257])       # around the length-form boundaries
            return ('s', self.text_octets(b[1], n))
        if k in ('seq', 'set'):
            out = []
            for kind, dflt, ft in b[1]:
                if kind == 'o' and r.random() < 0.5:
                    out.append(('absent',))
                elif kind == 'd' and r.random() < 0.4:
                    out.append(dflt)
                else:
                    out.append(self.val(ft, for_default))
            return ('seq', out)
        if k in ('seqof', 'setof'):
            n = r.choice([0, 0, 1, 2, 3]) if not for_default else r.choice([0, 1])
            return ('of', [self.val(b[1], for_default) for _ in range(n)])
        if k == 'choice':
            idx = r.randrange(len(b[1]))
            return ('ch', idx, self.val(b[1][idx][2], for_default))
        raise ValueError(t)

    def case(self):
        t = self.ty()
        return t, self.val(t)
