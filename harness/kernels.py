"""Correspondence for the source-to-Lean translator (gen/py2lean.py) and its run-time library (lean/Asn1/PyLite.lean):
the *translation* of a function (driver ops KTAG, KLEN, KTOBYTES, KOIDENC, KOIDDEC, KTIME, KREAL, KREALDEC, KDECLEN, KDECTAG, KOCTCHUNK, KSETOF, KCERBOOLENC, KBERBOOLENC, KINTENC, KWREAD, KWMARK, KREADTURN, KEOSTURN, PYBIO, KCRANGE, KCSIZE, KCSINGLE, KCALPHA, KCERBOOL, KWRAP, KINTDEC, KBITSDEC, KBITSFROM, KNULLDEC, KBERBOOLDEC, KREQSEEN, KSEQOFIDX, KANYCAP, KEXPLGUESS; PYFROMBYTES) and the function itself in /repo are
run on the same arguments; the Python builtins PyLite transcribes (PYOP) are compared with CPython.

A disagreement means the translator or PyLite misrepresents the code (machinery fault to repair) - it is reported as a
broken correspondence, so that nothing proved about the generated definitions is believed while it stands."""
import json
import os
import subprocess
import sys

from harness import common

BOUND = [0, 1, 2, 30, 31, 32, 39, 40, 79, 80, 126, 127, 128, 129, 255, 256, 257, 16383, 16384, 65535, 65536,
         2 ** 21 - 1, 2 ** 21, 2 ** 32 - 1, 2 ** 32, 2 ** 63, 2 ** 64 + 1, 2 ** 1007, 2 ** 1008 - 1, 2 ** 1008, 2 ** 1016]


def translate():
    """run gen/py2lean.py; returns its status dict {'changed':..., 'kernels': {name: {...}}}"""
    rc, out = common.run([sys.executable, os.path.join(common.VERIF, 'gen', 'py2lean.py')], cwd=common.VERIF)
    if rc != 0:
        raise common.MachineryError('gen/py2lean.py failed:\n' + out)
    try:
        return json.loads(out.strip().splitlines()[-1])
    except Exception:
        return {}


def _ints(ans):
    # 'ok 1 2 3' -> ('ok', [1,2,3]) ; 'err X' -> ('err', 'X')
    p = ans.split()
    if not p:
        return ('bad', ans)
    if p[0] == 'ok':
        return ('ok', [int(x) for x in p[1:] if x not in ('|', 'false', 'true')])
    return ('err', ' '.join(p[1:]))


def _py(f, *a, **kw):
    from pyasn1 import error
    try:
        r = f(*a, **kw)
    except error.PyAsn1Error as e:
        return ('err', type(e).__name__)
    except (IndexError, OverflowError) as e:
        return ('err', type(e).__name__)
    return ('ok', r)


def check(rep, drv, seed, n=400, which=('encodeTag', 'encodeLength', 'toBytes', 'oidEncode', 'oidDecode', 'timeCanon', 'realBin', 'realDec', 'decodeLength', 'cerBool', 'wrapTags', 'intDecode', 'decodeTag', 'octetChunks', 'constraintLeaves', 'setOfSort', 'streamWrapper', 'readTurn', 'bitsDecode', 'nullDecode', 'berBoolDec', 'requiredSeen', 'seqOfIdx', 'anyCapture', 'explicitGuess')):
    """returns number of cases compared"""
    from pyasn1.codec.ber import encoder as benc, decoder as bdec
    from pyasn1.compat import integer
    from pyasn1.type import tag as ptag, univ
    rng = common.rng_for(seed, 'kernels')
    done = 0
    nonlocal_done = [0]

    def cmp_(op, line, impl):
        nonlocal done
        done += 1
        rep.corr_checked += 1
        ans = drv.ask(line)
        got = _ints(ans)
        if got != impl:
            rep.disagree('KERNEL:' + op, line, ans, repr(impl)[:300])

    def rnd_nat():
        r = rng.random()
        if r < 0.4:
            return rng.choice(BOUND)
        if r < 0.7:
            return rng.randrange(0, 300)
        return rng.getrandbits(rng.choice([8, 14, 15, 21, 32, 64, 200, 1100]))

    def rnd_int():
        x = rnd_nat()
        return -x if rng.random() < 0.5 else x

    # --- PyLite builtins against CPython
    for _ in range(n):
        a, b = rnd_int(), rnd_int()
        k = rng.randrange(0, 70)
        for op, val in (('and', a & b), ('or', a | b), ('shr', a >> k), ('shl', a << k), ('inv', ~a),
                        ('bitlen', a.bit_length())):
            second = k if op in ('shr', 'shl') else b
            cmp_('PYOP', 'PYOP %s %d %d' % (op, a, second), ('ok', [val]))
        d = rng.choice([1, 2, 7, 8, 128, 256])
        cmp_('PYOP', 'PYOP fdiv %d %d' % (a, d), ('ok', [a // d]))
        cmp_('PYOP', 'PYOP fmod %d %d' % (a, d), ('ok', [a % d]))
        ln = rng.randrange(0, 12)
        for op, signed in (('tobytes', True), ('tobytesu', False)):
            try:
                want = ('ok', list(a.to_bytes(ln, 'big', signed=signed)))
            except OverflowError:
                want = ('err', 'OverflowError')
            cmp_('PYOP', 'PYOP %s %d %d' % (op, a, ln), want)

    # slices with arbitrary bounds and small powers
    for _ in range(max(20, n // 10)):
        t = [rng.randrange(256) for _ in range(rng.randrange(0, 7))]
        i = rng.randrange(-9, 10)
        cmp_('PYSL', 'PYSL from %d %s' % (i, ' '.join(map(str, t))), ('ok', t[i:]))
        cmp_('PYSL', 'PYSL to %d %s' % (i, ' '.join(map(str, t))), ('ok', t[:i]))
        j = rng.randrange(-9, 10)
        cmp_('PYSL', 'PYSL2 %d %d %s' % (i, j, ' '.join(map(str, t))), ('ok', t[i:j]))
        a, b = rng.randrange(-5, 6), rng.randrange(0, 9)
        cmp_('PYOP', 'PYOP pow %d %d' % (a, b), ('ok', [a ** b]))
    # int.from_bytes
    for _ in range(max(20, n // 5)):
        t = [rng.choice([0, 0, 1, 0x7f, 0x80, 0xff, rng.randrange(256)]) for _ in range(rng.randrange(0, 12))]
        for sg in (True, False):
            cmp_('PYFROMBYTES', 'PYFROMBYTES %d %s' % (sg, ' '.join(map(str, t))), ('ok', [int.from_bytes(bytes(t), 'big', signed=sg)]))
    # fixed corners of int.to_bytes (length 0 accepts 0 and, signed, -1)
    for a in (-257, -256, -255, -129, -128, -127, -2, -1, 0, 1, 127, 128, 129, 255, 256, 257, 32767, 32768, -32768, -32769):
        for ln in (0, 1, 2, 3):
            for op, signed in (('tobytes', True), ('tobytesu', False)):
                try:
                    want = ('ok', list(a.to_bytes(ln, 'big', signed=signed)))
                except OverflowError:
                    want = ('err', 'OverflowError')
                cmp_('PYOP', 'PYOP %s %d %d' % (op, a, ln), want)

    enc = benc.AbstractItemEncoder()
    if 'encodeTag' in which:
        for _ in range(n):
            cls = rng.choice([0, 0x40, 0x80, 0xC0])
            fmt = rng.choice([0, 0x20])
            num = rnd_nat()
            ic = rng.random() < 0.5
            impl = _py(lambda: list(enc.encodeTag(ptag.Tag(cls, fmt, num), ic)))
            cmp_('encodeTag', 'KTAG %d %d %d %d' % (cls, fmt, num, 1 if ic else 0), impl)
    if 'encodeLength' in which:
        for _ in range(n):
            ln = rnd_nat()
            dm = rng.random() < 0.7
            indef = rng.random() < 0.5
            e = benc.AbstractItemEncoder()
            e.supportIndefLenMode = indef
            impl = _py(lambda: list(e.encodeLength(ln, dm)))
            cmp_('encodeLength', 'KLEN %d %d %d' % (1 if indef else 0, ln, 1 if dm else 0), impl)
    if 'toBytes' in which:
        for _ in range(n):
            v = rnd_int()
            signed = rng.random() < 0.8
            ln = rng.choice([0, 0, 0, 1, 8, 9, 16, 17, 64])
            impl = _py(lambda: list(integer.to_bytes(v, signed=signed, length=ln)))
            cmp_('toBytes', 'KTOBYTES %d %d %d' % (v, 1 if signed else 0, ln), impl)
    if 'toBytes' in which:
        # IntegerEncoder.encodeValue around it (zero as one 00 octet, or nothing for a class that asks for the compact form)
        for compact in (False, True):
            ie_ = benc.IntegerEncoder()
            ie_.supportCompactZero = compact
            for _ in range(max(10, n // 4)):
                z = rng.choice([0, 0, 1, -1, 127, 128, -128, -129, rnd_int()])
                r_ = ie_.encodeValue(univ.Integer(z), None, None)
                nonlocal_done[0] += 1
                rep.corr_checked += 1
                ans = drv.ask('KINTENC %d %d' % (compact, z)).replace('true', '1').replace('false', '0').replace('|', '')
                if _ints(ans) != ('ok', list(r_[0]) + [int(r_[1]), int(r_[2])]):
                    rep.disagree('KERNEL:intEncode', 'KINTENC %d %d' % (compact, z), ans[:200], repr(r_)[:200])
    if 'oidEncode' in which:
        oenc = benc.ObjectIdentifierEncoder()
        for _ in range(n):
            k = rng.choice([0, 1, 2, 2, 3, 5, 9])
            arcs = [rng.choice([0, 1, 2, 3]), rng.choice([0, 1, 39, 40, 47, 48, 79, 80, 200, rnd_nat()])][:k] + \
                   [rnd_nat() for _ in range(max(0, k - 2))]

            class V(object):
                def __init__(self, t):
                    self.t = tuple(t)

                def asTuple(self):
                    return self.t

                def __str__(self):
                    return '.'.join(str(x) for x in self.t)
            impl = _py(lambda: list(oenc.encodeValue(V(arcs), None, None)[0]))
            cmp_('oidEncode', 'KOIDENC ' + ' '.join(str(a) for a in arcs), impl)
    if 'oidDecode' in which:
        from pyasn1.codec.ber import decoder as bd
        for _ in range(n):
            r = rng.random()
            if r < 0.5:
                arcs = [rng.choice([0, 1, 2]), rng.randrange(0, 40)] + [rnd_nat() for _ in range(rng.randrange(0, 5))]
                try:
                    chunk = list(benc.encode(univ.ObjectIdentifier(tuple(arcs))))[2:] if len(arcs) < 12 else [43]
                    if len(chunk) > 120:
                        chunk = chunk[:120]
                except Exception:
                    chunk = [43, 6]
                if rng.random() < 0.3 and chunk:
                    chunk[rng.randrange(len(chunk))] = rng.choice([0x80, 0xff, 0x7f, 0])
            else:
                chunk = [rng.choice([0, 1, 39, 40, 79, 80, 127, 128, 129, 255, rng.randrange(256)])
                         for _ in range(rng.randrange(1, 7))]
            data = bytes([6, len(chunk)] + chunk)

            def real():
                return list(bd.decode(data, asn1Spec=univ.ObjectIdentifier())[0].asTuple())
            impl = _py(real)
            if impl[0] == 'err' and impl[1] in ('SubstrateUnderrunError', 'EndOfStreamError'):
                impl = ('err', 'SubstrateUnderrunError')
            if not chunk:
                continue
            cmp_('oidDecode', 'KOIDDEC ' + ' '.join(str(a) for a in chunk), impl)
    if 'timeCanon' in which:
        from pyasn1.codec.cer import encoder as cenc
        from pyasn1.type import useful

        class Capture(Exception):
            pass
        for _ in range(n):
            isgt = rng.random() < 0.6
            cls, ecls = (useful.GeneralizedTime, cenc.GeneralizedTimeEncoder) if isgt else (useful.UTCTime, cenc.UTCTimeEncoder)
            body = ''.join(rng.choice('0123456789') for _ in range(rng.choice([8, 10, 12, 14, 12, 14])))
            r = rng.random()
            frac = ''
            if r < 0.6:
                frac = rng.choice(['.', ',']) if rng.random() < 0.15 else '.'
                frac += ''.join(rng.choice('0001234569') for _ in range(rng.choice([0, 1, 2, 3, 3, 4, 6, 7])))
            zone = rng.choice(['Z', 'Z', 'Z', 'Z', '', '+0100', '-0530', 'Z', 'ZZ', '+01'])
            text = body + frac + zone
            if rng.random() < 0.05:
                text = rng.choice(['', 'Z', '.Z', '..Z', '0.0Z', '.', '20170801120112.Z', '2017.0801.00Z'])
            enc = ecls()
            got = {}

            def real():
                # run the source function up to the point where the octets are handed to the string encoder
                import pyasn1.codec.ber.encoder as benc_
                orig = benc_.OctetStringEncoder.encodeValue

                def stop(self_, value, asn1Spec, encodeFun, **options):
                    raise Capture(tuple(value.asNumbers()))
                benc_.OctetStringEncoder.encodeValue = stop
                try:
                    enc.encodeValue(cls(text), None, None)
                except Capture as c:
                    return list(c.args[0])
                finally:
                    benc_.OctetStringEncoder.encodeValue = orig
            try:
                impl = _py(real)
            except Exception as e:  # noqa
                impl = ('err', type(e).__name__)
            cmp_('timeCanon', 'KTIME %d %d %s' % (ecls.MIN_LENGTH, ecls.MAX_LENGTH, ' '.join(str(ord(ch)) for ch in text)), impl)
    if 'realBin' in which:
        renc = benc.RealEncoder()
        for i in range(n):
            r = rng.random()
            if r < 0.3:
                m = rng.choice([1, 2, 3, 4, 5, 7, 8, 12, 16, 24, 32, 48, 96, 127, 128, 255, 256, 257, 1 << 52, (1 << 53) - 1])
            else:
                m = (rnd_nat() or 1) << rng.choice([0, 0, 1, 2, 3, 4, 5, 8, 12])
            r = rng.random()
            if r < 0.35:
                e = rng.choice([0, -1, 1, -2, 127, 128, -128, -129, 255, 256, -256, -257, 32767, 32768, -32768, -32769,
                                2 ** 23 - 1, 2 ** 23, -2 ** 23, -2 ** 23 - 1])
            elif r < 0.9:
                e = rng.randrange(-70000, 70000)
            else:
                e = rng.choice([1, -1]) * rng.getrandbits(rng.choice([30, 64, 2033, 2040, 2047, 2100]))
            eb = rng.choice([2, 2, 8, 16])
            ms = rng.choice([1, -1])
            renc._chooseEncBase = lambda value, _r=(ms, m, eb, e): _r
            impl = _py(lambda: list(renc.encodeValue(univ.Real((1, 2, 0)), None, None)[0]))
            cmp_('realBin', 'KREAL %d %d %d %d' % (ms, m, eb, e), impl)
    if 'realDec' in which:
        import io as _io

        class Cap(Exception):
            pass
        rdec = bdec.RealPayloadDecoder()

        def capture(asn1Spec, tagSet, value, **options):
            raise Cap(value)
        rdec._createComponent = capture
        for i in range(n):
            fo = 0x80 | rng.randrange(0x80)
            r = rng.random()
            if r < 0.15:
                body = bytes(rng.randrange(256) for _ in range(rng.randrange(0, 3)))
            else:
                nn = (fo & 3) + 1
                pre = b''
                if nn == 4:
                    nn = rng.choice([0, 1, 2, 3, 4, 5, 9])
                    pre = bytes([nn if rng.random() < 0.9 else rng.randrange(256)])
                eo = bytes(rng.choice([0, 1, 0x7f, 0x80, 0xff, rng.randrange(256)]) for _ in range(nn))
                mant = bytes(rng.randrange(256) for _ in range(rng.choice([0, 1, 1, 2, 3, 8, 20])))
                body = pre + eo + mant
                if rng.random() < 0.1 and body:
                    body = body[:rng.randrange(len(body))]
            data = bytes([fo]) + body

            def real():
                try:
                    for x in rdec.valueDecoder(_io.BytesIO(data), None, tagSet=univ.Real.tagSet, length=len(data)):
                        pass
                except Cap as c:
                    v = c.args[0]
                    return [int(v[0]), int(v[1]), int(v[2])]
                return ['no-value']
            impl = _py(real)
            cmp_('realDec', 'KREALDEC %d %s' % (fo, ' '.join(str(b) for b in body)), impl)
    if 'decodeLength' in which:
        from pyasn1 import debug as _debug
        from pyasn1.codec.der import decoder as ddec
        seen = []

        def printer(msg):
            if 'value length decoded into' in msg:
                seen.append(int(msg.rsplit(' ', 1)[1]))
        for i in range(n):
            indef = rng.random() < 0.6
            r = rng.random()
            if r < 0.3:
                fo = rng.randrange(0, 128)
                enc_len = []
            elif r < 0.4:
                fo = 128
                enc_len = []
            else:
                size = rng.choice([1, 1, 2, 2, 3, 4, 7, 8, 8, 9, 20, 126, 127])
                fo = 128 + size
                lead = rng.choice([0, 0, 1, 0x7f, 0x80, 0xff, rng.randrange(256)])
                enc_len = [lead] + [rng.choice([0, 0xff, rng.randrange(256)]) for _ in range(size - 1)]
                if rng.random() < 0.5:
                    enc_len = [0] * rng.randrange(0, size) + enc_len
                    enc_len = enc_len[:size]
            cut = False
            if fo > 128 and rng.random() < 0.1:
                enc_len = enc_len[:rng.randrange(0, fo - 128)]      # the stream ends inside the length octets
                cut = True
            data = bytes([0x24 if fo == 128 else 0x04, fo] + enc_len) + (b'' if cut else bytes(40))
            dec = (bdec if indef else ddec)

            def real():
                del seen[:]
                _debug.setLogger(_debug.Debug('decoder', printer=printer))
                try:
                    try:
                        dec.decode(data)
                    except Exception:  # noqa
                        if not seen:
                            raise
                finally:
                    _debug.setLogger(None)
                return seen[:1]
            impl = _py(real)
            if impl[0] == 'err' and impl[1] == 'EndOfStreamError':
                impl = ('err', 'SubstrateUnderrunError')
            cmp_('decodeLength', 'KDECLEN %d %d %s' % (1 if indef else 0, fo, ' '.join(map(str, enc_len))), impl)
    if 'decodeTag' in which:
        import io as _io4
        import re as _re
        from pyasn1 import debug as _debug2
        for i in range(n):
            cls = rng.choice([0, 0x40, 0x80, 0xC0])
            fmt = rng.choice([0, 0x20])
            complete = True
            if rng.random() < 0.35:
                ident = [cls | fmt | rng.randrange(0, 31)]
            else:
                k = rng.choice([1, 1, 2, 2, 3, 5, 9, 10, 40])
                body = [rng.choice([0x80, 0xff, 0x81, 0x80 | rng.randrange(128)]) for _ in range(k - 1)] + [rng.randrange(128)]
                if rng.random() < 0.15:
                    body = body[:rng.randrange(0, k)]             # the stream ends inside the identifier octets
                    complete = False
                ident = [cls | fmt | 0x1F] + body
            if rng.random() < 0.03:
                ident, complete = [], False
            data = bytes(ident) + (bytes([3, 2, 1, 5, 0, 0, 0]) if complete else b'')
            stream = _io4.BytesIO(data)
            seen_t = []

            def printer_t(msg, _stream=stream, _seen=seen_t):
                m_ = _re.search(r'tag decoded into <TagSet object, tags (\d+):(\d+):(\d+)>', msg)
                if m_ and not _seen:
                    _seen.append([int(m_.group(1)), int(m_.group(2)), int(m_.group(3)), _stream.tell()])

            def real_t():
                _debug2.setLogger(_debug2.Debug('decoder', printer=printer_t))
                try:
                    try:
                        bdec.decode(stream)
                    except Exception:  # noqa
                        if not seen_t:
                            raise
                finally:
                    _debug2.setLogger(None)
                return seen_t[0] if seen_t else ['no-tag']
            impl = _py(real_t)
            if impl[0] == 'err' and impl[1] == 'EndOfStreamError':
                impl = ('err', 'SubstrateUnderrunError')
            cmp_('decodeTag', 'KDECTAG %s' % ' '.join(map(str, data)), impl)
    if 'octetChunks' in which:
        oenc = benc.OctetStringEncoder()

        def stub_fun(chunk, asn1Spec, **options):
            return bytes([0xEE, len(chunk) % 256]) + bytes(chunk)
        for i in range(n):
            ln = rng.choice([0, 1, 2, 3, 5, 7, 8, 9, 16, 17, 40, 999, 1000, 1001, 2000, 2001, 2500])
            mcs = rng.choice([0, 1, 2, 3, 4, 7, 8, 1000, 999, 1001, ln, max(ln - 1, 0), ln + 1])
            if ln > 100 and 0 < mcs < 100:
                ln = rng.randrange(0, 60)
            body = bytes(rng.randrange(256) for _ in range(ln))
            for route in ('value', 'octets+spec'):
                def real(route=route):
                    if route == 'value':
                        r = oenc.encodeValue(univ.OctetString(body), None, stub_fun, maxChunkSize=mcs)
                    else:
                        r = oenc.encodeValue(body, univ.OctetString(), stub_fun, maxChunkSize=mcs)
                    return list(r[0]) + [int(r[1]), int(r[2])]
                impl = _py(real)
                ans_line = 'KOCTCHUNK %d %s' % (mcs, ' '.join(map(str, body)))
                nonlocal_done[0] += 1
                rep.corr_checked += 1
                ans = drv.ask(ans_line).replace('true', '1').replace('false', '0').replace('|', '')
                got = _ints(ans)
                if got != impl:
                    rep.disagree('KERNEL:octetChunks', ans_line[:300], ans[:300], repr(impl)[:300])
    if 'constraintLeaves' in which:
        from pyasn1.type import constraint as pcon

        def verdict(c, *a):
            # the class's own _testValue (what __call__ runs once it has seen that the constraint has operands)
            try:
                c._testValue(*a)
            except error_.ValueConstraintError:
                return ('err', 'ValueConstraintError')
            return ('ok', [])
        from pyasn1.type import error as error_
        for i in range(n):
            lo = rng.choice([0, 1, -5, 10, rnd_int()])
            hi = lo + rng.choice([0, 1, 5, 255, rnd_nat()])
            z = rng.choice([lo - 1, lo, lo + 1, hi - 1, hi, hi + 1, rnd_int()])
            cmp_('rangeTest', 'KCRANGE %d %d %d' % (lo, hi, z), verdict(pcon.ValueRangeConstraint(lo, hi), z, None))
            slo = rng.choice([0, 1, 2, 5])
            shi = slo + rng.choice([0, 1, 3, 10])
            body = bytes(rng.randrange(256) for _ in range(rng.choice([0, 1, 2, 3, 5, 6, 8, 15, 16])))
            cmp_('sizeTest', 'KCSIZE %d %d %s' % (slo, shi, ' '.join(map(str, body))), verdict(pcon.ValueSizeConstraint(slo, shi), body, None))
            vals = [rng.choice([0, 1, -1, 5, 255, rnd_int()]) for _ in range(rng.randrange(1, 6))]
            z = rng.choice(vals + [rnd_int(), 0, 7])
            cmp_('singleValueTest', 'KCSINGLE %d %s' % (z, ' '.join(map(str, vals))), verdict(pcon.SingleValueConstraint(*vals), z, None))
            alpha = sorted(set(rng.randrange(256) if rng.random() < 0.3 else rng.choice([65, 66, 67, 97, 98]) for _ in range(rng.randrange(1, 6))))
            body = bytes(rng.choice(alpha + [rng.choice([65, 66, 67, 68, 97, 0, 255])]) for _ in range(rng.randrange(0, 7)))
            cmp_('alphabetTest', 'KCALPHA %d %s %s' % (len(alpha), ' '.join(map(str, alpha)), ' '.join(map(str, body))),
                 verdict(pcon.PermittedAlphabetConstraint(*alpha), body, None))
            # the set operations over stub operands with scripted outcomes (0 accepts, 1 raises ValueConstraintError, 2 raises
            # TypeError): the real _testValue of the real class calls them in its own order
            outcomes = [rng.choice([0, 0, 1, 1, 1, 2]) if rng.random() < 0.15 else rng.choice([0, 1]) for _ in range(rng.randrange(1, 6))]

            class Stub(pcon.AbstractConstraint):
                def __init__(self, outcome):
                    self.outcome = outcome
                    pcon.AbstractConstraint.__init__(self, 'x')

                def __call__(self, value, idx=None):
                    if self.outcome == 1:
                        raise error_.ValueConstraintError(value)
                    if self.outcome == 2:
                        raise TypeError('stub')
            for which_, cls_ in (('inter', pcon.ConstraintsIntersection), ('union', pcon.ConstraintsUnion), ('excl', pcon.ConstraintsExclusion)):
                obj = cls_(*[Stub(o_) for o_ in outcomes])
                try:
                    impl = verdict(obj, 5, None)
                except TypeError:
                    impl = ('err', 'TypeError')
                cmp_(which_ + 'Test', 'KCSET %s %s' % (which_, ' '.join(map(str, outcomes))), impl)
    if 'setOfSort' in which:
        from pyasn1.codec.cer import encoder as cenc_

        class StubSetOf(cenc_.SetOfEncoder):
            chunks = None

            def _encodeComponents(self, value, asn1Spec, encodeFun, **options):
                return list(self.chunks)
        stub = StubSetOf()
        for i in range(n):
            k = rng.choice([0, 1, 2, 2, 3, 3, 4, 5, 8])
            pool_ = [bytes(rng.choice([0, 0, 1, 2, 0x7f, 0x80, 0xff]) for _ in range(rng.choice([0, 1, 2, 3, 3, 4]))) for _ in range(4)]
            chunks = []
            for _ in range(k):
                c = rng.choice(pool_)
                r_ = rng.random()
                if r_ < 0.3:
                    c = c + bytes(rng.choice([0, 0, 0, 1]) for _ in range(rng.randrange(0, 3)))     # equal up to trailing zeros: ties of the padded keys
                elif r_ < 0.4:
                    c = bytes(rng.randrange(256) for _ in range(rng.randrange(0, 6)))
                chunks.append(c)
            stub.chunks = chunks

            def real():
                r = stub.encodeValue(None, None, None)
                return list(r[0]) + [int(r[1]), int(r[2])]
            impl = _py(real)
            line = 'KSETOF %d %s %s' % (len(chunks), ' '.join(str(len(c)) for c in chunks), ' '.join(str(b) for c in chunks for b in c))
            nonlocal_done[0] += 1
            rep.corr_checked += 1
            ans = drv.ask(line).replace('true', '1').replace('false', '0').replace('|', '')
            got = _ints(ans)
            if got != impl:
                rep.disagree('KERNEL:setOfSort', line[:300], ans[:300], repr(impl)[:300])
    if 'streamWrapper' in which:
        import io as _io5
        import os as _os5
        from pyasn1.codec import streaming as _st5

        class ScriptedRaw(object):
            def __init__(self, answer):
                self.answer = answer
                self.asked = []

            def read(self, n=-1):
                self.asked.append(n)
                return self.answer

        def raw_line(v):
            # the driver's plain format: words separated by blanks, '|' as separator
            return v.replace('none', '-1').replace('some', '-2').replace('|', ' 999999 ')
        for i in range(n):
            # io.BytesIO itself (PyLite.BytesIO transcribes it)
            buf = bytes(rng.randrange(256) for _ in range(rng.choice([0, 1, 2, 5, 8])))
            pos = rng.choice([0, 0, 1, len(buf), len(buf) + 2, rng.randrange(0, len(buf) + 1)])
            k = rng.choice([-1, 0, 1, 2, 3, 20])
            b_ = _io5.BytesIO(buf); b_.seek(pos)
            r_ = b_.read(k)
            cmp_('PYBIO', 'PYBIO read %d %d 0 %s' % (pos, k, ' '.join(map(str, buf))),
                 ('ok', list(r_) + [b_.tell()] + list(b_.getvalue())))
            for whence in (0, 1, 2):
                off = rng.choice([-20, -3, -1, 0, 1, 2, 9])
                b_ = _io5.BytesIO(buf); b_.seek(pos)
                try:
                    q = b_.seek(off, whence)
                    impl = ('ok', [q, b_.tell()] + list(b_.getvalue()))
                except ValueError:
                    impl = ('err', 'ValueError')
                cmp_('PYBIO', 'PYBIO seek %d %d %d %s' % (pos, off, whence, ' '.join(map(str, buf))), impl)
            data = bytes(rng.randrange(256) for _ in range(rng.choice([0, 0, 1, 2, 4])))
            b_ = _io5.BytesIO(buf); b_.seek(pos)
            w_ = b_.write(data)
            cmp_('PYBIO', 'PYBIO write %d %d 0 %s %s' % (pos, len(data), ' '.join(map(str, data)), ' '.join(map(str, buf))),
                 ('ok', [w_, b_.tell()] + list(b_.getvalue())))
            # the wrapper's methods on a prepared object: cache contents and position, the raw stream's answer scripted
            cache = bytes(rng.randrange(256) for _ in range(rng.choice([0, 1, 3, 6, 10])))
            cpos = rng.randrange(0, len(cache) + 1)
            want = rng.choice([-1, 0, 1, 2, 3, 5, 12])
            kind = rng.choice(['none', 'empty', 'short', 'full'])
            need = max(0, want - (len(cache) - cpos)) if want >= 0 else 4
            answer = {'none': None, 'empty': b'', 'short': bytes(rng.randrange(256) for _ in range(max(0, need - 1))),
                      'full': bytes(rng.randrange(256) for _ in range(need))}[kind]
            for which_ in ('read', 'peek'):
                w = _st5.CachingStreamWrapper(ScriptedRaw(answer))
                w._cache = _io5.BytesIO(cache)
                w._cache.seek(cpos)
                res = getattr(w, which_)(want)
                impl = ('ok', ([-1] if res is None else [-2] + list(res)) + [999999, w._cache.tell(), 999999] + list(w._cache.getvalue()))
                line = 'KWREAD %s %d %d %d %d %s %s' % (which_, want, cpos, -1 if answer is None else len(answer), len(cache),
                                                      ' '.join(map(str, cache)), ' '.join(map(str, answer or b'')))
                nonlocal_done[0] += 1
                rep.corr_checked += 1
                ans = raw_line(drv.ask(line))
                if _ints(ans) != impl:
                    rep.disagree('KERNEL:wrap' + which_.capitalize(), line[:300], ans[:300], repr(impl)[:300])
        # the markedPosition setter around the buffer size
        B_ = _io5.DEFAULT_BUFFER_SIZE
        for size, cpos in ((B_ - 1, B_ - 1), (B_, B_), (B_ + 1, B_), (B_ + 1, B_ + 1), (B_ + 40, B_ + 7), (2 * B_ + 3, B_ + 1), (10, 4), (0, 0)):
            cache = bytes((7 * j + 3) % 256 for j in range(size))
            w = _st5.CachingStreamWrapper(ScriptedRaw(b''))
            w._cache = _io5.BytesIO(cache)
            w._cache.seek(cpos)
            w._markedPosition = 2
            w.markedPosition = cpos
            impl = ('ok', [w._markedPosition, 999999, w._cache.tell(), 999999] + list(w._cache.getvalue()))
            line = 'KWMARK %d %d 2 %s' % (cpos, cpos, ' '.join(map(str, cache)))
            nonlocal_done[0] += 1
            rep.corr_checked += 1
            ans = raw_line(drv.ask(line))
            if _ints(ans) != impl:
                rep.disagree('KERNEL:wrapSetMark', line[:120], ans[:120], repr(impl)[:120])
    if 'readTurn' in which:
        import os as _os6
        from pyasn1.codec import streaming as _st6
        from pyasn1 import error as _err6

        class RawStream(object):
            """a raw stream that has received `d`, is closed or still open, hands out at most cap+1 octets per call"""
            def __init__(self, d, closed, cap, pos):
                self.d, self.closed, self.cap, self.pos = d, closed, cap, pos

            def read(self, n=-1):
                if n == 0:
                    return b''
                if self.pos >= len(self.d):
                    return b'' if self.closed else None
                r = self.d[self.pos:self.pos + min(n, self.cap + 1)]
                self.pos += len(r)
                return r

            def seek(self, off, whence=0):
                self.pos = max(0, self.pos + off) if whence == _os6.SEEK_CUR else off
                return self.pos

            def tell(self):
                return self.pos
        for i in range(n):
            d = bytes(rng.randrange(256) for _ in range(rng.choice([0, 1, 2, 5, 9, 20])))
            closed = rng.random() < 0.5
            cap = rng.choice([0, 0, 1, 2, 7, 100])
            pos = rng.randrange(0, len(d) + 1)
            want = rng.choice([0, 1, 2, 3, len(d) - pos, len(d) - pos + 1, max(0, len(d) - pos - 1), 30])
            rs = RawStream(d, closed, cap, pos)
            try:
                out = next(_st6.readFromStream(rs, want))
                if isinstance(out, _err6.SubstrateUnderrunError):
                    impl = ('ok', [-1, 999999, rs.tell()])
                else:
                    impl = ('ok', [-2] + list(out) + [999999, rs.tell()])
            except _err6.EndOfStreamError:
                impl = ('err', 'EndOfStreamError')
            # isEndOfStream on the same double (not a BytesIO: the retry-loop branch)
            rs2 = RawStream(d, closed, cap, pos)
            out2 = next(_st6.isEndOfStream(rs2))
            impl2 = ('ok', ([-1] if isinstance(out2, _err6.SubstrateUnderrunError) else [-2, int(bool(out2))]) + [999999, rs2.tell()])
            line2 = 'KEOSTURN %d %d %d %s' % (closed, cap, pos, ' '.join(map(str, d)))
            nonlocal_done[0] += 1
            rep.corr_checked += 1
            ans2 = drv.ask(line2).replace('none', '-1').replace('some', '-2').replace('|', ' 999999 ')
            if _ints(ans2) != impl2:
                rep.disagree('KERNEL:eosTurn', line2[:300], ans2[:300], repr(impl2)[:300])
            line = 'KREADTURN %d %d %d %d %s' % (closed, cap, pos, want, ' '.join(map(str, d)))
            nonlocal_done[0] += 1
            rep.corr_checked += 1
            ans = drv.ask(line).replace('none', '-1').replace('some', '-2').replace('|', ' 999999 ')
            if _ints(ans) != impl:
                rep.disagree('KERNEL:readTurn', line[:300], ans[:300], repr(impl)[:300])
    if 'cerBool' in which:
        import io as _io2
        from pyasn1.codec.cer import decoder as cdec_

        class CapB(Exception):
            pass
        cb = cdec_.BooleanPayloadDecoder()

        def capture_b(asn1Spec, tagSet, value, **options):
            raise CapB(value)
        cb._createComponent = capture_b
        for i in range(n):
            ln = rng.choice([0, 1, 1, 1, 1, 2, 3, 130])
            body = bytes(rng.choice([0, 0xff, 1, 0xfe, 0x80, rng.randrange(256)]) for _ in range(ln))

            def real():
                try:
                    for x in cb.valueDecoder(_io2.BytesIO(body), None, tagSet=univ.Boolean.tagSet, length=len(body)):
                        pass
                except CapB as c:
                    return [int(c.args[0])]
                return ['no-value']
            impl = _py(real)
            cmp_('cerBool', 'KCERBOOL %d %s' % (len(body), ' '.join(str(b) for b in body)), impl)
        # and the encoder side: cer.encoder.BooleanEncoder.encodeValue (00 / FF)
        from pyasn1.codec.cer import encoder as cenc2_
        be = cenc2_.BooleanEncoder()
        for v_ in (0, 1, 2, -1, 255, 256, rnd_int(), rnd_int()):
            r_ = be.encodeValue(univ.Boolean(v_ != 0) if v_ in (0, 1) else univ.Integer(v_), None, None)
            nonlocal_done[0] += 1
            rep.corr_checked += 1
            ans = drv.ask('KCERBOOLENC %d' % v_).replace('true', '1').replace('false', '0').replace('|', '')
            if _ints(ans) != ('ok', list(r_[0]) + [int(r_[1]), int(r_[2])]):
                rep.disagree('KERNEL:cerBoolEnc', 'KCERBOOLENC %d' % v_, ans, repr(r_))
            r2_ = benc.BooleanEncoder().encodeValue(univ.Boolean(v_ != 0) if v_ in (0, 1) else univ.Integer(v_), None, None)
            nonlocal_done[0] += 1
            rep.corr_checked += 1
            ans = drv.ask('KBERBOOLENC %d' % v_).replace('true', '1').replace('false', '0').replace('|', '')
            if _ints(ans) != ('ok', list(r2_[0]) + [int(r2_[1]), int(r2_[2])]):
                rep.disagree('KERNEL:berBoolEnc', 'KBERBOOLENC %d' % v_, ans, repr(r2_))
    if 'wrapTags' in which:
        class Stub(benc.AbstractItemEncoder):
            result = None

            def encodeValue(self, value, asn1Spec, encodeFun, **options):
                return self.result

        class Obj(object):
            pass
        for i in range(n):
            ntags = rng.choice([1, 1, 2, 2, 3, 4])
            tags = []
            for j in range(ntags):
                cls = rng.choice([0, 0x40, 0x80, 0xC0])
                fmt = 0x20 if j > 0 else rng.choice([0, 0x20])
                tags.append((cls, fmt, rng.choice([0, 1, 30, 31, 127, 128, 16384, rnd_nat()])))
            ic = rng.random() < 0.5
            io = rng.random() < 0.5
            ln = rng.choice([0, 0, 1, 2, 5, 126, 127, 128, 129, 255, 256, 300])
            sub = [rng.randrange(256) for _ in range(ln)]
            indef_ok = rng.random() < 0.7
            dm = rng.random() < 0.5
            ine = rng.random() < 0.4
            st = Stub()
            st.supportIndefLenMode = indef_ok
            st.result = (bytes(sub) if io else tuple(sub), ic, io)
            o = Obj()
            o.tagSet = ptag.TagSet((), *[ptag.Tag(*t) for t in tags])
            impl = _py(lambda: list(st.encode(o, None, None, defMode=dm, ifNotEmpty=ine)))
            cmp_('wrapTags', 'KWRAP %d %d %d %d %d %d %s %s' % (indef_ok, ine, dm, ic, io, ntags,
                                                           ' '.join('%d %d %d' % t for t in tags), ' '.join(map(str, sub))), impl)
    if 'intDecode' in which:
        import io as _io3

        class CapI(Exception):
            pass
        idec = bdec.IntegerPayloadDecoder()

        def capture_i(asn1Spec, tagSet, value, **options):
            raise CapI(value)
        idec._createComponent = capture_i
        for i in range(n):
            body = bytes(rng.choice([0, 0, 0xff, 0x7f, 0x80, 1, rng.randrange(256)]) for _ in range(rng.choice([0, 1, 1, 2, 3, 8, 9, 40])))

            def real():
                try:
                    for x in idec.valueDecoder(_io3.BytesIO(body), None, tagSet=univ.Integer.tagSet, length=len(body)):
                        pass
                except CapI as c:
                    return [int(c.args[0])]
                return ['no-value']
            cmp_('intDecode', 'KINTDEC ' + ' '.join(str(b) for b in body), _py(real))
    if 'bitsDecode' in which:
        import io as _io4

        class CapB(Exception):
            pass
        bdec_ = bdec.BitStringPayloadDecoder()

        def capture_b(asn1Spec, tagSet, value, **options):
            raise CapB(value)
        bdec_._createComponent = capture_b
        fixed_b = [b'', b'\x00', b'\x01', b'\x07', b'\x08', b'\xff', b'\x00\x00', b'\x07\x80', b'\x07\xff', b'\x08\xff', b'\x00\xff\xff',
                   b'\x04\x0f\xf0', b'\x01\x00\x00\x00', b'\x06' + b'\xaa' * 40]
        for i in range(n):
            if i < len(fixed_b):
                body = fixed_b[i]
            else:
                body = bytes([rng.choice([0, 0, 1, 3, 7, 7, 8, 9, 128, 255, rng.randrange(256)])]) + bytes(
                    rng.choice([0, 0xff, 0x80, 1, rng.randrange(256)]) for _ in range(rng.choice([0, 0, 1, 1, 2, 3, 8, 9, 40])))
                if rng.random() < 0.05:
                    body = b''

            def real_b():
                try:
                    for x in bdec_.valueDecoder(_io4.BytesIO(body), None, tagSet=univ.BitString.tagSet, length=len(body)):
                        pass
                except CapB as c:
                    return [int(c.args[0]), len(c.args[0])]
                return ['no-value']
            cmp_('bitsDecode', 'KBITSDEC ' + ' '.join(str(b) for b in body), _py(real_b))
            pad = rng.choice([0, 1, 7, 8, 9, 15, 16, 17, rng.randrange(0, 400)])
            octs = body[1:]

            def real_f():
                v = univ.BitString.fromOctetString(octs, internalFormat=True, padding=pad)
                return [int(v), len(v)]
            cmp_('bitsFromOctets', 'KBITSFROM %d %s' % (pad, ' '.join(str(b) for b in octs)), _py(real_f))
    if 'nullDecode' in which:
        import io as _io5

        class CapN(Exception):
            pass
        ndec_ = bdec.NullPayloadDecoder()

        def capture_n(asn1Spec, tagSet, value, **options):
            return 'component'
        ndec_._createComponent = capture_n
        cons_ts = ptag.TagSet((), ptag.Tag(ptag.tagClassUniversal, ptag.tagFormatConstructed, 5))
        for i in range(min(n, 60)):
            body = bytes(rng.choice([0, 0xff, rng.randrange(256)]) for _ in range(rng.choice([0, 0, 0, 1, 1, 2, 5, 40])))
            ns = rng.random() < 0.2

            def real_n():
                s_ = _io5.BytesIO(body)
                for x in ndec_.valueDecoder(s_, None, tagSet=cons_ts if ns else univ.Null.tagSet, length=len(body)):
                    pass
                return [s_.tell()]
            cmp_('nullDecode', 'KNULLDEC %d %s' % (ns, ' '.join(str(b) for b in body)), _py(real_n))
    if 'berBoolDec' in which:
        import io as _io6

        class CapBo(Exception):
            pass
        bodec = bdec.BooleanPayloadDecoder()
        # what _createComponent hands on: the INTEGER decoder's own _createComponent is where the value arrives
        orig_cc = bdec.IntegerPayloadDecoder._createComponent

        def real_bo(body):
            seen = []

            def cap(self, asn1Spec, tagSet, value, **options):
                seen.append(int(value))
                return orig_cc(self, asn1Spec, tagSet, value, **options)
            bdec.IntegerPayloadDecoder._createComponent = cap
            try:
                for x in bodec.valueDecoder(_io6.BytesIO(body), None, tagSet=univ.Boolean.tagSet, length=len(body)):
                    pass
            finally:
                bdec.IntegerPayloadDecoder._createComponent = orig_cc
            return seen[-1:]
        bodies = [bytes([k]) for k in range(256)] + [b'', b'\x00\x00', b'\x00\x01', b'\x80\x00', b'\xff\xff', b'\x00' * 9 + b'\x01']
        for body in bodies[:max(40, min(n, len(bodies)))] if n < len(bodies) else bodies:
            cmp_('berBoolDec', 'KBERBOOLDEC ' + ' '.join(str(b) for b in body), _py(real_bo, body))
    if 'requiredSeen' in which:
        from pyasn1.type import namedtype as _nt
        for i in range(min(n, 150)):
            k = rng.randrange(1, 6)
            kinds_ = [rng.choice('rod') for _ in range(k)]
            fields = []
            for j, kd in enumerate(kinds_):
                ty = univ.Integer().subtype(implicitTag=ptag.Tag(ptag.tagClassContext, ptag.tagFormatSimple, j))
                if kd == 'r':
                    fields.append(_nt.NamedType('m%d' % j, ty))
                elif kd == 'o':
                    fields.append(_nt.OptionalNamedType('m%d' % j, ty))
                else:
                    fields.append(_nt.DefaultedNamedType('m%d' % j, ty.clone(7)))
            cls = rng.choice([univ.Set, univ.Sequence])
            spec = cls(componentType=_nt.NamedTypes(*fields))
            present = [j for j in range(k) if rng.random() < 0.7]
            order = list(present)
            if cls is univ.Set:
                rng.shuffle(order)
            if cls is univ.Sequence:
                # a SEQUENCE decoder stops being positional once a mandatory member is stepped over: keep to prefixes-with-holes
                # only among OPTIONAL / DEFAULT members, and drop mandatory members only from the end
                while any(kinds_[j] == 'r' and j not in present and any(x > j for x in present) for j in range(k)):
                    present = [x for x in present if x < max(j for j in range(k) if kinds_[j] == 'r' and j not in present)]
                order = list(present)
            indef = rng.random() < 0.5
            body = b''.join(bytes([0x80 | j, 1, j + 1]) for j in order)
            head = 0x31 if cls is univ.Set else 0x30
            data = bytes([head, 0x80]) + body + b'\x00\x00' if indef else bytes([head, len(body)]) + body
            req = [j for j in range(k) if kinds_[j] == 'r']

            def real_rs():
                bdec.decode(data, asn1Spec=spec)
                return [0]
            cmp_('requiredSeen', 'KREQSEEN %d %d %s' % (indef, len(req), ' '.join(map(str, req + order))), _py(real_rs))
    if 'seqOfIdx' in which:
        # the translated index statement against the real objects: which element a read / a write with index i lands on
        for i in range(min(n, 120)):
            size = rng.randrange(0, 6)
            idx = rng.randrange(-2 * size - 3, size + 3)
            for cls in (univ.SequenceOf, univ.SetOf):
                def real_get():
                    o = cls(componentType=univ.Integer())
                    o.extend(range(100, 100 + size))
                    before = [int(x) for x in o]
                    try:
                        x = o.getComponentByPosition(idx, instantiate=False)
                    finally:
                        if [int(x_) for x_ in o] != before:
                            return ['read-changed-the-object']
                    if idx >= size:
                        return [idx]            # beyond the end: nothing there (instantiate=False), the index is kept as it is
                    return [int(x) - 100]
                cmp_('seqOfGetIdx', 'KSEQOFIDX get %d %d' % (size, idx), _py(real_get))

                def real_set():
                    o = cls(componentType=univ.Integer())
                    o.extend(range(100, 100 + size))
                    o.setComponentByPosition(idx, 7)
                    hit = []
                    for k in range(len(o)):
                        c = o.getComponentByPosition(k, instantiate=False)
                        if c is not univ.noValue and c.isValue and int(c) == 7:
                            hit.append(k)
                    return hit[:1]
                cmp_('seqOfSetIdx', 'KSEQOFIDX set %d %d' % (size, idx), _py(real_set))
    if 'anyCapture' in which:
        import io as _io7
        from pyasn1 import error as _err7

        class CapA(Exception):
            pass
        adec = bdec.AnyPayloadDecoder()

        def capture_a(asn1Spec, tagSet, value, **options):
            raise CapA(value)
        adec._createComponent = capture_a
        tagged_spec = univ.Any().subtype(implicitTag=ptag.Tag(ptag.tagClassContext, ptag.tagFormatSimple, 4))
        for i in range(min(n, 150)):
            pre = bytes(rng.randrange(256) for _ in range(rng.choice([0, 0, 1, 3, 9])))
            hdr = bytes(rng.randrange(256) for _ in range(rng.choice([2, 2, 3, 4])))
            content = bytes(rng.randrange(256) for _ in range(rng.choice([0, 1, 2, 5, 40])))
            rest = bytes(rng.randrange(256) for _ in range(rng.choice([0, 0, 2, 7])))
            unt = rng.random() < 0.6
            short = rng.random() < 0.15                       # the declared length reaches past the end of the input
            length = len(content) + (len(rest) + rng.randrange(1, 4) if short else 0)
            data = pre + hdr + content + rest
            mark = len(pre) if rng.random() < 0.8 else rng.randrange(0, len(pre) + 1)
            start = len(pre) + len(hdr)

            def real_a():
                s_ = _io7.BytesIO(data)
                s_.markedPosition = mark
                s_.seek(start)
                try:
                    for x in adec.valueDecoder(s_, None if unt else tagged_spec, tagSet=univ.OctetString.tagSet if unt else tagged_spec.tagSet,
                                               length=length):
                        if isinstance(x, _err7.SubstrateUnderrunError):
                            raise _err7.SubstrateUnderrunError('underrun')
                except CapA as c:
                    return list(bytes(c.args[0])) + [s_.tell()]
                except _err7.SubstrateUnderrunError:
                    # on a complete in-memory input readFromStream raises EndOfStreamError, a SubstrateUnderrunError: the class
                    # Py.readN stands for
                    raise _err7.SubstrateUnderrunError('underrun')
                return ['no-value']
            cmp_('anyCapture', 'KANYCAP %d %d %d %d %s' % (mark, start, unt, length, ' '.join(str(b) for b in data)), _py(real_a))
    if 'explicitGuess' in which:
        # an element under a tag no codec is registered for, decoded without a guiding type: opened as an explicit wrapper
        # (state 6, the contents decode as a nested element) or refused (the decoder's error state)
        from pyasn1.codec.ber import decoder as _bd8
        es = _bd8.SingleItemDecoder.defaultErrorState
        for cls in (0, 0x40, 0x80, 0xC0):
            for fmt in (0, 0x20):
                for num in ((13, 29) if cls == 0 else (0, 5, 30, 31, 200)):       # universal: numbers without a codec
                    ident = bytes([cls | fmt | num]) if num < 31 else bytes([cls | fmt | 31]) + (bytes([0x81, num & 0x7f]) if num > 127 else bytes([num]))
                    data = ident + b'\x02\x05\x00'

                    def real_g():
                        v, rest = bdec.decode(data)
                        return [6]
                    r = _py(real_g)
                    if r[0] == 'err' and r[1] in ('PyAsn1Error',):
                        r = ('ok', [es])
                    cmp_('explicitGuess', 'KEXPLGUESS %d %d %d' % (es, cls, fmt), r)
    rep.count('kernel_correspondence', done)
    return done + nonlocal_done[0]


def obligations(rep, needed):
    """a kernel whose source left the translated subset: the theorems about it are not re-checked against the code"""
    status = getattr(rep, 'kernel_status', {})
    rep.extra['translated_kernels'] = {k: (v.get('digest') if v.get('ok') else 'UNTRANSLATED: ' + v.get('why', ''))
                                       for k, v in status.items()}
    for k in needed:
        st = status.get(k)
        if not st or not st.get('ok'):
            rep.proof_broken.append('source of kernel %s could not be translated (%s): the theorems about it in '
                                    'Proofs/Kernels.lean are not checked against the current code'
                                    % (k, (st or {}).get('why', 'gen/py2lean.py gave no status')))
