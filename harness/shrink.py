"""Type-aware shrinking of a failing (type, value) pair (DESIGN §7): greedy, keeps the failure signature."""
from harness import gen


def _simpler_scalar(t, v):
    k = gen.base_of(t)[0]
    if k in ('int', 'enum') and v[1] not in (0, 1, -1):
        yield ('i', 0)
        yield ('i', 1)
        yield ('i', -1)
        yield ('i', v[1] // 256)
    elif k == 'bits' and v[1]:
        yield ('bits', '')
        yield ('bits', v[1][:len(v[1]) // 2])
        yield ('bits', v[1][:-1])
    elif k == 'str' and v[1]:
        yield ('s', b'')
        yield ('s', v[1][:len(v[1]) // 2])
    elif k == 'oid' and len(v[1]) > 2:
        yield ('oid', v[1][:2])
        yield ('oid', v[1][:-1])
    elif k == 'real' and len(v) == 4 and (v[1], v[3]) != (1, 0):
        yield ('real', 1, v[2], 0)
        yield ('real', v[1], v[2], 0)
        yield ('real', 1, v[2], v[3])


def candidates(t, v):
    """smaller (t', v') pairs"""
    k = t[0]
    if v[0] == 'absent':
        return
    if k == 'tag':
        yield t[4], v
        for t2, v2 in candidates(t[4], v):
            yield ('tag', t[1], t[2], t[3], t2), v2
        if t[3] > 1:
            yield ('tag', t[1], t[2], 0, t[4]), v
        return
    if k in ('seq', 'set'):
        fields, vals = t[1], v[1]
        for i, ((kind, dflt, ft), fv) in enumerate(zip(fields, vals)):
            # the member alone
            if fv[0] != 'absent':
                yield ft, fv
        for i in range(len(fields)):
            yield (k, fields[:i] + fields[i + 1:]), ('seq', vals[:i] + vals[i + 1:])
        for i, ((kind, dflt, ft), fv) in enumerate(zip(fields, vals)):
            if kind != 'r' and fv[0] != 'absent':
                yield (k, fields[:i] + [('r', None, ft)] + fields[i + 1:]), v
            if kind == 'o' and fv[0] != 'absent':
                yield t, ('seq', vals[:i] + [('absent',)] + vals[i + 1:])
            if fv[0] != 'absent':
                for ft2, fv2 in candidates(ft, fv):
                    if kind == 'd':
                        continue
                    yield (k, fields[:i] + [(kind, dflt, ft2)] + fields[i + 1:]), ('seq', vals[:i] + [fv2] + vals[i + 1:])
        return
    if k in ('seqof', 'setof'):
        for i, ev in enumerate(v[1]):
            yield t[1], ev
        for i in range(len(v[1])):
            yield t, ('of', v[1][:i] + v[1][i + 1:])
        if len(v[1]) == 1:
            for et2, ev2 in candidates(t[1], v[1][0]):
                yield (k, et2), ('of', [ev2])
        return
    if k == 'choice':
        idx = v[1]
        ft = t[1][idx][2]
        yield ft, v[2]
        if len(t[1]) > 1:
            yield ('choice', [t[1][idx]]), ('ch', 0, v[2])
        for ft2, fv2 in candidates(ft, v[2]):
            alts = list(t[1])
            alts[idx] = (alts[idx][0], alts[idx][1], ft2)
            yield ('choice', alts), ('ch', idx, fv2)
        return
    for v2 in _simpler_scalar(t, v):
        yield t, v2


def size(t, v):
    return len(gen.ty_sexp(t)) + len(gen.val_sexp(v))


def shrink(t, v, fails, budget=400):
    """fails(t, v) -> bool (same failure class). Returns the smallest failing pair found."""
    cur = (t, v)
    steps = 0
    improved = True
    while improved and steps < budget:
        improved = False
        for t2, v2 in candidates(*cur):
            steps += 1
            if steps >= budget:
                break
            try:
                if size(t2, v2) < size(*cur) and gen.wf(t2) and fails(t2, v2):
                    cur = (t2, v2)
                    improved = True
                    break
            except Exception:  # noqa
                continue
    return cur
