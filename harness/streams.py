"""Stream test doubles implementing the contract the library assumes (DESIGN §1, §5 C05):
`read()` -> None = no data yet, b'' (size != 0) = end of stream, fewer bytes than asked = short read.

K1 exact io.BytesIO (complete from the start)          -> use io.BytesIO directly
K2 BytesIO subclass with 'no data yet' polls            -> PollingBytesIO
K3 generic seekable stream that grows                   -> GrowingStream(seekable=True)
K4 non-seekable stream with the K3 contract (wrapped by CachingStreamWrapper) -> GrowingStream(seekable=False)
"""
import io
import os


class PollingBytesIO(io.BytesIO):
    """complete contents; `polls` = set of read-call indices that answer None first"""

    def __init__(self, data, polls=()):
        io.BytesIO.__init__(self, data)
        self._polls = set(polls)
        self._calls = 0

    def read(self, n=-1):
        i = self._calls
        self._calls += 1
        if i in self._polls:
            return None
        return io.BytesIO.read(self, n)


class NonBlockingBytesIO(io.BytesIO):
    """the idiom of the library's own tests (`NonBlockingStream(io.BytesIO)`): an in-memory stream that holds what
    has arrived so far, hands it out (so a read may come back short) and answers None once it has nothing more while
    its input is still open; after close_input() it answers b'' like any exhausted stream"""

    def __init__(self, data=b'', max_read=None):
        io.BytesIO.__init__(self, data)
        self._open_input = True
        self.max_read = max_read

    def close_input(self):
        self._open_input = False

    def read(self, n=-1):
        if n == 0:
            return b''
        if self.max_read is not None and (n is None or n < 0 or n > self.max_read):
            n = self.max_read
        data = io.BytesIO.read(self, n)
        if not data and self._open_input:
            return None
        return data


class GrowingStream(io.RawIOBase):
    """bytes arrive through feed(); close_input() signals end of stream.
    `max_read` bounds how many bytes one read() returns (short reads)."""

    def __init__(self, seekable=True, max_read=None, none_on_zero=False):
        io.RawIOBase.__init__(self)
        self.none_on_zero = none_on_zero      # a hand-written adapter that answers None to every read while it has nothing
        self._data = bytearray()
        self._pos = 0
        self._eof = False
        self._seekable = seekable
        self.max_read = max_read
        self.log = []

    # arrival side
    def feed(self, b):
        self._data += b

    def close_input(self):
        self._eof = True

    # stream side
    def readable(self):
        return True

    def seekable(self):
        return self._seekable

    def tell(self):
        return self._pos

    def seek(self, off, whence=os.SEEK_SET):
        if not self._seekable:
            raise io.UnsupportedOperation('seek')
        if whence == os.SEEK_SET:
            p = off
        elif whence == os.SEEK_CUR:
            p = self._pos + off
        else:
            p = len(self._data) + off
        if p < 0:
            raise ValueError('negative seek')
        self._pos = p
        return p

    def read(self, n=-1):
        if n == 0:                      # like every real raw stream: read(0) is b'', never "no data yet"
            if self.none_on_zero and len(self._data) - self._pos <= 0 and not self._eof:
                self.log.append(('read', 0, None))
                return None
            self.log.append(('read', 0, b''))
            return b''
        avail = len(self._data) - self._pos
        if avail <= 0:
            r = b'' if self._eof else None
            self.log.append(('read', n, r))
            return r
        if n is None or n < 0:
            n = avail
        if self.max_read:
            n = min(n, self.max_read)
        r = bytes(self._data[self._pos:self._pos + n])
        self._pos += len(r)
        self.log.append(('read', n, len(r)))
        return r

    def readinto(self, b):  # pragma: no cover - RawIOBase API completeness
        r = self.read(len(b))
        if r is None:
            return None
        b[:len(r)] = r
        return len(r)
