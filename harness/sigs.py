"""Structural signatures of the known-finding regions (DESIGN §2.3): a failing case is attributed to
a finding only when the case itself has the structure that triggers the defect."""
from harness import gen, wire


def no_required(t):
    b = gen.base_of(t)
    return b[0] in ('seq', 'set') and all(k != 'r' for k, _, _ in b[1])


def empty_content(t, v):
    """does (t, v) encode to a constructed element with empty contents (CER/DER view)"""
    b = gen.base_of(t)
    if b[0] in ('seqof', 'setof'):
        return len(v[1]) == 0
    if b[0] in ('seq', 'set'):
        for (kind, dflt, ft), fv in zip(b[1], v[1]):
            if fv[0] == 'absent':
                continue
            if kind == 'd' and fv == dflt:
                continue
            if kind == 'o' and empty_content(ft, fv) and not gen.tags_of(ft)[:-1]:
                continue
            if kind == 'o' and empty_content(ft, fv):
                continue
            return False
        return True
    if b[0] == 'choice':
        ft = b[1][v[1]][2]
        return empty_content(ft, v[2])
    return False


def walk(t, v, f):
    """apply f(kind, field type, field value) to every record member, recursively; any() of results"""
    b = gen.base_of(t)
    if v[0] == 'absent':
        return False
    if b[0] in ('seq', 'set'):
        for (kind, dflt, ft), fv in zip(b[1], v[1]):
            if f(kind, dflt, ft, fv):
                return True
            if fv[0] != 'absent' and walk(ft, fv, f):
                return True
        return False
    if b[0] in ('seqof', 'setof'):
        return any(walk(b[1], x, f) for x in v[1])
    if b[0] == 'choice':
        return walk(b[1][v[1]][2], v[2], f)
    return False


def e3_applies(t, v):
    """finding E3: CER/DER omit a present OPTIONAL member whose contents are empty"""
    return walk(t, v, lambda kind, dflt, ft, fv: kind == 'o' and fv[0] != 'absent' and empty_content(ft, fv))


def t4a_applies(t, v):
    """finding T4a: an absent OPTIONAL (or defaulted) member whose type is a record without
    mandatory members cannot be told from a present empty one in the library's object model"""
    return walk(t, v, lambda kind, dflt, ft, fv: kind in ('o', 'd') and fv[0] == 'absent' and no_required(ft))


def classify_roundtrip(t, v, codec_name, defMode):
    indef = codec_name == 'cer' or (codec_name == 'ber' and not defMode)
    if indef and wire.e1_applies(t, v):
        return 'E1-stray-eoo'
    if codec_name in ('cer', 'der') and e3_applies(t, v):
        return 'E3-empty-optional-omitted'
    if t4a_applies(t, v):
        return 'T4a-empty-record-ambiguity'
    return None


def has_constructed_default(t):
    """finding T11: a DEFAULT member of a constructed type (the encoder compares it with `==`, which
    raises on absent OPTIONAL members and on CHOICE alternatives that cannot compare with a CHOICE)"""
    b = gen.base_of(t)
    if b[0] in ('seq', 'set', 'choice'):
        for kind, dflt, ft in b[1]:
            if kind == 'd' and gen.base_of(ft)[0] in ('seq', 'set', 'seqof', 'setof', 'choice'):
                return True
            if has_constructed_default(ft):
                return True
        return False
    if b[0] in ('seqof', 'setof'):
        return has_constructed_default(b[1])
    return False


def contains_real(t):
    b = gen.base_of(t)
    if b[0] == 'real':
        return True
    if b[0] in ('seq', 'set', 'choice'):
        return any(contains_real(ft) for _, _, ft in b[1])
    if b[0] in ('seqof', 'setof'):
        return contains_real(b[1])
    return False


def has_real_default(t):
    """finding T12: a DEFAULT member of type REAL — or of a constructed type with a REAL somewhere inside, whose `==`
    compares the REALs — is compared with the value through CPython floats"""
    b = gen.base_of(t)
    if b[0] in ('seq', 'set', 'choice'):
        for kind, dflt, ft in b[1]:
            if kind == 'd' and contains_real(ft):
                return True
            if has_real_default(ft):
                return True
        return False
    if b[0] in ('seqof', 'setof'):
        return has_real_default(b[1])
    return False


def t11(case):
    return has_constructed_default(case.t) and t11_witness(case.t, case.v, case.fresh_obj())


def t11_witness(t, v, obj):
    """is the T11 mechanism actually at work on this value: a DEFAULT member of constructed type whose comparison with
    the declared default by pyasn1's own `==` raises?"""
    b = gen.base_of(t)
    if v[0] == 'absent' or obj is None:
        return False
    try:
        if b[0] in ('seq', 'set'):
            for i, ((kind, dflt, ft), fv) in enumerate(zip(b[1], v[1])):
                if fv[0] == 'absent':
                    continue
                comp = obj.getComponentByPosition(i, default=None, instantiate=False)
                if comp is None:
                    continue
                if kind == 'd' and gen.base_of(ft)[0] in ('seq', 'set', 'seqof', 'setof', 'choice'):
                    d = obj.componentType[i].asn1Object
                    try:
                        bool(comp == d)
                    except Exception:  # noqa
                        return True
                    # a comparison that answers "equal" for different contents is NOT part of the recorded
                    # finding (it was T14, repaired): a member wrongly left out is reported as a violation
                if t11_witness(ft, fv, comp):
                    return True
            return False
        if b[0] in ('seqof', 'setof'):
            return any(t11_witness(b[1], x, obj.getComponentByPosition(i, instantiate=False)) for i, x in enumerate(v[1]))
        if b[0] == 'choice':
            return t11_witness(b[1][v[1]][2], v[2], obj.getComponent())
    except Exception:  # noqa
        return True
    return False


def _has_default_member(t):
    """a DEFAULT member anywhere inside the type"""
    b = gen.base_of(t)
    if b[0] in ('seq', 'set', 'choice'):
        return any(kind == 'd' or _has_default_member(ft) for kind, dflt, ft in b[1])
    if b[0] in ('seqof', 'setof'):
        return _has_default_member(b[1])
    return False


def nested_default_in_constructed_default(t):
    """finding T11, second manifestation: a DEFAULT member of constructed type whose own type has a DEFAULT member
    somewhere inside - two records denoting the same value (that inner member set explicitly / left out) then compare
    unequal, and the encoder writes the outer member instead of leaving it out"""
    b = gen.base_of(t)
    if b[0] in ('seq', 'set', 'choice'):
        for kind, dflt, ft in b[1]:
            if kind == 'd' and gen.base_of(ft)[0] in ('seq', 'set', 'seqof', 'setof', 'choice') and _has_default_member(ft):
                return True
            if nested_default_in_constructed_default(ft):
                return True
        return False
    if b[0] in ('seqof', 'setof'):
        return nested_default_in_constructed_default(b[1])
    return False


def _has_optional_member(t):
    b = gen.base_of(t)
    if b[0] in ('seq', 'set'):
        return any(kind == 'o' or _has_optional_member(ft) for kind, dflt, ft in b[1])
    if b[0] == 'choice':
        return any(_has_optional_member(ft) for kind, dflt, ft in b[1])
    if b[0] in ('seqof', 'setof'):
        return _has_optional_member(b[1])
    return False


def optional_in_constructed_default(t):
    """finding T11, third manifestation: a DEFAULT member of constructed type whose own type has an OPTIONAL member
    somewhere inside - a read of that absent member leaves a placeholder in the stored components, after which the
    record no longer compares equal to its default"""
    b = gen.base_of(t)
    if b[0] in ('seq', 'set', 'choice'):
        for kind, dflt, ft in b[1]:
            if kind == 'd' and gen.base_of(ft)[0] in ('seq', 'set', 'seqof', 'setof', 'choice') and _has_optional_member(ft):
                return True
            if optional_in_constructed_default(ft):
                return True
        return False
    if b[0] in ('seqof', 'setof'):
        return optional_in_constructed_default(b[1])
    return False
