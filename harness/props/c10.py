"""C10 — whatever a decoder accepts is a well-formed, re-encodable value of the type (DESIGN §5 C10)."""
import json

from harness import common, gen, codec, engine, sexp_types, wire
from harness.props import c08
from pyasn1.type import univ, constraint, namedtype
from pyasn1 import error


def hastype(drv, t, v):
    return drv.ask('HASTYPE %s %s' % (gen.ty_sexp(t), gen.val_sexp(v))) == 'ok 1'


def has_empty_record(t):
    k = t[0]
    if k == 'tag':
        return has_empty_record(t[4])
    if k in ('seq', 'set'):
        return not t[1] or any(has_empty_record(f[2]) for f in t[1])
    if k == 'choice':
        return any(has_empty_record(f[2]) for f in t[1])
    if k in ('seqof', 'setof'):
        return has_empty_record(t[1])
    return False


def neighbours(rng, t):
    """types close to t: one member retyped / retagged / made mandatory"""
    out = []
    b = gen.base_of(t)
    if b[0] in ('seq', 'set') and b[1]:
        i = rng.randrange(len(b[1]))
        kind, dflt, ft = b[1][i]
        alt = rng.choice([('int',), ('bool',), ('str', 4), ('null',), ('seqof', ('int',))])
        f2 = list(b[1])
        f2[i] = ('r', None, alt)
        out.append((b[0], f2))
        f3 = list(b[1])
        f3[i] = ('r', None, ('tag', 'e', 'c', 9, ft))
        out.append((b[0], f3))
    if b[0] in ('seqof', 'setof'):
        out.append((b[0], rng.choice([('int',), ('bool',), ('str', 4)])))
    if b[0] == 'int':
        out.append(('enum',))
        out.append(('bool',))
    return [x for x in out if gen.wf(x)]


def check_accepted(rep, drv, t, schema, data, cdc, origin):
    r = codec.impl_decode(cdc, t, data, schema)
    rep.count('decodes')
    if r[0] == 'err':
        if r[1].startswith('leak'):
            rep.fail(r[1], 'non-library exception', {'kind': 'c10', 'type': gen.ty_sexp(t), 'bytes': data.hex(), 'codec': cdc})
        return
    replay = {'kind': 'c10', 'type': gen.ty_sexp(t), 'bytes': data.hex(), 'codec': cdc, 'origin': origin}
    rep.count('accepted')
    rep.count('accepted:' + origin)
    if r[0] == 'bad':
        rep.fail('accepted-not-a-value', 'decoder returned an incomplete object: %s' % r[1], replay)
        return
    v = r[1]
    if not hastype(drv, t, v):
        rep.fail('accepted-ill-typed', 'accepted value %s is not a complete value of the type' % gen.val_sexp(v)[:200], replay)
        return
    # the library's own encoder accepts it and the re-encoding decodes to the same abstract value
    obj = r[3]
    try:
        prob = object_problem(obj)
    except Exception as e:  # noqa
        prob = 'walking the accepted object raised %r' % (e,)
    if prob:
        rep.fail('accepted-object-malformed', 'accepted value %s: %s' % (gen.val_sexp(v)[:120], prob), replay)
        return
    try:
        again = codec.ENC['ber'].encode(obj)
    except Exception as e:  # noqa
        cls = codec.classify(e)
        from harness import sigs
        sig = 'reencode-refused:' + cls
        if sigs.has_constructed_default(t):
            sig = 'T11-default-of-constructed-type'
        elif sigs.has_real_default(t):
            sig = 'T12-real-default-through-float'
        rep.fail(sig, 'encoder refuses the accepted value: %r' % (e,), replay)
        return
    r2 = codec.impl_decode('ber', t, again, schema)
    if not (r2[0] == 'ok' and r2[2] == b'' and gen.val_equiv(t, r2[1], v)):
        from harness import sigs
        sig = 'reencode-not-a-fixpoint'
        if sigs.has_constructed_default(t):
            sig = 'T11-default-of-constructed-type'
        rep.fail(sig, 'decode(encode(result)) = %r' % (r2[:3],), dict(replay, reencoded=again.hex()))
    # model: anything the code accepts must be well typed; anything the model accepts the code accepts
    md = codec.model_decode(drv, cdc, t, data)
    rep.corr_checked += 1
    if md[0] == 'ok' and (not gen.val_equiv(t, md[1], v) or md[2] != r[2]):
        rep.disagree('DEC', replay, [gen.val_sexp(md[1]), md[2].hex()], [gen.val_sexp(v), r[2].hex()])


def object_problem(obj, depth=0):
    """what the abstract view does not show: at every level a CHOICE object holds exactly one alternative, and no constructed
    object is inconsistent with its own constraints"""
    from pyasn1.type import base as pbase_
    if depth > 12 or not isinstance(obj, pbase_.ConstructedAsn1Type):
        return None
    if isinstance(obj, univ.Choice):
        held = []
        for i in range(len(obj.componentType)):
            c = obj.getComponentByPosition(i, default=None, instantiate=False)
            if c is not None and c is not pbase_.noValue and c.isValue:
                held.append(obj.componentType[i].name)
        if len(held) != 1:
            return 'a CHOICE object holds %d alternatives: %s' % (len(held), held)
        return object_problem(obj.getComponent(), depth + 1)
    try:
        if obj.isInconsistent:
            return '%s object is inconsistent with its constraints' % type(obj).__name__
    except error.PyAsn1Error:
        pass
    if isinstance(obj, (univ.SequenceOf, univ.SetOf)):
        kids = [obj.getComponentByPosition(i, instantiate=False) for i in range(len(obj))]
    else:
        kids = [obj.getComponentByPosition(i, default=None, instantiate=False) for i in range(len(obj.componentType))] \
            if obj.componentType else list(obj.values())
    for c in kids:
        if c is not None and c is not pbase_.noValue:
            p = object_problem(c, depth + 1)
            if p:
                return p
    return None


def check_choice_wrappers(rep, drv):
    """an explicitly tagged CHOICE whose wrapper - definite or indefinite - holds more than one element: refused, or a value with
    exactly one alternative; either order of the alternatives, alone and as a record member"""
    cases = [('(tag e c 0 (choice (r int) (r bool) (r (str 4))))',
              ['a0800201050101ff0000', 'a0800101ff0201050000', 'a08004026162020105' + '0000', 'a0800201050201060000', 'a0060201050101ff',
               'a080020105' + '0000', 'a00302010500' + '00']),
             ('(seq (r int) (r (tag e c 0 (choice (r int) (r (str 4)) (r bool)))))',
              ['3080020107a0800201050402616200000000', '300d020107a0800201050101000000', '3080020107a08004026162020105' + '00000000',
               '3009020107a0040201050500'])]
    for ts, inputs in cases:
        t = sexp_types.ty_of_sexp(gen.parse_sexps(ts)[0])
        schema = gen.build(t)
        for hx in inputs:
            data = bytes.fromhex(hx)
            for cdc in ('ber', 'cer', 'der'):
                rep.case('choice-wrapper %s %s %s' % (ts, hx, cdc), nontrivial=True)
                rep.count('choice-wrappers')
                check_accepted(rep, drv, t, schema, data, cdc, 'choice-wrapper')


def structural_mutants(rng, data, limit=12):
    """near-valid inputs with one grammar rule broken: a member dropped, duplicated or moved, at any depth"""
    import copy
    try:
        root, end = wire.read_tlv(data)
    except Exception:  # noqa
        return []
    if end != len(data):
        return []
    out = []
    nodes = [n for n, d in wire.all_nodes(root) if n['cons']]
    rng.shuffle(nodes)
    for n in nodes[:4]:
        kids = n['children']
        orig = list(kids)
        for i in range(len(orig)):
            n['children'] = orig[:i] + orig[i + 1:]
            out.append(wire.emit(root))
        for i in range(len(orig)):
            n['children'] = orig[:i] + [orig[i]] + orig[i:]
            out.append(wire.emit(root))
        if len(orig) >= 2:
            j = rng.randrange(len(orig) - 1)
            n['children'] = orig[:j] + [orig[j + 1], orig[j]] + orig[j + 2:]
            out.append(wire.emit(root))
        n['children'] = orig
    rng.shuffle(out)
    return out[:limit]


# ---- constrained types (value, size constraints) with an independent evaluator

def constrained_cases():
    """(name, schema, list of (hex, should_be_admitted by the independent evaluator))"""
    out = []
    so = univ.SequenceOf(componentType=univ.Integer()).subtype(subtypeSpec=constraint.ValueSizeConstraint(1, 2))
    out.append(('SEQUENCE (SIZE 1..2) OF INTEGER', so,
                [('3000', False), ('3003020101', True), ('3006020101020102', True), ('3009020101020102020103', False),
                 ('30800000', False), ('30800201010000', True), ('3080020101020102020103 0000'.replace(' ', ''), False)]))
    st = univ.SetOf(componentType=univ.Boolean()).subtype(subtypeSpec=constraint.ValueSizeConstraint(2, 2))
    out.append(('SET (SIZE 2) OF BOOLEAN', st, [('3103010100', False), ('31060101000101ff', True), ('3109010100010100010100', False)]))
    rng_int = univ.Integer().subtype(subtypeSpec=constraint.ValueRangeConstraint(0, 10))
    out.append(('INTEGER (0..10)', rng_int, [('020100', True), ('02010a', True), ('02010b', False), ('0201ff', False)]))
    seq = univ.Sequence(componentType=namedtype.NamedTypes(namedtype.NamedType('a', rng_int),
                                                         namedtype.OptionalNamedType('b', univ.OctetString().subtype(subtypeSpec=constraint.ValueSizeConstraint(2, 4)))))
    out.append(('SEQUENCE { a INTEGER (0..10), b OCTET STRING (SIZE 2..4) OPTIONAL }', seq,
                [('3003020105', True), ('300302010b', False), ('30070201050402 6162'.replace(' ', ''), True),
                 ('3006020105040161', False), ('300a0201050405 6162636465'.replace(' ', ''), False)]))
    # string types under SIZE constraints in every wire form: primitive, constructed definite, constructed indefinite, nested
    from pyasn1.type import tag as _tag, char as _char

    def T(tag_, *parts):          # definite form
        c = b''.join(parts)
        assert len(c) < 128
        return bytes([tag_, len(c)]) + c

    def X(tag_, *parts):          # indefinite form
        return bytes([tag_, 0x80]) + b''.join(parts) + b'\x00\x00'
    H = bytes.fromhex
    b1, b9, b8 = T(3, H('0780')), T(3, H('07b380')), T(3, H('00b3'))       # 1 bit, 9 bits, 8 bits
    bs = univ.BitString().subtype(subtypeSpec=constraint.ValueSizeConstraint(1, 8))
    out.append(('BIT STRING (SIZE (1..8))', bs, [(x.hex(), a, 'not-der' if (x[0] & 0x20) else '') for x, a in [
        (b1, True), (b9, False), (b8, True), (T(0x23, b1), True), (T(0x23, b9), False), (X(0x23, b1), True), (X(0x23, b9), False),
        (X(0x23, b8, b1), False), (X(0x23, X(0x23, b9)), False), (X(0x23, X(0x23, b8)), True), (T(3, H('00')), False)]]))
    bs2 = univ.BitString().subtype(implicitTag=_tag.Tag(_tag.tagClassContext, _tag.tagFormatSimple, 2),
                                   subtypeSpec=constraint.ValueSizeConstraint(4, 12))
    n4, n3, n8 = T(3, H('04a0')), T(3, H('05a0')), T(3, H('00ff'))           # 4 bits, 3 bits, 8 bits
    out.append(('[2] IMPLICIT BIT STRING (SIZE (4..12))', bs2, [(x.hex(), a, 'not-der' if (x[0] & 0x20) else '') for x, a in [
        (T(0x82, H('04a0')), True), (T(0x82, H('05a0')), False), (X(0xa2, n4), True), (X(0xa2, n3), False),
        (X(0xa2, n8, n8), False), (T(0xa2, n4), True), (X(0xa2, n8, T(3, H('04f0'))), True)]]))
    os_ = univ.OctetString().subtype(subtypeSpec=constraint.ValueSizeConstraint(2, 4))
    o = lambda t_: T(4, t_)  # noqa
    out.append(('OCTET STRING (SIZE (2..4))', os_, [(x.hex(), a, 'not-der' if (x[0] & 0x20) else '') for x, a in [
        (o(b'ab'), True), (o(b'a'), False), (o(b'abcde'), False), (X(0x24, o(b'a'), o(b'b')), True), (X(0x24, o(b'a')), False),
        (X(0x24, o(b'abc'), o(b'de')), False), (T(0x24, o(b'a'), o(b'b')), True), (X(0x24, X(0x24, o(b'a')), o(b'bcd')), True),
        (X(0x24, X(0x24, o(b'a')), o(b'bcde')), False)]]))
    u8 = _char.UTF8String().subtype(subtypeSpec=constraint.ValueSizeConstraint(1, 2))
    out.append(('UTF8String (SIZE (1..2))', u8, [(x.hex(), a, 'not-der' if (x[0] & 0x20) else '') for x, a in [
        (T(0x0c, b'a'), True), (T(0x0c, b'abc'), False), (X(0x2c, o(b'a'), o(b'b')), True), (X(0x2c, o(b'ab'), o(b'c')), False),
        (T(0x0c), False)]]))
    rec_bs = univ.Sequence(componentType=namedtype.NamedTypes(namedtype.NamedType('flags', bs), namedtype.NamedType('n', rng_int)))
    five = T(2, b'\x05')
    out.append(('SEQUENCE { flags BIT STRING (SIZE (1..8)), n INTEGER (0..10) }', rec_bs, [(T(0x30, b1, five).hex(), True), (X(0x30, X(0x23, b9), five).hex(), False), (X(0x30, X(0x23, b1), five).hex(), True),
        (T(0x30, T(0x23, b9), five).hex(), False, 'not-der'), (T(0x30, T(0x23, b1), five).hex(), True, 'not-der')]))
    nested = univ.SequenceOf(componentType=so)
    out.append(('SEQUENCE OF SEQUENCE (SIZE 1..2) OF INTEGER', nested, [('30023000', False), ('30053003020101', True)]))
    # constraints of the record itself (WITH COMPONENTS): definite and indefinite forms alike
    for cls, t0 in ((univ.Sequence, '30'), (univ.Set, '31')):
        wc = cls(componentType=namedtype.NamedTypes(namedtype.OptionalNamedType('id', univ.Integer()),
                                                    namedtype.OptionalNamedType('name', univ.OctetString())),
                 subtypeSpec=constraint.WithComponentsConstraint(('id', constraint.ComponentPresentConstraint()),
                                                                 ('name', constraint.ComponentAbsentConstraint())))
        items = [(t0 + '00', False), (t0 + '03020105', True), (t0 + '0702010504026162', False), (t0 + '0404026162', False),
                 (t0 + '800000', False), (t0 + '800201050000', True), (t0 + '80020105040261620000', False)]
        out.append(('%s { id INTEGER OPTIONAL, name OCTET STRING OPTIONAL } (WITH COMPONENTS { id PRESENT, name ABSENT })' % cls.__name__.upper(),
                    wc, items))
        # a presence constraint on a member that is not the first one, met after a gap (an earlier OPTIONAL member absent)
        gap = cls(componentType=namedtype.NamedTypes(namedtype.OptionalNamedType('serial', univ.Integer()),
                                                     namedtype.OptionalNamedType('issuer', univ.OctetString()),
                                                     namedtype.OptionalNamedType('ext', univ.Boolean())),
                  subtypeSpec=constraint.WithComponentsConstraint(('ext', constraint.ComponentAbsentConstraint())))
        s_, i_, e_ = '020105', '04026162', '0101ff'

        def rec(*parts):
            body = ''.join(parts)
            return t0 + '%02x' % (len(body) // 2) + body
        out.append(('%s { serial INTEGER OPTIONAL, issuer OCTET STRING OPTIONAL, ext BOOLEAN OPTIONAL } (WITH COMPONENTS { ..., ext ABSENT })'
                    % cls.__name__.upper(), gap,
                    [(rec(), True), (rec(s_), True), (rec(s_, i_), True), (rec(i_), True), (rec(e_), False), (rec(s_, e_), False),
                     (rec(i_, e_), False), (rec(s_, i_, e_), False), (t0 + '80' + e_ + '0000', False), (t0 + '80' + s_ + e_ + '0000', False),
                     (t0 + '80' + i_ + '0000', True)]))
        need = cls(componentType=namedtype.NamedTypes(namedtype.OptionalNamedType('serial', univ.Integer()),
                                                      namedtype.OptionalNamedType('issuer', univ.OctetString()),
                                                      namedtype.OptionalNamedType('ext', univ.Boolean())),
                   subtypeSpec=constraint.WithComponentsConstraint(('ext', constraint.ComponentPresentConstraint())))
        out.append(('the same with ext PRESENT', need,
                    [(rec(), False), (rec(s_), False), (rec(e_), True), (rec(s_, e_), True), (rec(i_, e_), True), (rec(s_, i_, e_), True),
                     (rec(s_, i_), False)]))
        if cls is univ.Sequence:
            out.append(('SEQUENCE OF that SEQUENCE', univ.SequenceOf(componentType=wc),
                        [('3000', True), ('30023000', False), ('30053003020105', True), ('30803080000000 00'.replace(' ', ''), False),
                         ('3080308002010500000000', True)]))
    return out


def all_schema_objects(schema, out=None):
    """the schema object and every component type object below it"""
    out = [] if out is None else out
    out.append(schema)
    ct = getattr(schema, 'componentType', None)
    if ct is None:
        return out
    if isinstance(ct, namedtype.NamedTypes):
        for i in range(len(ct)):
            all_schema_objects(ct[i].asn1Object, out)
    else:
        all_schema_objects(ct, out)
    return out


def apply_history(schema, hist):
    """things a program may have done with the very objects of the schema before decoding with it; none of them may
    change what the schema admits"""
    from pyasn1.type import tag
    if hist == 'keyword-clones':
        for o in all_schema_objects(schema):
            for kw in ({'subtypeSpec': constraint.ConstraintsIntersection()},
                       {'subtypeSpec': constraint.ValueRangeConstraint(-10 ** 6, 10 ** 6)},
                       {'subtypeSpec': constraint.ValueSizeConstraint(0, 10 ** 6)},
                       {'tagSet': tag.initTagSet(tag.Tag(tag.tagClassPrivate, tag.tagFormatSimple, 77))},
                       {'sizeSpec': constraint.ValueSizeConstraint(0, 10 ** 6)}):
                try:
                    o.clone(**kw)
                except Exception:  # noqa
                    pass
    elif hist == 'encoded-bare-values-first':
        # the value-plus-schema encoders clone the schema objects they are given (chunking re-tags them)
        for o in all_schema_objects(schema):
            for cdc in ('cer', 'ber', 'der'):
                for pv in (b'x' * 1500, 5, [1, 2], [], True, '1' * 9000):
                    try:
                        if cdc == 'ber':
                            codec.ENC[cdc].encode(pv, asn1Spec=o, maxChunkSize=7)
                        else:
                            codec.ENC[cdc].encode(pv, asn1Spec=o)
                    except Exception:  # noqa
                        pass


def constrained_cases_ext():
    from pyasn1.type import tag
    out = constrained_cases()
    blob = univ.OctetString().subtype(implicitTag=tag.Tag(tag.tagClassContext, tag.tagFormatSimple, 3),
                                      subtypeSpec=constraint.ValueSizeConstraint(1, 2000))
    out.append(('[3] IMPLICIT OCTET STRING (SIZE 1..2000)', blob, [('8303616263', True), ('8300', False), ('0403616263', False)]))
    bits = univ.BitString().subtype(explicitTag=tag.Tag(tag.tagClassContext, tag.tagFormatSimple, 4),
                                    subtypeSpec=constraint.ValueSizeConstraint(1, 20000))
    out.append(('[4] EXPLICIT BIT STRING (SIZE 1..20000)', bits, [('a40403020780', True), ('a403030100', False), ('03020780', False)]))

    # values far beyond what the interpreter prints (int-to-str limit, 4300 digits): a violation is still a violation
    def der_len(n):
        if n < 128:
            return bytes([n])
        b = n.to_bytes((n.bit_length() + 7) // 8, 'big')
        return bytes([0x80 | len(b)]) + b

    def tlv(t, content):
        return (bytes([t]) + der_len(len(content)) + content).hex()
    huge = b'\x01' + b'\x00' * 2500                                   # 1 << 20000, about 6000 decimal digits
    rng_int = univ.Integer().subtype(subtypeSpec=constraint.ValueRangeConstraint(0, 255))
    out.append(('INTEGER (0..255), huge values', rng_int,
                [(tlv(2, huge), False), (tlv(2, b'\xfe' + b'\xff' * 2500), False), (tlv(2, b'\x00\xff'), True)]))
    single = univ.Integer().subtype(subtypeSpec=constraint.SingleValueConstraint(0, 1, 2))
    out.append(('INTEGER (0|1|2), huge values', single, [(tlv(2, huge), False), (tlv(2, b'\x02'), True)]))
    enum = univ.Enumerated(namedValues=univ.namedval.NamedValues(('a', 0), ('b', 1))).subtype(
        subtypeSpec=constraint.SingleValueConstraint(0, 1))
    out.append(('ENUMERATED {a(0), b(1)}, huge values', enum, [(tlv(10, huge), False), (tlv(10, b'\x01'), True)]))
    union_int = univ.Integer().subtype(subtypeSpec=constraint.ConstraintsUnion(constraint.ValueRangeConstraint(0, 5),
                                                                                constraint.SingleValueConstraint(9)))
    out.append(('INTEGER (0..5 | 9), huge values', union_int, [(tlv(2, huge), False), (tlv(2, b'\x09'), True), (tlv(2, b'\x07'), False)]))
    except_int = univ.Integer().subtype(subtypeSpec=constraint.ConstraintsExclusion(constraint.ValueRangeConstraint(0, 5)))
    out.append(('INTEGER (ALL EXCEPT 0..5), huge values', except_int, [(tlv(2, huge), True), (tlv(2, b'\x03'), False)]))
    rec_absent = univ.Sequence(componentType=namedtype.NamedTypes(
        namedtype.OptionalNamedType('id', univ.Integer()),
        namedtype.OptionalNamedType('name', univ.Integer().subtype(implicitTag=tag.Tag(tag.tagClassContext, tag.tagFormatSimple, 1))))
    ).subtype(subtypeSpec=constraint.WithComponentsConstraint(('id', constraint.ComponentPresentConstraint()),
                                                               ('name', constraint.ComponentAbsentConstraint())))
    big_name = bytes.fromhex(tlv(0x81, huge))
    out.append(('SEQUENCE WITH COMPONENTS {id PRESENT, name ABSENT}, huge values', rec_absent,
                [(tlv(0x30, bytes.fromhex('020105') + big_name), False), (tlv(0x30, bytes.fromhex('020105')), True),
                 (tlv(0x30, big_name), False)]))
    # set expressions whose operands are themselves compound: a union with an intersection / an exclusion as an alternative,
    # an exclusion of a union, an intersection of unions - alone, as a record member and as a collection element
    C_ = constraint
    a_and_b_or_c = univ.Integer().subtype(subtypeSpec=C_.ConstraintsUnion(
        C_.ConstraintsIntersection(C_.ValueRangeConstraint(0, 100), C_.ValueRangeConstraint(50, 200)), C_.SingleValueConstraint(300)))
    compound = [('INTEGER ((0..100) ^ (50..200) | 300)', a_and_b_or_c,
                 [(0, False), (49, False), (50, True), (100, True), (101, False), (150, False), (300, True), (301, False)]),
                ('INTEGER (ALL EXCEPT (0..5) | 3)', univ.Integer().subtype(subtypeSpec=C_.ConstraintsUnion(
                    C_.ConstraintsExclusion(C_.ValueRangeConstraint(0, 5)), C_.SingleValueConstraint(3))),
                 [(0, False), (3, True), (5, False), (6, True), (-1, True)]),
                ('INTEGER (ALL EXCEPT ((0..5) | (10..15)))', univ.Integer().subtype(subtypeSpec=C_.ConstraintsExclusion(
                    C_.ConstraintsUnion(C_.ValueRangeConstraint(0, 5), C_.ValueRangeConstraint(10, 15)))),
                 [(0, False), (7, True), (12, False), (16, True)]),
                ('INTEGER ((0..5 | 10..15) ^ (4..11 | 15))', univ.Integer().subtype(subtypeSpec=C_.ConstraintsIntersection(
                    C_.ConstraintsUnion(C_.ValueRangeConstraint(0, 5), C_.ValueRangeConstraint(10, 15)),
                    C_.ConstraintsUnion(C_.ValueRangeConstraint(4, 11), C_.SingleValueConstraint(15)))),
                 [(3, False), (4, True), (5, True), (7, False), (10, True), (11, True), (12, False), (15, True)])]
    for cname, cschema, probes in compound:
        def ienc(z):
            n = max(1, (z.bit_length() + 8) // 8)
            return tlv(2, z.to_bytes(n, 'big', signed=True))
        out.append((cname, cschema, [(ienc(z), adm) for z, adm in probes]))
        member = univ.Sequence(componentType=namedtype.NamedTypes(namedtype.NamedType('a', univ.Boolean()), namedtype.NamedType('n', cschema)))
        out.append(('SEQUENCE {a BOOLEAN, n %s}' % cname, member, [(tlv(0x30, bytes.fromhex('0101ff' + ienc(z))), adm) for z, adm in probes]))
        coll = univ.SequenceOf(componentType=cschema)
        ok_z = [z for z, adm in probes if adm][0]
        out.append(('SEQUENCE OF %s' % cname, coll, [(tlv(0x30, bytes.fromhex(ienc(ok_z) + ienc(z))), adm) for z, adm in probes]))
    sized_alpha = univ.OctetString().subtype(subtypeSpec=C_.ConstraintsUnion(
        C_.ConstraintsIntersection(C_.ValueSizeConstraint(1, 3), C_.PermittedAlphabetConstraint(97, 98)), C_.ValueSizeConstraint(6, 6)))
    out.append(('OCTET STRING (SIZE (1..3) ^ FROM ("ab") | SIZE (6))', sized_alpha,
                [(tlv(4, b''), False), (tlv(4, b'ab'), True), (tlv(4, b'abc'), False), (tlv(4, b'abab'), False), (tlv(4, b'xyzxyz'), True),
                 (tlv(4, b'x'), False), (tlv(4, b'aaaa'), False)]))
    # a legacy `sizeSpec` (keyword of subtype(), or class attribute) meeting a subtypeSpec that is a UNION / an EXCLUSION /
    # an intersection: the size narrows the type further, whatever the shape of what was there
    def ints(n):
        return tlv(0x30, b''.join(bytes.fromhex('0201%02x' % (j + 1)) for j in range(n)))

    def ints_set(n):
        return tlv(0x31, b''.join(bytes.fromhex('0201%02x' % (j + 1)) for j in range(n)))
    one_or_three = univ.SequenceOf(componentType=univ.Integer()).subtype(
        subtypeSpec=C_.ConstraintsUnion(C_.ValueSizeConstraint(1, 1), C_.ValueSizeConstraint(3, 3)))
    out.append(('SEQUENCE (SIZE (1 | 3)) OF INTEGER, narrowed by sizeSpec (1..2)', one_or_three.subtype(sizeSpec=C_.ValueSizeConstraint(1, 2)),
                [(ints(0), False), (ints(1), True), (ints(2), False), (ints(3), False), (ints(4), False)]))

    class LegacySized(univ.SequenceOf):
        componentType = univ.Integer()
        subtypeSpec = C_.ConstraintsUnion(C_.ValueSizeConstraint(1, 1), C_.ValueSizeConstraint(3, 3))
        sizeSpec = C_.ValueSizeConstraint(2, 3)
    out.append(('class SEQUENCE (SIZE (1 | 3)) OF INTEGER with sizeSpec (2..3)', LegacySized(),
                [(ints(1), False), (ints(2), False), (ints(3), True), (ints(4), False)]))
    two_or_four = univ.SetOf(componentType=univ.Integer()).subtype(
        subtypeSpec=C_.ConstraintsUnion(C_.ValueSizeConstraint(2, 2), C_.ValueSizeConstraint(4, 4)))
    out.append(('SET (SIZE (2 | 4)) OF INTEGER, narrowed by sizeSpec (1..3)', two_or_four.subtype(sizeSpec=C_.ValueSizeConstraint(1, 3)),
                [(ints_set(1), False), (ints_set(2), True), (ints_set(3), False), (ints_set(4), False)]))
    not_two = univ.SequenceOf(componentType=univ.Integer()).subtype(subtypeSpec=C_.ConstraintsExclusion(C_.ValueSizeConstraint(2, 2)))
    out.append(('SEQUENCE (ALL EXCEPT SIZE (2)) OF INTEGER, narrowed by sizeSpec (1..3)', not_two.subtype(sizeSpec=C_.ValueSizeConstraint(1, 3)),
                [(ints(0), False), (ints(1), True), (ints(2), False), (ints(3), True), (ints(4), False)]))
    small_bits = univ.BitString().subtype(subtypeSpec=constraint.ValueSizeConstraint(1, 64))
    out.append(('BIT STRING (SIZE 1..64), huge values', small_bits,
                [(tlv(3, b'\x00' + b'\xa5' * 2500), False), (tlv(3, b'\x00' + b'\xa5' * 8), True), (tlv(3, b'\x00' + b'\xa5' * 9), False)]))
    return out


def check_constrained(rep):
    for hist in (None, 'keyword-clones', 'encoded-bare-values-first'):
        _check_constrained(rep, hist)


def _check_constrained(rep, hist):
    for name, schema, items in constrained_cases_ext():
        apply_history(schema, hist)
        if hist:
            name = '%s after %s' % (name, hist)
        for item in items:
            hx, admitted = item[0], item[1]
            data = bytes.fromhex(hx)
            for cdc in ('ber', 'cer', 'der'):
                if cdc == 'der' and data[1:2] == b'\x80':
                    continue
                if cdc == 'der' and len(item) > 2 and item[2] == 'not-der':
                    continue        # a constructed string: DER forbids the form itself (C15), whatever the constraints say
                try:
                    obj, rest = codec.DEC[cdc].decode(data, asn1Spec=schema)
                    ok = True
                except error.PyAsn1Error:
                    ok = False
                except Exception as e:  # noqa
                    rep.fail('constrained-leak:' + type(e).__name__, '%s on %s' % (e, name), {'kind': 'constrained', 'type': name, 'bytes': hx})
                    continue
                rep.case('constrained %s %s %s' % (name, hx, cdc), nontrivial=True)
                rep.count('constrained')
                if ok and not admitted:
                    rep.fail('constraint-not-enforced-on-decode', '%s decoder accepted %s for %s, which its constraints reject' % (cdc, hx, name),
                             {'kind': 'constrained', 'type': name, 'bytes': hx, 'codec': cdc})
                if not ok and admitted:
                    rep.fail('constraint-rejects-admitted-value', '%s decoder refused %s for %s, which its constraints admit' % (cdc, hx, name),
                             {'kind': 'constrained', 'type': name, 'bytes': hx, 'codec': cdc})
                if ok:
                    try:
                        again = codec.ENC['ber'].encode(obj)
                    except error.PyAsn1Error as e:
                        rep.fail('constrained-reencode-refused', 'encoder refuses the value the decoder accepted for %s: %s' % (name, e),
                                 {'kind': 'constrained', 'type': name, 'bytes': hx, 'codec': cdc})
                        continue
                    try:
                        obj2, rest2 = codec.DEC['ber'].decode(again, asn1Spec=schema)
                        same = (obj2 == obj) and rest2 == b''
                    except Exception as e:  # noqa
                        same = False
                    if not same:
                        rep.fail('constrained-reencode-not-a-fixpoint', 'decode(encode(result)) differs or fails for %s: %s -> %s' % (name, hx, again.hex()),
                                 {'kind': 'constrained', 'type': name, 'bytes': hx, 'codec': cdc, 'reencoded': again.hex()})


def run(rep, tier, seed):
    common.prove(rep)
    rng = common.rng_for(seed, 'C10')
    drv = common.Driver()
    # the decoders' completeness gate (`requiredComponents.issubset(seenIndices)`) is translated from the source on every run
    # (GenK.requiredSeen / requiredSeenIndef); Props/C10 source_missing_mandatory_is_refused / source_complete_record_passes
    # are theorems about that translation, which is compared here with what the real decoders do on SETs and SEQUENCEs with
    # members left out
    from harness import kernels
    kernels.obligations(rep, ['requiredSeen', 'requiredSeenIndef'])
    kernels.check(rep, drv, seed, 150 if tier == 'quick' else 5000, which=('requiredSeen',))
    n = 500 if tier == 'quick' else 20000
    rep.rule = ('inputs: valid encodings of T, encodings of values of neighbouring types (one member retyped/retagged), and mutations of '
                'both, decoded with T by the three decoders; every accepted result is checked by the independent evaluator '
                '(Lean HasType via the driver), re-encoded and decoded again; constrained types (value range, SIZE on strings and on '
                'SEQUENCE OF / SET OF, nested) with a hand-written admissibility table; non-trivial = accepted and type depth>=1')
    rep.assumptions = ['constraints are exercised on a fixed family of constrained types, not generated', 'text codecs trusted']
    check_constrained(rep)
    check_choice_wrappers(rep, drv)
    # corpus: untagged CHOICEs nested directly in CHOICEs (two and three levels), also as record members and elements
    from harness import sexp_types
    for ts, vs in [("(choice (r (str 4)) (r (choice (r int) (r bool))))", "(ch 1 (ch 0 (i 5)))"),
                   ("(choice (r (str 4)) (r (choice (r int) (r bool))))", "(ch 1 (ch 1 (b 1)))"),
                   ("(choice (r null) (r (choice (r (choice (r oid) (r real))) (r int))))", "(ch 1 (ch 0 (ch 0 (oid 1 2 3))))"),
                   ("(seq (r (choice (r (str 4)) (r (choice (r int) (r bool))))) (r int))", "(seq (ch 1 (ch 1 (b 0))) (i 3))"),
                   ("(seqof (choice (r (tag e c 0 (choice (r int) (r bool)))) (r (choice (r (str 12)) (r null)))))", "(of (ch 0 (ch 0 (i 1))) (ch 1 (ch 1 null)))"),
                   # runs of OPTIONAL/DEFAULT members of untagged types (CHOICEs): an absent one followed by a present one
                   ("(seq (o (choice (r int) (r bool))) (o (choice (r (str 4)) (r null))) (d (i 1) enum))", "(seq absent (ch 0 (s 41)) (i 1))"),
                   ("(seq (o (choice (r int) (r bool))) (o (choice (r (str 4)) (r null))) (d (i 1) enum))", "(seq absent (ch 1 null) (i 7))"),
                   ("(seq (o (choice (r int) (r bool))) (o (choice (r (str 4)) (r null))) (d (i 1) enum))", "(seq (ch 1 (b 1)) absent (i 1))"),
                   ("(seq (o (choice (r int) (r bool))) (o (choice (r (str 4)) (r null))) (d (i 1) enum))", "(seq (ch 0 (i 5)) (ch 0 (s 4142)) (i 2))"),
                   ("(seq (r int) (o (choice (r (tag i c 0 int)) (r (tag i c 1 int)))) (o (choice (r (tag i c 2 int)) (r (tag i c 3 (str 4))))) (o (choice (r bool) (r null))) (r (str 12)))",
                    "(seq (i 1) absent absent (ch 1 null) (s 61))"),
                   ("(seq (r int) (o (choice (r (tag i c 0 int)) (r (tag i c 1 int)))) (o (choice (r (tag i c 2 int)) (r (tag i c 3 (str 4))))) (o (choice (r bool) (r null))) (r (str 12)))",
                    "(seq (i 1) absent (ch 1 (s 6162)) absent (s 61))"),
                   ("(set (r int) (o (choice (r (tag i c 0 int)) (r (tag i c 1 int)))) (o (choice (r (tag i c 2 int)) (r bool))))", "(seq (i 1) absent (ch 1 (b 1)))"),
                   # an untagged CHOICE whose chosen alternative is a TAGGED CHOICE, next to a member carrying the inner tag
                   ("(seq (o (choice (r (tag e c 1 (choice (r int) (r bool)))) (r (str 4)))) (o int))", "(seq (ch 0 (ch 0 (i 5))) absent)"),
                   ("(seq (o (choice (r (tag e c 1 (choice (r int) (r bool)))) (r (str 4)))) (o int))", "(seq (ch 0 (ch 1 (b 1))) (i 9))"),
                   ("(set (r (choice (r (tag e c 1 (choice (r int) (r bool)))) (r (str 4)))) (o int) (o bool))", "(seq (ch 0 (ch 0 (i 5))) absent absent)"),
                   ("(set (r (choice (r (tag e c 1 (choice (r int) (r bool)))) (r (str 4)))) (o int) (o bool))", "(seq (ch 0 (ch 1 (b 0))) (i 3) absent)"),
                   ("(choice (r (choice (r (tag e c 1 (choice (r int) (r bool)))) (r (str 4)))) (r int) (r bool))", "(ch 0 (ch 0 (ch 0 (i 5))))"),
                   ("(seqof (choice (r (choice (r (tag e a 2 (choice (r null) (r (str 12))))) (r oid))) (r null)))", "(of (ch 0 (ch 0 (ch 0 null))) (ch 1 null))")]:
        c = engine.Case(sexp_types.ty_of_sexp(gen.parse_sexps(ts)[0]), gen.val_of_sexp(gen.parse_sexps(vs)[0]))
        for mode in (('ber', True, 0), ('ber', False, 0), ('der', True, 0)):
            ie = codec.impl_encode(mode[0], c.t, c.v, mode[1], mode[2], obj=c.fresh_obj())
            if ie[0] != 'ok':
                continue
            rep.case('corpus ' + c.canon + ' ' + mode[0], nontrivial=True)
            for cdc in ('ber', 'cer', 'der'):
                check_accepted(rep, drv, c.t, c.schema, ie[1], cdc, 'corpus')
    for case in engine.gen_cases(rng, n, max_depth=3, allow_any=True):
        if not engine.representable(case) or has_empty_record(case.t):
            # a record type without members cannot be declared in the library (an empty componentType means
            # "no schema"): such positions accept anything by design, they are outside the typed universe
            continue
        inputs = []
        for mode in (rng.choice([('ber', True, 0), ('ber', False, 0), ('ber', False, 3)]), rng.choice([('cer', False, 1000), ('der', True, 0)])):
            ie = codec.impl_encode(mode[0], case.t, case.v, mode[1], mode[2], obj=case.fresh_obj())
            if ie[0] == 'ok':
                inputs.append((ie[1], 'valid'))
                for _ in range(3):
                    inputs.append((c08.mutate(rng, ie[1]), 'mutated'))
                for m in structural_mutants(rng, ie[1]):
                    inputs.append((m, 'member-dropped-duplicated-moved'))
        for t2 in neighbours(rng, case.t):
            g = gen.Gen(rng)
            try:
                v2 = g.val(t2)
                ie = codec.impl_encode('ber', t2, v2)
            except Exception:  # noqa
                continue
            if ie[0] == 'ok':
                inputs.append((ie[1], 'neighbour'))
                inputs.append((c08.mutate(rng, ie[1]), 'neighbour-mutated'))
        for data, origin in inputs:
            rep.case(gen.ty_sexp(case.t) + ' ' + data.hex(), nontrivial=gen.depth(case.t) >= 1,
                     sample={'type': gen.ty_sexp(case.t)[:200], 'bytes': data.hex()[:200], 'origin': origin})
            for cdc in ('ber', 'cer', 'der'):
                check_accepted(rep, drv, case.t, case.schema, data, cdc, origin)
    drv.close()


def replay(path):
    d = json.load(open(path))
    print(json.dumps(d, indent=1)[:6000])
    return 0
