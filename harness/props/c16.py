"""C16 — self-describing encodings decode faithfully without a schema (DESIGN §5 C16)."""
import json

from harness import common, gen, codec, engine, sexp_types, wire
from pyasn1.type import base as pbase, univ
from pyasn1.codec.der import encoder as der_encoder


def in_u0(t):
    """no IMPLICIT tags, no ANY, no untagged CHOICE-typed SET OF elements with differing tags"""
    k = t[0]
    if k == 'tag':
        return t[1] == 'e' and in_u0(t[4])
    if k == 'any':
        return False
    if k in ('seq', 'set', 'choice'):
        return all(in_u0(f[2]) for f in t[1])
    if k in ('seqof', 'setof'):
        return in_u0(t[1]) and gen.base_of(t[1])[0] != 'choice'
    return True


def has_choice(t):
    k = t[0]
    if k == 'tag':
        return has_choice(t[4])
    if k == 'choice':
        return True
    if k in ('seq', 'set'):
        return any(has_choice(f[2]) for f in t[1])
    if k in ('seqof', 'setof'):
        return has_choice(t[1])
    return False


def obj_leaves(obj):
    """scalar leaves of a decoded object in order, as (universal tag number of the scalar type, python value)"""
    if isinstance(obj, (univ.SequenceOf, univ.SetOf)):
        out = []
        for i in range(len(obj)):
            out += obj_leaves(obj.getComponentByPosition(i, instantiate=False))
        return out
    if isinstance(obj, (univ.Sequence, univ.Set)):
        out = []
        for i in range(len(obj)):
            c = obj.getComponentByPosition(i, default=None, instantiate=False)
            if c is not None:
                out += obj_leaves(c)
        return out
    # scalar
    if isinstance(obj, univ.Boolean):
        return [(1, bool(obj))]
    if isinstance(obj, univ.Integer):
        # ENUMERATED is served by the INTEGER codec: the recovered tag tells them apart
        return [(obj.tagSet[0].tagId, int(obj))]
    if isinstance(obj, univ.BitString):
        return [(3, obj.asBinary() if len(obj) else '')]
    if isinstance(obj, univ.Null):
        return [(5, None)]
    if isinstance(obj, univ.ObjectIdentifier):
        return [(6, tuple(obj))]
    if isinstance(obj, univ.Real):
        if obj.isPlusInf or obj.isMinusInf:
            return [(9, 'inf' if obj.isPlusInf else '-inf')]
        m, b, e = tuple(obj)
        from fractions import Fraction
        return [(9, Fraction(m) * Fraction(int(b)) ** int(e))]
    if isinstance(obj, univ.OctetString):
        return [(obj.tagSet[0].tagId, obj.asOctets())]
    raise ValueError('unexpected leaf %r' % (obj,))


def val_leaves(t, v, order='der', data=None):
    """leaves of the original in declaration order (SEQUENCE) — for SET / SET OF the order is the encoder's,
    so only the multiset is compared for types containing SET / SET OF"""
    b = gen.base_of(t)
    k = b[0]
    if v[0] == 'absent':
        return []
    if k in ('seq', 'set'):
        out = []
        for (kind, dflt, ft), fv in zip(b[1], v[1]):
            if kind == 'd' and fv == dflt:
                continue
            out += val_leaves(ft, fv)
        return out
    if k in ('seqof', 'setof'):
        out = []
        for x in v[1]:
            out += val_leaves(b[1], x)
        return out
    if k == 'choice':
        return val_leaves(b[1][v[1]][2], v[2])
    if k == 'bool':
        return [(1, v[1])]
    if k == 'int':
        return [(2, v[1])]
    if k == 'enum':
        return [(10, v[1])]
    if k == 'bits':
        return [(3, v[1])]
    if k == 'null':
        return [(5, None)]
    if k == 'oid':
        return [(6, tuple(v[1]))]
    if k == 'real':
        if len(v) == 2:
            return [(9, 'inf' if v[1] == 'pinf' else '-inf')]
        return [(9, gen.real_q(v))]
    if k == 'str':
        return [(b[1], v[1])]
    raise ValueError(t)


def has_set(t):
    k = t[0]
    if k == 'tag':
        return has_set(t[4])
    if k in ('set', 'setof'):
        return True
    if k in ('seq', 'choice'):
        return any(has_set(f[2]) for f in t[1])
    if k == 'seqof':
        return has_set(t[1])
    return False


def is_value_obj(o):
    return isinstance(o, pbase.Asn1Item) and o is not pbase.noValue and bool(o.isValue)


def model_leaves(drv, cdc, data):
    ans = drv.ask('DECU %s %s' % (cdc, gen.hexs(data)))
    if not ans.startswith('ok '):
        return None
    sx = gen.parse_sexps(ans[3:])
    out = []
    for item in sx[2:]:
        n = int(item[0])
        v = gen.val_of_sexp(item[1])
        if v[0] == 'b':
            out.append((n, v[1]))
        elif v[0] == 'i':
            out.append((n, v[1]))
        elif v[0] == 'bits':
            out.append((n, v[1]))
        elif v[0] == 'null':
            out.append((n, None))
        elif v[0] == 'oid':
            out.append((n, tuple(v[1])))
        elif v[0] == 'real':
            out.append((n, ('inf' if v[1] == 'pinf' else '-inf') if len(v) == 2 else gen.real_q(v)))
        elif v[0] == 's':
            out.append((n, v[1]))
    return out, sx[0], gen.unhex(sx[1])


def check_case(rep, drv, case, rng=None):
    t, v = case.t, case.v
    want = val_leaves(t, v)
    unordered = has_set(t)
    ie = codec.impl_encode('der', t, v, obj=case.fresh_obj())
    if ie[0] != 'ok':
        return
    der = ie[1]
    encs = [('der', der)]
    for mode in (('ber', True, 0), ('ber', False, 0), ('ber', False, 2), ('cer', False, 1000)):
        r = codec.impl_encode(mode[0], t, v, mode[1], mode[2], obj=case.fresh_obj())
        if r[0] == 'ok':
            # indefinite-mode encodings in the stray end-of-octets region are not valid encodings
            if (mode[0] == 'cer' or not mode[1]) and wire.e1_applies(t, v):
                continue
            encs.append((mode[0], r[1]))
    for cdc, data in encs:
        replay = dict(case.replay, kind='schemaless', codec=cdc, bytes=data.hex())
        try:
            obj, rest = codec.DEC[cdc].decode(data)
        except Exception as e:  # noqa
            rep.fail('schemaless-' + codec.classify(e), 'decoding without a type: %r' % (e,), replay)
            continue
        rep.count('decoded=' + cdc)
        if not is_value_obj(obj):
            rep.fail('schemaless-not-a-value', 'decoder returned %r' % (obj,), replay)
            continue
        if rest != b'':
            rep.fail('schemaless-remainder', 'remainder %s' % rest.hex(), replay)
            continue
        try:
            got = obj_leaves(obj)
        except Exception as e:  # noqa
            rep.fail('schemaless-leaves', 'cannot read leaves: %r' % (e,), replay)
            continue
        same = (sorted(map(repr, got)) == sorted(map(repr, want))) if unordered else (got == want)
        if not same:
            rep.fail('schemaless-leaves-differ', 'leaves %r, original %r' % (got[:6], want[:6]), replay)
        if True:
            # the guessed object re-encodes to the distinguished encoding, whichever form it was read from
            try:
                again = der_encoder.encode(obj)
            except Exception as e:  # noqa
                rep.fail('schemaless-reencode-' + codec.classify(e), 're-encoding the guessed object: %r' % (e,), replay)
                continue
            from harness import sigs
            if again != der and cdc != 'der' and sigs.e3_applies(t, v):
                rep.count('reencode-skipped-E3-region')    # the DER encoder itself drops the empty OPTIONAL member (finding E3, C02)
            elif again != der:
                rep.fail('schemaless-reencode-differs', 're-encoding %s, original %s' % (again.hex()[:120], der.hex()[:120]), replay)
            else:
                # ... and it is a value object in its own right: a copy of it (clone with its values) writes the same octets
                try:
                    copy = obj.clone(cloneValueFlag=True) if hasattr(obj, 'componentType') else obj.clone()
                    again2 = der_encoder.encode(copy)
                except Exception as e:  # noqa
                    again2 = ('err ' + codec.classify(e)).encode()
                rep.count('reencode-of-copy')
                if again2 != der:
                    rep.fail('schemaless-copy-reencode-differs', 'a value-copy of the guessed object re-encodes as %s, the object itself as %s'
                             % (again2.hex()[:120] if not again2.startswith(b'err') else again2.decode(), der.hex()[:120]), replay)
        ml = model_leaves(drv, cdc, data)
        rep.corr_checked += 1
        if ml is None:
            rep.disagree('DECU', replay, 'rejected', 'accepted')
        else:
            ms = (sorted(map(repr, ml[0])) == sorted(map(repr, got))) if unordered else (ml[0] == got)
            if not ms or ml[2] != b'':
                rep.disagree('DECU', replay, repr(ml[0][:6]), repr(got[:6]))


def run(rep, tier, seed):
    common.prove(rep)
    rng = common.rng_for(seed, 'C16')
    drv = common.Driver()
    # what the decoder makes of a tag it has no codec for is translated from the source on every run (GenK.explicitGuess = the
    # stTryAsExplicitTag block; Props/C16 source_unknown_tag_is_wrapper_or_error) and compared with the real decoder
    from harness import kernels
    kernels.obligations(rep, ['explicitGuess', 'decodeTag'])
    kernels.check(rep, drv, seed, 100 if tier == 'quick' else 3000, which=('explicitGuess', 'decodeTag'))
    n = 2500 if tier == 'quick' else 80000
    rep.rule = ('generated (type, value) in the sub-universe without IMPLICIT tags, ANY, and SET OF CHOICE; stress on empty SEQUENCE/SET/'
                'SEQUENCE OF, single-member and homogeneous containers, explicit tags around containers; DER, BER (definite, indefinite, '
                'chunked) and CER encodings decoded without a type; non-trivial = depth>=1 or tagged')
    rep.assumptions = ['leaves of types containing SET / SET OF are compared as multisets (the encoder chooses the order)']
    corpus = [("(seq)", "(seq)"), ("(seqof int)", "(of)"), ("(seq (r (seq)) (r (set)))", "(seq (seq) (seq))"),
              ("(seq (r int))", "(seq (i 5))"), ("(seq (r int) (r int))", "(seq (i 5) (i 6))"),
              ("(tag e c 0 (seqof (str 4)))", "(of (s 61) (s 62))"), ("(set (r int) (r bool))", "(seq (i 1) (b 1))")]
    for ts, vs in corpus:
        case = engine.Case(sexp_types.ty_of_sexp(gen.parse_sexps(ts)[0]), gen.val_of_sexp(gen.parse_sexps(vs)[0]))
        rep.case('corpus ' + case.canon)
        check_case(rep, drv, case)
    # wide records: more members than one decimal digit counts (dynamic field names field-0 .. field-N), members of
    # differing types so that the container is guessed as a record; bare, nested and under an explicit tag
    kinds = [('int',), ('str', 4), ('bool',), ('null',), ('oid',), ('str', 12), ('bits',), ('enum',)]
    vals = {'int': lambda i: ('i', i + 1), 'str': lambda i: ('s', bytes([97 + i % 26])), 'bool': lambda i: ('b', i % 2 == 0),
            'null': lambda i: ('null',), 'oid': lambda i: ('oid', [1, 3, i + 1]), 'bits': lambda i: ('bits', '10' * (i % 3 + 1)),
            'enum': lambda i: ('i', i)}
    for width in (9, 10, 11, 12, 23, 101, 255, 256, 257, 258, 259, 300, 1000, 1025):
        for cons in ('seq', 'set'):
            fields = [('r', None, kinds[i % len(kinds)]) for i in range(width)]
            t = (cons, fields)
            v = ('seq', [vals[f[2][0]](i) for i, f in enumerate(fields)])
            for tt, vv in ((t, v), (('tag', 'e', 'c', 3, t), v), (('seq', [('r', None, ('int',)), ('r', None, t)]), ('seq', [('i', 7), v]))):
                if cons == 'set' and not gen.wf(tt):
                    continue
                case = engine.Case(tt, vv)
                rep.case('wide %s' % case.canon[:200], nontrivial=True)
                rep.count('wide-records')
                check_case(rep, drv, case)
    # narrow records: every ordered pair (and some triples) of member kinds - primitives over the whole range of universal
    # tag numbers and container members - as SEQUENCE and SET, bare and under an explicit tag: the record / list guess has to
    # take the last member into account, and a SET wrongly taken for a SET OF is re-encoded in another order
    nk = [(('int',), ('i', 5)), (('bool',), ('b', True)), (('null',), ('null',)), (('str', 4), ('s', b'ab')), (('str', 12), ('s', b'hi')),
          (('str', 19), ('s', b'hi')), (('str', 22), ('s', b'hi')), (('str', 30), ('s', b'\x00h')), (('str', 23), ('s', b'170801120112Z')),
          (('oid',), ('oid', [1, 3, 6])), (('seq', [('r', None, ('int',))]), ('seq', [('i', 5)])),
          (('set', [('r', None, ('int',))]), ('seq', [('i', 6)])), (('seqof', ('int',)), ('of', [('i', 1), ('i', 2)]))]
    for (ka, va) in nk:
        for (kb, vb) in nk:
            if ka == kb:
                continue
            combos = [([ka, kb], [va, vb])]
            if rng.random() < 0.25:
                combos.append(([ka, ka, kb] if False else [ka, kb, nk[rng.randrange(len(nk))][0]], None))
            for kinds_, vals_ in combos:
                if vals_ is None:
                    third = [x for x in nk if x[0] == kinds_[2]][0]
                    vals_ = [va, vb, third[1]]
                for cons in ('seq', 'set'):
                    t = (cons, [('r', None, k) for k in kinds_])
                    v = ('seq', list(vals_))
                    for tt, vv in ((t, v), (('tag', 'e', 'c', 1, t), v)):
                        if not gen.wf(tt):
                            continue
                        try:
                            case = engine.Case(tt, vv)
                        except Exception:  # noqa
                            continue
                        if not engine.representable(case):
                            continue
                        rep.case('narrow %s' % case.canon[:200], nontrivial=True)
                        rep.count('narrow-records')
                        check_case(rep, drv, case)
    # members of ONE base type told apart by their EXPLICIT tags only, tag numbers of every identifier length (the order of
    # SET members by tag and the order of their encodings as octet strings disagree once the identifiers differ in length)
    nums = [0, 5, 30, 31, 127, 128, 300, 16383, 16384, 2 ** 21, 2 ** 28 + 1]
    for base, bv in ((('str', 4), ('s', b'p')), (('int',), ('i', 7)), (('seq', [('r', None, ('bool',))]), ('seq', [('b', True)]))):
        for i, na in enumerate(nums):
            for nb in nums[i + 1:]:
                for cls_a, cls_b in (('c', 'c'), ('a', 'c'), ('p', 'a')):
                    for cons in ('set', 'seq'):
                        for order in ((na, nb), (nb, na)):
                            t = (cons, [('r', None, ('tag', 'e', cls_a, order[0], base)), ('r', None, ('tag', 'e', cls_b, order[1], base))])
                            v = ('seq', [bv, bv])
                            if not gen.wf(t):
                                continue
                            case = engine.Case(t, v)
                            rep.case('same-base %s' % case.canon[:200], nontrivial=True)
                            rep.count('same-base-records')
                            check_case(rep, drv, case)
    done = 0
    for case in engine.gen_cases(rng, n * 4, max_depth=3, allow_implicit=False):
        if done >= n:
            break
        if not in_u0(case.t) or not engine.representable(case):
            continue
        done += 1
        rep.case(case.canon, nontrivial=gen.nontrivial(case.t),
                 sample={'type': gen.ty_sexp(case.t)[:300], 'value': gen.val_sexp(case.v)[:300]})
        check_case(rep, drv, case, rng)

    def check_one(c, drv, case, r):
        check_case(c, drv, case)
    engine.post_shrink(rep, drv, check_one)
    drv.close()


def replay(path):
    d = json.load(open(path))
    print(json.dumps(d, indent=1)[:6000])
    return 0
