"""C07 — decoding consumes exactly one encoding and preserves what follows (DESIGN §5 C07)."""
import io
import json

from harness import common, gen, codec, engine, sigs, streams, wire
from pyasn1 import error


def tails(rng, other):
    return [b'', b'\x00', b'\x00\x00', b'\x00\x00\x00\x00', other, bytes(rng.randrange(256) for _ in range(rng.randrange(1, 9))),
            b'\xff', b'\x30\x80', b'\x05']


def check_case(rep, drv, case, modes, rng, other=b'\x02\x01\x07'):
    for mode in modes:
        cdc, dm, ch = mode
        ie = engine.corr_encode(rep, drv, case, mode)
        if ie[0] != 'ok':
            continue
        data = ie[1]
        dec_codec = cdc
        # --- every 00 00 the encoder appends closes an indefinite header it emitted
        try:
            nodes = wire.read_all(data)
            if len(nodes) != 1 or nodes[0]['end'] != len(data):
                raise wire.WireError('%d top-level elements' % len(nodes))
            framing_ok = True
        except Exception as e:  # noqa
            framing_ok = False
            sig = 'E1-stray-eoo' if ((cdc == 'cer' or not dm) and wire.e1_applies(case.t, case.v)) else 'encoding-not-one-element'
            rep.fail(sig, 'encoder output is not exactly one element: %s' % e, dict(case.replay, kind='framing', enc=list(mode), bytes=data.hex()))
        ref = codec.impl_decode(dec_codec, case.t, data, case.schema)
        if not (ref[0] == 'ok' and ref[2] == b''):
            rep.count('skipped-not-a-valid-encoding')     # judged by C01/C02, not here
            continue
        for tail in tails(rng, other):
            idr, md = engine.corr_decode(rep, drv, case, dec_codec, data + tail)
            rep.count('tails')
            # "the value of e": what e alone decodes to
            ok = idr[0] == 'ok' and idr[2] == tail and gen.val_equiv(case.t, idr[1], ref[1])
            if not ok:
                sig = sigs.classify_roundtrip(case.t, case.v, cdc, dm)
                if sig is None and idr[0] == 'ok' and sigs.t11(case):
                    sig = 'T11-default-of-constructed-type'
                if sig is None:
                    if idr[0] != 'ok':
                        sig = 'tail-decode-' + str(idr[1] if idr[0] == 'err' else 'not-a-value')
                    elif idr[2] != tail:
                        sig = 'tail-not-preserved'
                    else:
                        sig = 'tail-value-differs'
                rep.fail(sig, 'decode(e + tail): %s' % (idr[:3],), dict(case.replay, kind='tail', enc=list(mode), bytes=data.hex(), tail=tail.hex()))
                break
            # the same one-shot call on streams holding e + tail: a seekable one (BytesIO) and one that cannot seek
            # (wrapped by the decoder): the same value, the same tail
            for sname, mk in (('bytesio', lambda: io.BytesIO(data + tail)), ('nonseekable', lambda: _closed_nonseekable(data + tail))):
                try:
                    o, rest = codec.DEC[dec_codec].decode(mk(), asn1Spec=case.schema)
                    got = ('ok', gen.abstract(case.t, o), bytes(rest))
                except Exception as e:  # noqa
                    got = ('err', codec.classify(e), b'')
                rep.count('tails-' + sname)
                if not (got[0] == 'ok' and got[2] == tail and gen.val_equiv(case.t, got[1], ref[1])):
                    if sname == 'nonseekable' and s4_first_item([(case, data)]) is not None:
                        continue        # S4 region (recorded): the wrapper renumbers inside a definite-length element
                    rep.fail('tail-not-preserved:' + sname if got[0] == 'ok' else 'tail-decode-%s:%s' % (got[1], sname),
                             'one-shot decode of a %s stream holding e + tail: %s' % (sname, str(got[:3])[:160]),
                             dict(case.replay, kind='tail-stream', enc=list(mode), bytes=data.hex(), tail=tail.hex(), stream=sname))
                    break


def _closed_nonseekable(data):
    s = streams.GrowingStream(seekable=False)
    s.feed(data)
    s.close_input()
    return s


def check_variant_tails(rep, drv, case, rng):
    """forms of BER the library's own encoder never writes (over-long lengths, indefinite / definite per level, segmented and
    nested strings with empty segments, SET order, DEFAULT spelled out - drawn by the Lean variant writer): the BER decoder
    consumes exactly that encoding and hands back what follows"""
    from harness.props import c09
    script = [rng.randrange(0, 1000) for _ in range(60)]
    data = c09.variant(drv, case, script)
    if data is None:
        return None
    ref = codec.impl_decode('ber', case.t, data, case.schema)
    if not (ref[0] == 'ok' and ref[2] == b'' and gen.val_equiv(case.t, ref[1], case.v)):
        # a valid encoding (written by the Lean variant writer from the X.690 relation) with the empty tail: the value of e
        # and nothing left is what the property promises here too (that every form decodes at all is C09's statement)
        rep.fail('tail-not-preserved:variant-empty-tail', 'decode(e) for a BER variant e = %s: %s' % (data.hex()[:160], ref[:3] if ref[0] != 'ok' else (
            'ok', gen.val_sexp(ref[1])[:120], ref[2].hex()[:40])), dict(case.replay, kind='variant-tail', bytes=data.hex(), tail='', script=script))
        return None
    for tail in tails(rng, b'\x04\x03abc'):
        r = codec.impl_decode('ber', case.t, data + tail, case.schema)
        rep.count('variant-tails')
        if not (r[0] == 'ok' and r[2] == tail and gen.val_equiv(case.t, r[1], ref[1])):
            rep.fail('tail-not-preserved:variant', 'decode(e + tail) for a BER variant e: %s' % (r[:3],),
                     dict(case.replay, kind='variant-tail', bytes=data.hex(), tail=tail.hex(), script=script))
            break
    return data


def has_definite_constructed(e):
    from harness.props import c11
    starts, complete = c11.element_starts(e)
    return (not complete) or any(inside for _, inside in starts)


def s4_first_item(cases_enc):
    """index of the first item of a back-to-back stream during which the caching wrapper of a non-seekable stream drops
    its cache (and renumbers its positions) inside a definite-length constructed element - the recorded finding S4 of
    C11 (known_findings.json): from that item on the definite-length arithmetic of the decoder is off.  None: never."""
    from harness.props import c11
    base = 0
    off = 0
    for i, (_, e) in enumerate(cases_enc):
        starts, complete = c11.element_starts(e)
        for p, inside in starts:
            if off + p - base > c11.B:
                base = off + p
                if inside:
                    return i
        off += len(e)
    return None


def s4_sig(kind, seekable, cases_enc, failed_item):
    if kind == 'growing' and not seekable:
        first = s4_first_item(cases_enc)
        if first is not None and failed_item >= first:
            return 'S4-wrapper-renumber'
    return None


ALL_KINDS = ('bytesio', 'growing', 'blocks-1', 'blocks-2', 'blocks-3', 'blocks-5', 'polling')


def check_stream(rep, cases_enc, codec_name, seekable, rng, kinds=ALL_KINDS):
    """several encodings back to back: one object per encoding, position after each = its end"""
    data = b''.join(e for _, e in cases_enc)
    polls = sorted(set(rng.randrange(0, 4 * len(cases_enc) + 8) for _ in range(rng.randrange(1, 6))))
    for kind in kinds:
        if kind == 'bytesio':
            s = io.BytesIO(data)
        elif kind == 'polling':
            # complete data, but some read() calls answer None first (a non-blocking stream)
            s = streams.PollingBytesIO(data, polls)
        elif kind.startswith('blocks-'):
            # a seekable raw stream that hands out at most k octets per read() (short reads)
            s = streams.GrowingStream(seekable=True, max_read=int(kind[7:]))
            s.feed(data)
            s.close_input()
        else:
            s = streams.GrowingStream(seekable=seekable)
            s.feed(data)
            s.close_input()
        dec = codec.DEC[codec_name]
        ends = []
        pos = 0
        for _, e in cases_enc:
            pos += len(e)
            ends.append(pos)
        got = []
        replay = {'kind': 'stream', 'codec': codec_name, 'stream': kind, 'seekable': seekable, 'polls': polls,
                  'items': [[gen.ty_sexp(c.t), gen.val_sexp(c.v), e.hex()] for c, e in cases_enc]}
        try:
            # heterogeneous types: decode item by item with the matching guiding type
            from pyasn1.codec.streaming import asSeekableStream
            sub = asSeekableStream(s) if kind != 'bytesio' else s
            for i, (c, e) in enumerate(cases_enc):
                it = iter(dec.StreamingDecoder(sub, asn1Spec=c.schema))
                obj = next(it)
                budget = len(polls) + 2
                while kind == 'polling' and isinstance(obj, error.SubstrateUnderrunError) and budget:
                    obj = next(it)          # the stream answered None: ask again
                    budget -= 1
                if isinstance(obj, error.SubstrateUnderrunError) or obj is None:
                    rep.fail('stream-underrun-on-complete-data', 'underrun although item %d is complete' % i, replay)
                    return
                a = gen.abstract(c.t, obj)
                if not gen.val_equiv(c.t, a, c.v):
                    rep.fail(s4_sig(kind, seekable, cases_enc, i) or 'stream-item-value',
                             'item %d decoded to %s' % (i, gen.val_sexp(a)[:200]), replay)
                    return
                got.append(sub.tell())
        except Exception as ex:  # noqa
            rep.fail(s4_sig(kind, seekable, cases_enc, len(got)) or 'stream-' + codec.classify(ex),
                     'stream of %d items, item %d: %r' % (len(cases_enc), len(got), ex), replay)
            return
        # CachingStreamWrapper renumbers positions when it drops its cache (known: S4); compare deltas there
        if kind == 'growing' and not seekable:
            continue
        if got != ends:
            rep.fail('stream-position', 'positions after each object %r, ends of encodings %r' % (got, ends), replay)
        rep.count('streams')


def check_run_of_equal_items(rep, c, e, k):
    """k copies of one encoding on a non-seekable stream read by ONE StreamingDecoder: k objects, all equal to the value"""
    from pyasn1.codec.streaming import asSeekableStream
    s = streams.GrowingStream(seekable=False)
    s.feed(e * k)
    s.close_input()
    replay = {'kind': 'equal-run', 'codec': 'ber', 'copies': k, 'type': gen.ty_sexp(c.t), 'value': gen.val_sexp(c.v), 'bytes': e.hex()}
    n = 0
    try:
        for obj in codec.DEC['ber'].StreamingDecoder(asSeekableStream(s), asn1Spec=c.schema):
            if isinstance(obj, error.SubstrateUnderrunError):
                rep.fail('equal-run-underrun', 'underrun after %d of %d complete copies' % (n, k), replay)
                return
            if not gen.val_equiv(c.t, gen.abstract(c.t, obj), c.v):
                rep.fail('equal-run-value', 'copy %d of %d decoded to another value' % (n, k), replay)
                return
            n += 1
    except Exception as ex:  # noqa
        rep.fail('equal-run-' + codec.classify(ex), 'copy %d of %d (%d octets each): %r' % (n, k, len(e), ex), replay)
        return
    if n != k:
        rep.fail('equal-run-count', '%d objects from %d copies' % (n, k), replay)
    rep.count('equal-runs')


def run(rep, tier, seed):
    common.prove(rep)
    rng = common.rng_for(seed, 'C07')
    drv = common.Driver()
    # the encoder's header loop (end-of-octets only after an indefinite header) and the decoder's length block are
    # translated from the source on every run (gen/py2lean.py); the translations are run against the real code here
    from harness import kernels
    kernels.obligations(rep, ['wrapTags', 'decodeLength', 'decodeTag', 'encodeTag', 'encodeLength'])
    kernels.check(rep, drv, seed, 200 if tier == 'quick' else 10000, which=('wrapTags', 'decodeLength', 'decodeTag', 'encodeTag', 'encodeLength'))
    n = 1500 if tier == "quick" else 30000
    rep.rule = ('valid encodings (all codecs/modes) x tails {empty, zeros, another encoding, garbage, partial headers}; '
                'streams of 1..5 encodings back to back on BytesIO / seekable / non-seekable streams; '
                'non-trivial = type depth>=1 or tagged')
    rep.assumptions = ['text codecs trusted']
    pool = []
    # corpus: identifiers with tag numbers >= 31 that share their leading octet, inside one value and back to back on
    # one stream (every element is framed by its own identifier, whatever was seen before)
    from harness import sexp_types
    long_tag_cases = []
    for ts, vs in [("(seq (r (tag i c 31 int)) (r (tag i c 40 int)))", "(seq (i 5) (i 7))"),
                   ("(seq (r (tag e c 31 int)) (r (tag e c 1000 (str 4))) (r (tag e c 31 bool)))", "(seq (i 5) (s 6162) (b 1))"),
                   ("(tag e c 31 int)", "(i 1)"), ("(tag e c 1000 int)", "(i 2)"), ("(tag e c 31 int)", "(i 3)"), ("(tag e c 5 int)", "(i 4)"),
                   ("(tag i a 16384 (seqof (tag i a 16385 int)))", "(of (i 1) (i 2))")]:
        c = engine.Case(sexp_types.ty_of_sexp(gen.parse_sexps(ts)[0]), gen.val_of_sexp(gen.parse_sexps(vs)[0]))
        rep.case('corpus ' + c.canon, nontrivial=True)
        check_case(rep, drv, c, [('ber', True, 0), ('der', True, 0)], rng)
        ie = codec.impl_encode('ber', c.t, c.v, True, 0, obj=c.fresh_obj())
        if ie[0] == 'ok':
            long_tag_cases.append((c, ie[1]))
    for seekable in (True, False):
        check_stream(rep, long_tag_cases, 'ber', seekable, rng)
        check_stream(rep, long_tag_cases[2:6], 'ber', seekable, rng)
    # corpus: encodings whose contents begin with (or are nothing but) an end-of-octets marker of an inner element -
    # an untagged CHOICE whose chosen alternative is an empty constructed value in the indefinite form, also nested
    from harness import sexp_types as _st
    for ts, vs in [('(tag e c 3 (str 24))', '(s 32303137303830313132303131325a)'),            # explicitly tagged time values, every mode
                   ('(tag e c 0 (str 23))', '(s 3137303830313132303131325a)'),
                   ('(seq (r (tag e c 0 (str 23))) (r int))', '(seq (s 3137303830313132303131325a) (i 5))'),
                   ('(set (r (tag e a 1 (str 24))) (r (tag i c 2 (str 24))))', '(seq (s 32303137303830313132303131325a) (s 32303137303830313132303131325a))'),
                   # elements whose identifier and length octets look like an end-of-octets marker but for the class bits:
                   # empty primitive values under tag number 0 of a non-universal class, inside indefinite-length containers
                   ('(seq (r int) (o (tag i c 0 (str 4))))', '(seq (i 5) (s -))'),
                   ('(seq (r (tag i a 0 null)) (r int))', '(seq null (i 5))'),
                   ('(seqof (tag i p 0 (str 4)))', '(of (s -) (s 61) (s -))'),
                   ('(set (r (tag i c 0 (str 12))) (r bool))', '(seq (s -) (b 1))'),
                   ('(tag e c 5 (tag i c 0 (str 4)))', '(s -)'),
                   ('(choice (r (seqof int)) (r int))', '(ch 0 (of))'),
                   ('(choice (r (tag i c 3 (seq (o int)))) (r bool))', '(ch 0 (seq absent))'),
                   ('(choice (r (setof bool)) (r (tag e c 1 (seqof int))))', '(ch 0 (of))'),
                   ('(choice (r (tag e c 1 (seqof int))) (r null))', '(ch 0 (of))'),
                   ('(seq (r (choice (r (seqof int)) (r bool))) (r int))', '(seq (ch 0 (of)) (i 5))'),
                   ('(seqof (choice (r (seqof int)) (r (str 4))))', '(of (ch 0 (of)) (ch 1 (s 6162)) (ch 0 (of (i 1))))'),
                   ('(choice (r (choice (r (set (o bool))) (r int))) (r null))', '(ch 0 (ch 0 (seq absent)))')]:
        case = engine.Case(_st.ty_of_sexp(gen.parse_sexps(ts)[0]), gen.val_of_sexp(gen.parse_sexps(vs)[0]))
        rep.case('corpus ' + case.canon, nontrivial=True)
        check_case(rep, drv, case, [('ber', True, 0), ('ber', False, 0), ('ber', False, 2), ('cer', False, 1000), ('der', True, 0)], rng)
        for mode in (('ber', False, 0), ('cer', False, 1000)):
            ie = codec.impl_encode(mode[0], case.t, case.v, mode[1], mode[2], obj=case.fresh_obj())
            if ie[0] == 'ok':
                pool.append((mode[0], case, ie[1]))
    for case in engine.gen_cases(rng, n, max_depth=2, allow_any=True):
        if not engine.representable(case):
            continue
        rep.case(case.canon, nontrivial=gen.nontrivial(case.t),
                 sample={'type': gen.ty_sexp(case.t)[:300], 'value': gen.val_sexp(case.v)[:300]})
        modes = [rng.choice([('ber', True, 0), ('ber', False, 0), ('ber', True, rng.choice([1, 2, 7])),
                             ('ber', False, rng.choice([1, 2, 7]))]),
                 rng.choice([('cer', False, 1000), ('der', True, 0)])]
        check_case(rep, drv, case, modes, rng)
        if not sigs.has_constructed_default(case.t) and not sigs.has_real_default(case.t) and 'any' not in gen.ty_sexp(case.t):
            vdata = check_variant_tails(rep, drv, case, rng)
            if vdata is not None and rng.random() < 0.5:
                pool.append(('ber', case, vdata))
        # collect valid encodings for the stream part
        for mode in modes:
            ie = codec.impl_encode(mode[0], case.t, case.v, mode[1], mode[2], obj=case.fresh_obj())
            if ie[0] == 'ok':
                d = codec.impl_decode(mode[0], case.t, ie[1], case.schema)
                if d[0] == 'ok' and d[2] == b'' and gen.val_equiv(case.t, d[1], case.v):
                    pool.append((mode[0], case, ie[1]))
    # tails much larger than any internal read size
    for size in ([2 ** 20 - 1, 2 ** 20, 2 ** 20 + 1, 3 * 2 ** 20 + 5] if tier == 'thorough' else [2 ** 20 + 1, 2 ** 21 + 3]):
        if not pool:
            break
        cdc, case, e = rng.choice(pool)
        tail = bytes(rng.randrange(256) for _ in range(64)) * (size // 64) + b'\x00' * (size % 64)
        r = codec.impl_decode(cdc, case.t, e + tail, case.schema)
        rep.case('bigtail %d %s' % (size, case.canon[:100]), nontrivial=True)
        rep.count('big-tails')
        if not (r[0] == 'ok' and r[2] == tail):
            rep.fail('big-tail-not-preserved', 'tail of %d octets: got %s' % (size, (r[0], len(r[2]) if r[0] == 'ok' else r[1])),
                     dict(case.replay, kind='bigtail', size=size, bytes=e.hex()))
    for _ in range(len(pool) // 3):
        cdc = rng.choice(['ber', 'cer', 'der'])
        items = [(c, e) for (m, c, e) in rng.sample(pool, min(len(pool), rng.randrange(1, 6))) if m == cdc or (cdc == 'ber')]
        if not items:
            continue
        check_stream(rep, items, cdc, rng.random() < 0.5, rng)

    # streams several times longer than io.DEFAULT_BUFFER_SIZE: the caching wrapper of a non-seekable stream drops its
    # cache between two objects once it has grown past that size - the octets read ahead (end-of-stream peek, the
    # end-of-octets look-ahead) must survive the drop
    for rnd in range(2 if tier == 'quick' else 8):
        if not pool:
            break
        items, total = [], 0
        while total < 3 * io.DEFAULT_BUFFER_SIZE + 1000:
            m, c, e = rng.choice(pool)
            items.append((c, e))
            total += len(e)
        rep.case('longstream %d %d' % (rnd, total), nontrivial=True)
        check_stream(rep, items, 'ber', False, rng, kinds=('growing', 'blocks-3'))
        if s4_first_item(items) is not None:
            rep.count('longstreams-in-S4-region')
        # the same with items that hold no definite-length constructed element (S4 cannot apply: every failure counts),
        # one decoder per item and one decoder for a run of equal items (so that the end-of-stream peek between two
        # objects is in play as well)
        flat = [(c, e) for (m, c, e) in pool if not has_definite_constructed(e)]
        if not flat:
            continue
        items, total = [], 0
        while total < 3 * io.DEFAULT_BUFFER_SIZE + 1000:
            c, e = rng.choice(flat)
            items.append((c, e))
            total += len(e)
        rep.case('longstream-flat %d %d' % (rnd, total), nontrivial=True)
        check_stream(rep, items, 'ber', False, rng, kinds=('growing',))
        c, e = max((rng.choice(flat) for _ in range(4)), key=lambda ce: len(ce[1]))
        check_run_of_equal_items(rep, c, e, 3 * io.DEFAULT_BUFFER_SIZE // max(1, len(e)) + 5)

    # top-level items larger than the wrapper's cache window and of equal size back to back (and sizes adding up to a later
    # item's size) on a non-seekable stream: one object per encoding, whatever the positions the wrapper reports
    for sizes in ([9000, 9000], [9000, 9000, 9000, 3], [4996, 4996, 9996, 1], [8996, 8996, 17992, 1]):
        items = []
        for j, n_ in enumerate(sizes):
            c = engine.Case(('str', 4), ('s', bytes([65 + j]) * n_))
            ie = codec.impl_encode('ber', c.t, c.v, True, 0, obj=c.fresh_obj())
            items.append((c, ie[1]))
        rep.case('equal-big-items %s' % sizes, nontrivial=True)
        check_stream(rep, items, 'ber', False, rng, kinds=('growing', 'blocks-3'))
        check_stream(rep, items, 'ber', True, rng)
        # and read by ONE decoder (what goes wrong between two objects shows on the next turn of its loop)
        check_run_of_equal_items(rep, items[0][0], items[0][1], 3)

    def check_one(c, drv, case, r):
        check_case(c, drv, case, [tuple(r.get('enc', ['ber', True, 0]))], common.rng_for(0, 'shrink'))
    engine.post_shrink(rep, drv, check_one)
    drv.close()


def replay(path):
    d = json.load(open(path))
    print(json.dumps(d, indent=1)[:6000])
    return 0
