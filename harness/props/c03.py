"""C03 — encoder output equals the X.690 encoding computed by an independent reference (DESIGN §5 C03).
The reference is lean/Asn1/X690.lean (driver op X690DER), written from the standard and sharing no code
with the encoder model; BER/CER output is read by the model's X.690 reader; CER canonical-form rules
are checked by an independent walk over the wire (harness/wire.py)."""
import json

from harness import common, gen, codec, engine, sigs, wire

CORPUS = [
    ("int", "(i -128)"), ("int", "(i -32768)"), ("int", "(i 128)"), ("int", "(i -129)"),      # E5
    ("(set (r (tag e c 0 int)) (r (tag e c 1 bool)))", "(seq (i 1) (b 1))"),                  # SET order by outermost tag
    ("(set (r (tag e c 1 bool)) (r (tag e c 0 int)))", "(seq (b 1) (i 1))"),
    ("(setof (str 4))", "(of (s 6162) (s 61) (s 616200) (s 6161))"),                          # SET OF padded order
    # CER static order: the CHOICE counts as UNIVERSAL 4 (its smallest outermost tag), between BOOLEAN and NULL
    ("(set (r bool) (r null) (r (choice (r (tag e c 5 int)) (r (str 4)))))", "(seq (b 1) null (ch 1 (s 7a7a)))"),
    ("(set (r bool) (r null) (r (choice (r (tag e c 5 int)) (r (str 4)))))", "(seq (b 1) null (ch 0 (i 5)))"),
    # DER dynamic order: an untagged CHOICE whose chosen alternative is a tagged CHOICE counts with that tag
    ("(set (r bool) (r (str 4)) (r (choice (r (tag e c 1 (choice (r int) (r (str 12))))) (r null))))", "(seq (b 1) (s 41) (ch 0 (ch 0 (i 5))))"),
    ("(seq (r int) (d (of (i 1) (i 2)) (seqof int)))", "(seq (i 5) (of))"),                   # DEFAULT of constructed type: empty value, non-empty default
    ("(seq (r int) (d (seq (i 9)) (tag i c 1 (seq (o int)))))", "(seq (i 5) (seq absent))"),
    ("(seq (r int) (d (of (i 1) (i 2)) (seqof int)))", "(seq (i 5) (of (i 1) (i 2)))"),
    # SET OF whose greatest member encoding is shorter than two others that differ only beyond its length (members under
    # different tags): the pad width is the greatest LENGTH, and padding never truncates
    ("(setof (choice (r int) (r (str 4))))", "(of (ch 0 (i 65537)) (ch 0 (i 65536)) (ch 1 (s ff)))"),
    ("(setof (choice (r int) (r (str 4))))", "(of (ch 1 (s ff)) (ch 0 (i 16777217)) (ch 0 (i 16777216)) (ch 0 (i 1)))"),
    ("(setof (seq (r int) (o int)))", "(of (seq (i 4) (i 1)) (seq (i 4) (i 0)) (seq (i 5) absent))"),
    ("(setof int)", "(of (i 1) (i 1) (i 2))"),                                                # repeated members are kept
    # SET with a DEFAULT member of constructed type: a value with empty contents that differs from the (non-empty) default
    # is written out, in DER and CER alike
    ("(set (r int) (d (of (i 1)) (seqof int)))", "(seq (i 7) (of))"),
    ("(set (r int) (d (of (i 1) (i 2)) (setof int)))", "(seq (i 7) (of))"),
    ("(set (r int) (d (seq (i 5)) (tag i c 1 (seq (d (i 33) int)))))", "(seq (i 7) (seq (i 33)))"),
    ("(set (r int) (d (of (i 1)) (seqof int)))", "(seq (i 7) (of (i 1)))"),
    ("(set (r (tag i c 0 int)) (o (tag i c 1 (seqof int))) (d (of (i 1)) (tag i c 2 (seqof int))))", "(seq (i 7) (of) (of))"),
]


def x690_der(drv, case):
    ans = drv.ask('X690DER %s %s' % (gen.ty_sexp(case.t), gen.val_sexp(case.v)))
    if ans.startswith('ok '):
        return gen.unhex(ans[3:])
    return None


def typed_walk(t, node, out):
    """pair every wire element with the type that governs it (explicit wrappers unwrapped)"""
    tags = gen.tags_of(t)
    b = gen.base_of(t)
    # explicit wrappers: all tags but the innermost one
    n = node
    for _ in range(max(len(tags) - 1, 0)):
        if not n.get('children') or len(n['children']) != 1:
            return
        n = n['children'][0]
    if b[0] == 'choice':
        if tags:
            if not n.get('children'):
                return
            n = n['children'][0]
        for kind, dflt, ft in b[1]:
            o = gen.outer_tags(ft)
            if o is not None and n['tag'] in o:
                typed_walk(ft, n, out)
                return
        return
    out.append((b, n))
    if b[0] in ('seqof', 'setof'):
        for c in n.get('children', []):
            typed_walk(b[1], c, out)
    elif b[0] == 'set':
        for c in n.get('children', []):
            for kind, dflt, ft in b[1]:
                o = gen.outer_tags(ft)
                if o is not None and c['tag'] in o:
                    typed_walk(ft, c, out)
                    break
    elif b[0] == 'seq':
        fi = 0
        for c in n.get('children', []):
            while fi < len(b[1]):
                kind, dflt, ft = b[1][fi]
                o = gen.outer_tags(ft)
                fi += 1
                if o is None or c['tag'] in o:
                    typed_walk(ft, c, out)
                    break


def padded_key(b, m):
    return b + b'\x00' * (m - len(b))


def cer_form_errors(case, data):
    """the canonical-form rules CER output must meet"""
    errs = []
    try:
        nodes = wire.read_all(data)
    except wire.WireError as e:
        return ['unreadable: %s' % e]
    if len(nodes) != 1:
        return ['%d top-level elements' % len(nodes)]

    typed = []
    typed_walk(case.t, nodes[0], typed)
    opaque = set(id(n) for b, n in typed if b[0] == 'any')

    def rec(n):
        if id(n) in opaque:
            return          # the contents of an ANY are somebody else's encoding
        if n['cons'] and not n['indef']:
            errs.append('constructed element with definite length at %d' % n['start'])
        if not n['cons'] and n['indef']:
            errs.append('primitive element with indefinite length')
        for c in n.get('children', []):
            rec(c)
    rec(nodes[0])
    for b, n in typed:
        if b[0] == 'bool' and n.get('content') not in (b'\x00', b'\xff'):
            errs.append('BOOLEAN contents %r' % n.get('content'))
        if b[0] == 'str' or b[0] == 'bits':
            if not n['cons']:
                if len(n['content']) > 1000:
                    errs.append('primitive string of %d octets' % len(n['content']))
            else:
                sizes = [len(c.get('content', b'')) for c in n['children']]
                if any(c['cons'] for c in n['children']):
                    errs.append('nested constructed string segment')
                if any(s != 1000 for s in sizes[:-1]) or not sizes or not (0 < sizes[-1] <= 1000):
                    errs.append('string segments of sizes %r' % sizes)
        if b[0] == 'set':
            # X.690 9.3: members in the order of their tags (X.680 8.6: class, then number); an untagged CHOICE counts
            # with the smallest of the tags its alternatives may go out under, whichever alternative is chosen
            rank = {'u': 0, 'a': 1, 'c': 2, 'p': 3}
            keys = []
            for c in n.get('children', []):
                for kind, dflt, ft in b[1]:
                    o = gen.outer_tags(ft)
                    if o is not None and c['tag'] in o:
                        keys.append(min((rank[cl], num) for cl, num in o))
                        break
                else:
                    keys = None
                    break
            if keys is not None and keys != sorted(keys):
                errs.append('SET members not in the static order of their tags: %r' % (keys,))
        if b[0] == 'setof':
            encs = [data[c['start']:c['end']] for c in n.get('children', [])]
            if encs:
                m = max(len(e) for e in encs)
                keys = [padded_key(e, m) for e in encs]
                if keys != sorted(keys):
                    errs.append('SET OF members not in padded-octet order')
    return errs


def check_case(rep, drv, case, rng=None):
    # ---- DER byte identity with the independent reference
    ie = engine.corr_encode(rep, drv, case, ('der', True, 0))
    ref = x690_der(drv, case)
    if ie[0] != 'ok':
        sig = engine.encode_refusal_region(case, ie) or ('encode-' + str(ie[1]))
        rep.fail(sig, 'DER encoder refused/crashed on a valid value: %s' % (ie[1],), dict(case.replay, kind='der'))
    elif ref is None:
        rep.count('reference-undefined')
    elif ie[1] != ref:
        sig = None
        if sigs.e3_applies(case.t, case.v):
            sig = 'E3-empty-optional-omitted'
        elif sigs.t11(case):
            sig = 'T11-default-of-constructed-type'
        rep.fail(sig or 'der-differs-from-x690', 'DER %s, X.690 reference %s' % (ie[1].hex()[:160], ref.hex()[:160]),
                 dict(case.replay, kind='der', impl=ie[1].hex(), reference=ref.hex()))
    rep.count('der-compared')
    # ---- the other way of handing the value to the encoder: its plain Python form plus the type
    if ie[0] == 'ok' and ref is not None and ie[1] == ref and not sigs._has_default_member(case.t):
        # (DEFAULT members given as Python values are compared with their defaults differently: C17's subject)
        try:
            from pyasn1.codec.native import encoder as native_encoder
            tree = native_encoder.encode(case.fresh_obj())
            viaspec = bytes(codec.ENC['der'].encode(tree, asn1Spec=case.schema))
        except Exception:  # noqa
            viaspec = None              # what the native form can express is C17's matter
        if viaspec is not None:
            rep.count('der-compared-python-value')
            if viaspec != ref and not sigs.t11(case) and not sigs.has_real_default(case.t) and not sigs.contains_real(case.t):
                rep.fail('der-of-python-value-differs-from-x690', 'DER of the Python value with asn1Spec %s, X.690 reference %s'
                         % (viaspec.hex()[:160], ref.hex()[:160]), dict(case.replay, kind='der-python-value', impl=viaspec.hex(), reference=ref.hex()))
    # ---- BER and CER output denotes the value (independent reader = the model's X.690 reader)
    modes = [('ber', True, 0), ('ber', False, 0), ('cer', False, 1000)]
    if rng is not None:
        modes.append(('ber', rng.random() < 0.5, rng.choice([1, 2, 3, 7])))
    for mode in modes:
        cdc, dm, ch = mode
        ie = engine.corr_encode(rep, drv, case, mode)
        if ie[0] != 'ok':
            continue
        md = codec.model_decode(drv, 'ber', case.t, ie[1])
        ok = md[0] == 'ok' and md[2] == b'' and gen.val_equiv(case.t, md[1], case.v)
        if not ok:
            sig = sigs.classify_roundtrip(case.t, case.v, cdc, dm)
            if sig is None and md[0] == 'ok' and sigs.t11(case):
                sig = 'T11-default-of-constructed-type'
            rep.fail(sig or 'output-does-not-denote-value',
                     '%s output read by the X.690 reader: %r' % (cdc, (md[0], gen.val_sexp(md[1])[:160]) if md[0] == 'ok' else md),
                     dict(case.replay, kind='denote', enc=list(mode), bytes=ie[1].hex()))
        if cdc == 'cer':
            errs = cer_form_errors(case, ie[1])
            if errs:
                sig = 'E1-stray-eoo' if wire.e1_applies(case.t, case.v) else 'cer-form'
                rep.fail(sig, 'CER canonical form: ' + '; '.join(errs[:3]), dict(case.replay, kind='cerform', bytes=ie[1].hex()))


def real_bases(rep, drv, tier):
    """BER may write a binary REAL in base 2, 8 or 16 (X.690 8.5.7); pyasn1 picks the base from `binEncBase` on the value
    or on the encoder. Whatever the base, the octets must denote the number: read by the model's X.690 reader (an exact
    rational comparison) and by the library's own decoder."""
    from fractions import Fraction
    from pyasn1.type import univ
    from pyasn1.codec.ber import encoder as ber_enc, decoder as ber_dec
    mants = [1, -1, 3, -5, 12, 255, 256, -4096, 2 ** 53 + 1]
    exps = list(range(-20, 21)) + [-100, 100, -1023, 1023] if tier == 'thorough' else list(range(-13, 14)) + [-100, 100]
    t = ('real',)
    for base in (2, 8, 16):
        for m in mants:
            for e in exps:
                r = univ.Real((m, 2, e))
                r.binEncBase = base
                rep.evaluations += 1
                rep.count('real-base-%d' % base)
                replay = {'kind': 'real-base', 'mantissa': m, 'exponent': e, 'binEncBase': base}
                want = Fraction(m) * Fraction(2) ** e
                try:
                    data = bytes(ber_enc.encode(r))
                except Exception as ex:  # noqa
                    rep.fail('real-base-encode-' + codec.classify(ex), 'encoding %d*2^%d in base %d: %r' % (m, e, base, ex), replay)
                    continue
                replay['bytes'] = data.hex()
                md = codec.model_decode(drv, 'ber', t, data)
                rep.corr_checked += 1
                got = None
                if md[0] == 'ok' and md[1][0] == 'real' and len(md[1]) == 4:
                    got = Fraction(md[1][1]) * Fraction(md[1][2]) ** md[1][3]
                if got != want or (md[0] == 'ok' and md[2] != b''):
                    rep.fail('real-base-denotes-other-number', 'base-%d encoding %s of %d*2^%d is read by the X.690 reader as %s'
                             % (base, data.hex(), m, e, got if got is not None else md[:2]), replay)
                    continue
                try:
                    back, rest = ber_dec.decode(data, asn1Spec=univ.Real())
                    bm, bb, be = tuple(back)
                    ok = rest == b'' and Fraction(bm) * Fraction(int(bb)) ** int(be) == want
                except Exception as ex:  # noqa
                    ok = False
                if not ok:
                    rep.fail('real-base-roundtrip', 'base-%d encoding %s of %d*2^%d does not decode to it' % (base, data.hex(), m, e), replay)
                # the hint is a BER matter: DER and CER write the distinguished form (base 2, odd mantissa) whatever the value
                # or its type asks for - hint on the instance, on a subclass, and through asn1Spec
                if e % 3 == 0 or base == 2:
                    from pyasn1.codec.der import encoder as der_enc
                    from pyasn1.codec.cer import encoder as cer_enc
                    want_der = x690_der(drv, engine.Case(('real',), ('real', m, 2, e)))

                    class Hinted(univ.Real):
                        binEncBase = base
                    for route, mk in (('instance-hint', lambda: (r, {})), ('subclass-hint', lambda: (Hinted((m, 2, e)), {})),
                                      ('spec-hint', lambda: ((m, 2, e), {'asn1Spec': Hinted()}))):
                        for cname, cenc in (('der', der_enc), ('cer', cer_enc)):
                            rep.count('real-hint-canonical')
                            try:
                                val, kw = mk()
                                got_c = bytes(cenc.encode(val, **kw))
                            except Exception as ex:  # noqa
                                rep.fail('real-hint-encode-' + codec.classify(ex), '%s %s: %r' % (cname, route, ex), dict(replay, route=route, codec=cname))
                                continue
                            if want_der is not None and got_c != want_der:
                                rep.fail('real-hint-not-canonical', '%s of %d*2^%d with binEncBase=%d (%s) is %s, the distinguished encoding is %s'
                                         % (cname.upper(), m, e, base, route, got_c.hex(), want_der.hex()), dict(replay, route=route, codec=cname))


def run(rep, tier, seed):
    common.prove(rep)
    rng = common.rng_for(seed, 'C03')
    drv = common.Driver()
    n = 1500 if tier == 'quick' else 50000
    rep.rule = ('generated (type, value): DER bytes vs the independent X.690 reference (lean/Asn1/X690.lean); BER/CER output read by '
                'the X.690 reader; CER form rules by an independent wire walk; boundary grids for identifier octets (all classes, '
                'multi-octet numbers), lengths 127/128/255/256/65535/65536, integers at +-2^(8k-1); non-trivial = depth>=1 or tagged')
    rep.assumptions = ['the X.690 transcription in lean/Asn1/X690.lean is correct (short, readable)', 'text codecs trusted',
                       'decimal REAL excluded']
    from harness import sexp_types, kernels
    # the octet kernels of the encoder are translated from the source on every run (gen/py2lean.py); the theorems
    # source_*_is_x690 are about those translations; the translation itself is compared with the code here
    kernels.obligations(rep, ['encodeTag', 'encodeLength', 'toBytes', 'oidEncode', 'realBin', 'setOfSort', 'cerBoolEnc', 'berBoolEnc', 'intEncode'])
    kernels.check(rep, drv, seed, 150 if tier == 'quick' else 4000)
    # canonical output whatever the type object handed over with a Python tree happens to hold (shared with C17)
    from harness.props import c17 as _c17
    rep.case('populated spec objects', nontrivial=True)
    _c17.check_populated_spec_objects(rep)
    real_bases(rep, drv, tier)
    for ts, vs in CORPUS:
        t = sexp_types.ty_of_sexp(gen.parse_sexps(ts)[0])
        v = gen.val_of_sexp(gen.parse_sexps(vs)[0])
        case = engine.Case(t, v)
        rep.case('corpus ' + case.canon)
        check_case(rep, drv, case)
    # boundary grids
    for k in range(1, 12):
        for d in (-1, 0, 1):
            for sgn in (1, -1):
                case = engine.Case(('int',), ('i', sgn * (2 ** (8 * k - 1)) + d))
                rep.case(case.canon, nontrivial=False)
                check_case(rep, drv, case)
    for ln in (0, 1, 126, 127, 128, 129, 255, 256, 257, 65535, 65536):
        case = engine.Case(('str', 4), ('s', bytes(ln)))
        rep.case(case.canon, nontrivial=False)
        check_case(rep, drv, case)
        case = engine.Case(('seqof', ('str', 4)), ('of', [('s', bytes(ln)), ('s', b'')]))
        rep.case(case.canon, nontrivial=True)
        check_case(rep, drv, case)
    for cls in 'acp':
        for num in (0, 1, 30, 31, 32, 127, 128, 16383, 16384, 2 ** 32, 2 ** 64 + 1):
            for mode in 'ei':
                case = engine.Case(('seq', [('r', None, ('tag', mode, cls, num, ('int',)))]), ('seq', [('i', 5)]))
                rep.case(case.canon, nontrivial=True)
                check_case(rep, drv, case)
    # SET OF stress: members under different tags and of different lengths sharing long prefixes, in random arrival order
    ct = sexp_types.ty_of_sexp(gen.parse_sexps('(setof (choice (r int) (r (str 4)) (r (tag i c 0 (str 4))) (r (seq (r int) (o int)))))')[0])
    for _ in range(40 if tier == 'quick' else 1500):
        base_n = rng.choice([65536, 16777216, 256, 1 << 40])
        pool = [('ch', 0, ('i', base_n + rng.randrange(3))) for _ in range(3)] + \
               [('ch', 1, ('s', bytes([rng.choice([0xff, 0x80, 0x01])] * rng.randrange(1, 4)))) for _ in range(2)] + \
               [('ch', 2, ('s', bytes([rng.randrange(256)]) * rng.randrange(0, 3)))] + \
               [('ch', 3, ('seq', [('i', 4), rng.choice([('absent',), ('i', rng.randrange(2))])])) for _ in range(2)]
        members = [rng.choice(pool) for _ in range(rng.randrange(2, 7))]
        case = engine.Case(ct, ('of', members))
        rep.case('setof-stress ' + case.canon, nontrivial=True)
        rep.count('setof-stress')
        check_case(rep, drv, case, rng)
    for case in engine.gen_cases(rng, n, max_depth=3, allow_any=True):
        if not engine.representable(case):
            continue
        rep.case(case.canon, nontrivial=gen.nontrivial(case.t),
                 sample={'type': gen.ty_sexp(case.t)[:300], 'value': gen.val_sexp(case.v)[:300]})
        check_case(rep, drv, case, rng)

    def check_one(c, drv, case, r):
        check_case(c, drv, case)
    engine.post_shrink(rep, drv, check_one)
    drv.close()


def replay(path):
    d = json.load(open(path))
    print(json.dumps(d, indent=1)[:6000])
    return 0
