"""C05 — streaming decoder output is independent of the data arrival schedule (DESIGN §5 C05).

The real `StreamingDecoder` is driven by `next()` over the stream doubles of harness/streams.py;
after every reported underrun the next chunk of the schedule is delivered (an empty chunk = a
"no data yet" poll; delivering the last chunk also closes the stream, so a trailing empty chunk =
end-of-stream signalled after the last octet).  The outcome sequence — objects (abstract values),
tell() after each, `stop` or the error class — must equal what the complete input gives, an
underrun may only be reported when the raw stream's last answer was None, and the whole trace must
equal the Lean model's (driver op STREAM)."""
import io
import itertools
import json

from harness import common, gen, codec, engine, streams, sexp_types
from pyasn1 import error

KINDS = ('K3', 'K4')
_CTX = {'drv': None, 'drv_calls': 0}

# ---------------------------------------------------------------------------------------------
# fixed short streams: every shape the property names (exhaustive schedules run on these)

def _fixed_streams():
    """(name, codec, type sexp or None, hex of the whole stream, number of items)"""
    return [
        # long tag (two-octet tag number), two items back to back
        ('long-tag', 'ber', '(tag i c 1000 int)', '9f876801059f87680107', 2),
        # the same long tag in primitive and in constructed (segmented) form within one stream, either order
        ('long-tag-both-forms', 'ber', '(tag i c 40 (str 4))', '9f28026162' + 'bf28080402636404026566' + '9f280167', 3),
        ('long-tag-both-forms-cons-first', 'ber', '(tag i p 1000 (str 4))', 'ff876880040163040164' + '0000' + 'df87680165', 2),
        # long-form length octets (valid BER), followed by a NULL — schemaless
        ('long-length', 'ber', None, '04810361626305000101ff', 3),
        # indefinite SEQUENCE OF closed by end-of-octets, then an INTEGER
        ('eoo', 'ber', None, '30800201050000020107', 2),
        # BIT STRING twice (D1: cut after the length octet)
        ('bitstring', 'ber', 'bits', '030205a0030100', 2),
        # explicitly tagged CHOICE, indefinite then definite form
        ('choice', 'ber', '(tag e c 0 (choice (r null) (r bool)))', 'a0800101ff0000a0020500', 2),
        # indefinite container holding a constructed indefinite OCTET STRING
        ('nested-indef', 'ber', '(seqof (str 4))', '308024800401610000' + '0000', 1),
        # DER and CER decoders
        ('der-seq', 'der', '(seq (r int) (r bool))', '30060201050101ff' + '3006020107010100', 2),
        ('der-seq-short', 'der', '(seq (r int))', '3003020105' + '3003020107', 2),
        ('cer-seqof', 'cer', '(seqof int)', '30800201050000' + '30800000', 2),
        # a single INTEGER with a guiding type, and schemaless
        ('int', 'ber', 'int', '020105', 1),
        ('two-ints-schemaless', 'ber', None, '0202012c020105', 2),
        # an untagged ANY capturing an indefinite-length element (the decoder goes back to the element's mark and reads
        # the header again), in a record and at top level; then a definite one
        ('any-indef-in-seq', 'ber', '(seq (r int) (r any))', '300a02010224800401610000', 1),
        ('any-indef-top', 'ber', 'any', '30800201050000' + '0500', 2),
        ('any-def-in-seq', 'ber', '(seq (r int) (r any))', '30080201020403616263', 1),
    ]


# streams that are NOT a concatenation of complete encodings: the schedule must not change the error
def _broken_streams():
    return [
        ('cut-in-value', 'ber', '(str 4)', '04056162'),          # closed in the middle of a read
        ('cut-after-item', 'ber', 'int', '02010502'),            # one item, then a lone tag octet
        ('cut-in-eoo', 'ber', None, '308002010500'),             # half an end-of-octets marker
        ('cut-bitstring', 'ber', 'bits', '0302'),                # D1
    ]


def ty_of(ts):
    return None if ts is None else sexp_types.ty_of_sexp(gen.parse_sexps(ts)[0])


# ---------------------------------------------------------------------------------------------
# driving the real code

def dump(t, obj):
    """comparable content of a decoded object: abstract value when a type guides, else a structural dump"""
    if t is not None:
        return gen.val_sexp(gen.abstract(t, obj))
    return '%s|%s' % (obj.__class__.__name__, obj.prettyPrint())


def err_class(e):
    if isinstance(e, error.EndOfStreamError):
        return 'eos'
    if isinstance(e, error.SubstrateUnderrunError):
        return 'underrun'
    if isinstance(e, error.PyAsn1Error):
        return 'malformed'
    return 'leak:' + type(e).__name__


class Run(object):
    __slots__ = ('tokens', 'values', 'spurious', 'raw')


def drive(dec, stream, raw, chunks, spec, t, budget):
    """-> Run.  `raw` is the GrowingStream being fed (None for complete streams)."""
    r = Run()
    r.tokens, r.values, r.spurious, r.raw = [], [], 0, raw
    sd = dec.StreamingDecoder(stream, asn1Spec=spec)
    sub = sd._substrate
    if raw is not None and not chunks:
        raw.close_input()
    fed = 0
    it = iter(sd)

    def tell():
        try:
            return sub.tell()
        except Exception:  # noqa
            return -1
    for _ in range(budget):
        try:
            x = next(it)
        except StopIteration:
            r.tokens.append('stop@%d' % tell())
            return r
        except RecursionError:
            r.tokens.append('err:leak:RecursionError@%d' % tell())
            return r
        except Exception as e:  # noqa
            r.tokens.append('err:%s@%d' % (err_class(e), tell()))
            return r
        if isinstance(x, error.SubstrateUnderrunError) or x is None:
            r.tokens.append(('U@%d' if x is not None else 'N@%d') % tell())
            if raw is None:
                continue                                   # complete stream: a poll, just retry
            # an underrun may be reported only while octets are missing: the raw stream said None
            if not raw.log or raw.log[-1][2] is not None:
                r.spurious += 1
            if fed < len(chunks):
                raw.feed(chunks[fed])
                fed += 1
                if fed == len(chunks):
                    raw.close_input()
            else:
                r.tokens.append('STUCK')                   # underrun although the stream has ended
                return r
        else:
            r.tokens.append('V@%d' % tell())
            try:
                r.values.append(dump(t, x))
            except Exception as e:  # noqa
                r.values.append('not-a-value:%s' % e)
    r.tokens.append('STUCK')
    return r


def run_kind(dec, kind, chunks, spec, t, max_read=None):
    if kind == 'K5':
        # a buffered reader over a growing non-blocking raw stream (io.BufferedReader: has peek(); answers None from
        # read() and b'' from peek() while nothing has arrived)
        raw = streams.GrowingStream(seekable=True, max_read=max_read)
        return drive(dec, io.BufferedReader(raw), raw, chunks, spec, t, len(chunks) + 64)
    raw = streams.GrowingStream(seekable=(kind == 'K3'), max_read=max_read)
    return drive(dec, raw, raw, chunks, spec, t, len(chunks) + 64)


def run_whole(dec, data, spec, t):
    return drive(dec, io.BytesIO(data), None, [], spec, t, 64 + len(data))


def run_polling(dec, data, polls, spec, t):
    s = streams.PollingBytesIO(data, polls)
    r = drive(dec, s, None, [], spec, t, 64 + 2 * len(data) + len(polls))
    hit = len([i for i in polls if i < s._calls])
    return r, hit


def strip_u(tokens):
    return [x for x in tokens if not x.startswith('U@')]


def model_trace(kind, cdc, data, chunks):
    drv = _CTX['drv']
    ans = drv.ask('STREAM %s %s %s (%s)' % (kind, cdc, gen.hexs(data), ' '.join(str(len(c)) for c in chunks)))
    if not ans.startswith('ok'):
        raise common.MachineryError('driver STREAM: ' + ans)
    return ans.split()[1:]


def kinds_only(tokens):
    return [x.split('@')[0] for x in tokens]


def no_u_pos(tokens):
    """V / stop / err with their positions, U without (the model's framing reads and the typed decoders'
    reads may start at different offsets inside an element; where objects end does not depend on that)"""
    out = []
    for x in tokens:
        if x.startswith('U@'):
            out.append('U')
        elif x.startswith('V@'):
            out.append(x.split(':')[0])
        else:
            out.append(x)
    return out


def check_schedule(rep, name, cdc, ts, t, spec, data, whole, kind, chunks, max_read=None, with_model=True,
                   item_ends=None):
    dec = codec.DEC[cdc]
    r = run_kind(dec, kind, chunks, spec, t, max_read)
    replay = {'kind': 'schedule', 'stream': name, 'codec': cdc, 'type': ts, 'bytes': data.hex(), 'stream_kind': kind,
              'chunks': [c.hex() for c in chunks], 'max_read': max_read}
    got = strip_u(r.tokens)
    if got != whole.tokens or r.values != whole.values:
        last = got[-1] if got else 'nothing'
        sig = 'schedule-' + (last.split('@')[0].replace(':', '-') if got != whole.tokens else 'value-differs')
        rep.fail(sig, '%s %s: under the schedule %s -> %s %s; complete input -> %s %s' % (
            name, kind, [len(c) for c in chunks], r.tokens, r.values[:3], whole.tokens, whole.values[:3]), replay)
        return False
    if r.spurious:
        rep.fail('underrun-without-missing-octets',
                 '%s %s: %d underrun(s) reported although the stream had not answered None (chunks %s, max_read %s): %s'
                 % (name, kind, r.spurious, [len(c) for c in chunks], max_read, r.tokens), replay)
        return False
    rep.count('schedules-' + kind)
    if with_model:
        m = model_trace(kind, cdc, data, chunks)
        rep.corr_checked += 1
        if no_u_pos(m) != no_u_pos(r.tokens):
            rep.disagree('STREAM', replay, m, r.tokens)
        elif item_ends is not None:
            lens = [int(x.split(':')[1]) for x in m if x.startswith('V@')]
            want = [b - a for a, b in zip([0] + item_ends[:-1], item_ends)]
            if lens != want[:len(lens)]:
                rep.disagree('STREAM-item-lengths', replay, lens, want)
    return True


def partitions(data):
    n = len(data)
    for mask in range(1 << max(n - 1, 0)):
        cuts = [i + 1 for i in range(n - 1) if mask >> i & 1]
        yield [data[a:b] for a, b in zip([0] + cuts, cuts + [n])]


def variants(chunks):
    """{poll before each chunk or not} x {close with / after the last octet}"""
    polled = []
    for c in chunks:
        polled.extend([b'', c])
    for base in (chunks, polled):
        yield list(base)
        yield list(base) + [b'']


def whole_reference(rep, name, cdc, ts, t, spec, data, n_items, must_be_clean=True):
    dec = codec.DEC[cdc]
    w = run_whole(dec, data, spec, t)
    if must_be_clean:
        ok = kinds_only(w.tokens) == ['V'] * n_items + ['stop'] and w.tokens[-1] == 'stop@%d' % len(data)
        if not ok:
            rep.fail('whole-input-' + (w.tokens[-1].split('@')[0].replace(':', '-') if w.tokens else 'nothing'),
                     '%s: the complete input (BytesIO) -> %s, expected %d objects and stop' % (name, w.tokens, n_items),
                     {'kind': 'whole', 'stream': name, 'codec': cdc, 'type': ts, 'bytes': data.hex()})
            return None
    if must_be_clean:
        # the objects are those one-shot decoding yields from the complete bytes (each call a decoder of its own, fed the
        # remainder of the previous one): what one decoder object met earlier in the stream does not colour later items
        one_by_one, rest = [], data
        try:
            while rest and len(one_by_one) <= n_items:
                obj, rest = dec.decode(rest, asn1Spec=spec)
                one_by_one.append(dump(t, obj))
        except Exception as e:  # noqa
            one_by_one.append('err:' + err_class(e))
        if one_by_one != w.values:
            k = [i for i in range(min(len(one_by_one), len(w.values))) if one_by_one[i] != w.values[i]]
            rep.fail('stream-items-differ-from-one-shot', '%s: item %s of the stream is %s, one-shot decoding of the same octets gives %s' % (
                name, k[:1], [w.values[i][:80] for i in k[:1]], [one_by_one[i][:80] for i in k[:1]]),
                     {'kind': 'whole', 'stream': name, 'codec': cdc, 'type': ts, 'bytes': data.hex()})
            return None
    # K1 against the model
    m = model_trace('K1', cdc, data, [])
    rep.corr_checked += 1
    if no_u_pos(m) != no_u_pos(w.tokens) and must_be_clean:
        rep.disagree('STREAM-K1', {'stream': name, 'codec': cdc, 'bytes': data.hex()}, m, w.tokens)
    return w


def check_exhaustive(rep, name, cdc, ts, hexdata, n_items, limit):
    t = ty_of(ts)
    spec = gen.build(t) if t is not None else None
    data = bytes.fromhex(hexdata)
    if len(data) > limit:
        rep.count('exhaustive-skipped-too-long')
        return
    rep.case('fixed ' + name + ' ' + hexdata, nontrivial=True,
             sample={'stream': name, 'codec': cdc, 'type': ts, 'bytes': hexdata})
    whole = whole_reference(rep, name, cdc, ts, t, spec, data, n_items)
    if whole is None:
        return
    ends = [int(x.split('@')[1]) for x in whole.tokens if x.startswith('V@')]
    bad = 0
    for chunks in partitions(data):
        common.arm_watchdog()       # the deadline is for one run of the decoder to come back, not for the 2^(n-1) partitions
        for sched in variants(chunks):
            for kind in KINDS + ('K5',):
                if not check_schedule(rep, name, cdc, ts, t, spec, data, whole, kind, sched, item_ends=ends,
                                      with_model=(kind != 'K5')):
                    bad += 1
                    if bad > 3:
                        return
    rep.count('exhaustive-streams')
    check_polling(rep, name, cdc, ts, t, spec, data, whole, common.rng_for(0, 'C05', name), exhaustive=True)


def check_polling(rep, name, cdc, ts, t, spec, data, whole, rng, exhaustive=False):
    """K2: BytesIO subclass holding everything, answering None at chosen read() calls"""
    dec = codec.DEC[cdc]
    base, _ = run_polling(dec, data, (), spec, t)
    s = streams.PollingBytesIO(data)
    calls = 0
    # how many read() calls the undisturbed run makes
    probe = streams.PollingBytesIO(data)
    drive(dec, probe, None, [], spec, t, 64 + len(data))
    calls = probe._calls
    sets = [()]
    if exhaustive:
        sets += [(i,) for i in range(calls + 2)]
        sets += [tuple(range(0, 3 * calls, 2)), tuple(range(1, 3 * calls, 2)), tuple(range(0, calls))]
    for _ in range(6 if exhaustive else 3):
        k = rng.randrange(1, 2 * calls + 2)
        sets.append(tuple(sorted(rng.sample(range(2 * calls + 2), min(k, 2 * calls + 2)))))
    for polls in sets:
        r, hit = run_polling(dec, data, polls, spec, t)
        replay = {'kind': 'polls', 'stream': name, 'codec': cdc, 'type': ts, 'bytes': data.hex(), 'stream_kind': 'K2',
                  'polls': list(polls)}
        got = strip_u(r.tokens)
        if got != whole.tokens or r.values != whole.values:
            last = got[-1] if got else 'nothing'
            rep.fail('polls-' + last.split('@')[0].replace(':', '-'),
                     '%s K2 polls %s -> %s; complete input -> %s' % (name, list(polls)[:12], r.tokens, whole.tokens), replay)
            return
        n_u = len(r.tokens) - len(got)
        if n_u != hit:
            rep.fail('polls-underrun-count', '%s K2: %d underruns for %d None answers (%s)' % (name, n_u, hit, r.tokens), replay)
            return
        rep.count('schedules-K2')
        m = model_trace('K2', cdc, data, [])
        rep.corr_checked += 1
        if no_u_pos(m) != no_u_pos(got):
            rep.disagree('STREAM-K2', replay, m, r.tokens)


def check_broken(rep, name, cdc, ts, hexdata):
    """the same error under every schedule as on the complete input; never stuck"""
    t = ty_of(ts)
    spec = gen.build(t) if t is not None else None
    data = bytes.fromhex(hexdata)
    rep.case('broken ' + name + ' ' + hexdata, nontrivial=True)
    dec = codec.DEC[cdc]
    # the reference is the closed complete stream of each kind (a BytesIO reports the same class)
    whole = run_whole(dec, data, spec, t)
    if not whole.tokens or not whole.tokens[-1].startswith('err:'):
        rep.fail('broken-stream-accepted', '%s: %s' % (name, whole.tokens), {'kind': 'broken', 'bytes': hexdata})
        return
    for chunks in partitions(data):
        for sched in variants(chunks):
            for kind in KINDS:
                if not check_schedule(rep, name, cdc, ts, t, spec, data, whole, kind, sched):
                    return


# ---------------------------------------------------------------------------------------------
# sampled schedules for generated streams

def needs_schema(t):
    k = t[0]
    if k == 'tag':
        return t[1] == 'i' or needs_schema(t[4])
    if k in ('seq', 'set', 'choice'):
        return True          # schemaless decoding guesses SEQUENCE OF / SET OF: another object model
    if k in ('seqof', 'setof'):
        return needs_schema(t[1])
    return k in ('any', 'enum', 'real') or (k == 'str' and t[1] != 4)


def random_cuts(rng, n):
    style = rng.random()
    if n <= 1:
        return []
    if style < 0.25:
        k = rng.randrange(0, min(n, 4))
    elif style < 0.6:
        k = rng.randrange(0, min(n, 12))
    elif style < 0.8:
        return list(range(1, n))                          # one octet at a time
    else:
        k = rng.randrange(n // 2, n)
    return sorted(rng.sample(range(1, n), min(k, n - 1)))


def random_schedule(rng, data):
    cuts = random_cuts(rng, len(data))
    chunks = [data[a:b] for a, b in zip([0] + cuts, cuts + [len(data)])]
    out = []
    p = rng.choice([0.0, 0.0, 0.3, 0.7])
    for c in chunks:
        while rng.random() < p:
            out.append(b'')
        out.append(c)
    if rng.random() < 0.5:
        out.append(b'')
        if rng.random() < 0.3:
            out.append(b'')
    return out


def sampled(rep, rng, n_cases, per_stream):
    g = gen.Gen(rng, max_depth=2)
    made = 0
    for case in engine.gen_cases(rng, n_cases * 3, max_depth=2):
        if made >= n_cases:
            break
        if not engine.representable(case):
            continue
        mode = rng.choice([('ber', True, 0), ('ber', False, 0), ('ber', True, rng.choice([1, 2, 3, 7])),
                           ('ber', False, rng.choice([1, 2, 3, 7])), ('cer', False, 1000), ('der', True, 0)])
        cdc = mode[0]
        items = []
        for i in range(rng.choice([1, 1, 2, 2, 3, 4])):
            v = case.v if i == 0 else g.val(case.t)
            c = engine.Case(case.t, v)
            if not engine.representable(c):
                continue
            ie = codec.impl_encode(cdc, c.t, c.v, mode[1], mode[2], obj=c.fresh_obj())
            if ie[0] != 'ok':
                continue
            d = codec.impl_decode(cdc, c.t, ie[1], c.schema)
            if not (d[0] == 'ok' and d[2] == b'' and gen.val_equiv(c.t, d[1], c.v)):
                continue                                  # not a valid encoding of a value of U: judged by C01/C02
            items.append(ie[1])
        if not items:
            rep.count('sampled-skipped-no-valid-encoding')
            continue
        made += 1
        data = b''.join(items)
        ts = gen.ty_sexp(case.t)
        name = 'gen'
        rep.case(ts + ' ' + data.hex(), nontrivial=gen.nontrivial(case.t) or len(items) > 1,
                 sample={'type': ts[:300], 'codec': cdc, 'mode': list(mode), 'items': len(items), 'octets': len(data)})
        rep.count('stream-octets-%s' % ('<=16' if len(data) <= 16 else '<=64' if len(data) <= 64 else '>64'))
        for with_schema in ((True, False) if not needs_schema(case.t) else (True,)):
            t = case.t if with_schema else None
            spec = case.schema if with_schema else None
            tss = ts if with_schema else None
            whole = whole_reference(rep, name, cdc, tss, t, spec, data, len(items))
            if whole is None:
                break
            ends = [int(x.split('@')[1]) for x in whole.tokens if x.startswith('V@')]
            for _ in range(per_stream):
                kind = rng.choice(KINDS)
                mr = rng.choice([None, None, 1, 2, 3, 7, 64])
                sched = random_schedule(rng, data)
                if not check_schedule(rep, name, cdc, tss, t, spec, data, whole, kind, sched, max_read=mr, item_ends=ends):
                    break
                if mr:
                    rep.count('schedules-short-reads')
            if rng.random() < 0.3:
                check_polling(rep, name, cdc, tss, t, spec, data, whole, rng)


# ---------------------------------------------------------------------------------------------

CORPUS = [
    # (what, codec, type, bytes, kind, chunks (hex), max_read)  — minimized witnesses of the repaired defects
    ('S2: close after a None poll', 'ber', 'int', '020105', 'K3', ['020105', ''], None),
    ('S3: None through the wrapper', 'ber', 'int', '020105', 'K4', ['', '0201', '', '05'], None),
    ('D1: cut after the BIT STRING length', 'ber', 'bits', '030205a0', 'K3', ['0302', '05a0'], None),
    ('indefinite CHOICE in two pieces', 'ber', '(tag e c 0 (choice (r null) (r bool)))', 'a0800101ff0000', 'K3',
     ['a080', '0101ff0000'], None),
    ('short reads on a seekable stream', 'ber', None, '04086162636465666768020105', 'K3',
     ['04086162', '636465666768020105'], 1),
    ('short reads behind the wrapper', 'ber', None, '04086162636465666768020105', 'K4',
     ['04086162', '636465666768020105'], 1),
]


def run_corpus(rep):
    for what, cdc, ts, hx, kind, chunks, mr in CORPUS:
        t = ty_of(ts)
        spec = gen.build(t) if t is not None else None
        data = bytes.fromhex(hx)
        rep.case('corpus ' + what)
        whole = run_whole(codec.DEC[cdc], data, spec, t)
        check_schedule(rep, 'corpus: ' + what, cdc, ts, t, spec, data, whole, kind,
                       [bytes.fromhex(c) for c in chunks], max_read=mr)


def run(rep, tier, seed):
    common.prove(rep)
    rng = common.rng_for(seed, 'C05')
    drv = common.Driver()
    _CTX['drv'] = drv
    # one turn of readFromStream's loop is translated from the source on every run (gen/py2lean.py -> GenK.readTurn) and
    # proved equal to the model's readFromStreamRaw / read-n primitive (Props/C05 source_read_turn_is_model,
    # source_underrun_only_when_missing); the translation is run against the real generator here
    from harness import kernels
    kernels.obligations(rep, ['readTurn', 'eosTurn'])
    kernels.check(rep, drv, seed, 400 if tier == 'quick' else 20000, which=('readTurn',))
    limit = 11 if tier == 'quick' else 16
    rep.rule = ('streams s = e1..en of valid BER/CER/DER encodings (fixed shapes: long tag, long length, end-of-octets, BIT STRING, '
                'CHOICE, nested indefinite, DER/CER decoders, with and without guiding type; generated: types of depth<=2, 1-4 items, '
                'all encoder modes) x arrival schedules: for fixed streams of <= %d octets ALL 2^(n-1) partitions x {poll before each '
                'chunk or not} x {close with / after the last octet} x {K3 seekable growing, K4 non-seekable behind the wrapper}, plus K2 '
                '(BytesIO subclass answering None at every single call index, alternating, random sets); for generated streams random '
                'partitions, polls, close timing and capped reads (max_read in 1,2,3,7,64); broken streams (cut inside an element) under '
                'all partitions: same error as the complete input. distinct = distinct (type, stream) pairs' % limit)
    rep.assumptions = ['stream doubles implement the contract read()->None (no data yet) / b"" (end) / fewer octets than asked (short read)',
                       'real OS pipes, sockets, files are not exercised; single thread',
                       'the model is the framing layer: objects are compared between schedule and complete input on the real code '
                       '(abstract values), and with the model by where they end']
    run_corpus(rep)
    fixed = _fixed_streams()
    if tier == 'thorough':
        fixed = fixed + _thorough_streams()
    for name, cdc, ts, hx, n in fixed:
        check_exhaustive(rep, name, cdc, ts, hx, n, limit)
    for name, cdc, ts, hx in _broken_streams():
        check_broken(rep, name, cdc, ts, hx)
    check_large(rep)
    if tier == 'quick':
        sampled(rep, rng, 1300, 8)
    else:
        sampled(rep, rng, 30000, 10)
    rep.extra['driver_requests'] = drv.n
    drv.close()


def check_large(rep):
    """streams longer than the wrapper's 8192-octet cache window (indefinite-length containers only: a definite-length
    container crossing the window on a non-seekable stream is the recorded finding S4 of C11)"""
    body = b''.join(b'\x04\x82\x01\x90' + bytes([65 + i]) * 400 for i in range(24))

    def big(ch, n):
        return b'\x04\x82' + n.to_bytes(2, 'big') + ch * n
    streams_ = [
        ('large-indef-seqof', 'ber', None, b'\x30\x80' + body + b'\x00\x00' + b'\x02\x01\x07' + b'\x30\x80\x02\x01\x01\x00\x00', 3),
        ('large-nested-indef', 'ber', None, b'\x30\x80\x02\x01\x05\x30\x80' + body + b'\x00\x00\x01\x01\xff\x00\x00' + b'\x05\x00', 2),
        ('large-many-items', 'ber', '(str 4)', body, 24),
        # top-level primitive items larger than the cache window and of EQUAL size side by side, and item sizes that add up to a
        # later item's size (the positions the wrapper reports restart at a mark past the window: "the position did not move"
        # must not be read off them)
        ('equal-big-items-x2', 'ber', None, big(b'q', 9000) * 2, 2),
        ('equal-big-items-x3', 'ber', None, big(b'r', 9000) * 3 + b'\x02\x01\x07', 4),
        ('sizes-adding-up', 'ber', '(str 4)', big(b's', 4996) * 2 + big(b't', 9996) + b'\x04\x01u', 4),
        ('sizes-adding-up-2', 'ber', '(str 4)', big(b's', 8996) + big(b't', 8996) + big(b'w', 18000 - 8) + b'\x04\x01u', 4),
        # an indefinite-length value that does NOT come first, with a child starting beyond the cache window and little after it
        # (positions held across the children of an indefinite-length value are not comparable behind the wrapper)
        ('def-then-segmented', 'ber', '(str 4)', big(b'a', 6000) + b'\x24\x80' + b''.join(big(bytes([98 + j]), 1000) for j in range(4)) + b'\x00\x00'
         + b'\x04\x01u', 3),
        ('ints-then-indef-seqof', 'ber', None, b'\x02\x01\x05' * 40 + b'\x30\x80' + b''.join(big(bytes([65 + j % 20]), 400) for j in range(40))
         + b'\x00\x00' + b'\x01\x01\xff', 42),
        ('def-then-indef-then-more', 'ber', None, big(b'a', 3000) + b'\x30\x80' + b''.join(big(bytes([70 + j]), 2000) for j in range(5)) + b'\x00\x00'
         + b'\x05\x00', 3),
    ]
    for name, cdc, ts, data, n_items in streams_:
        t = ty_of(ts)
        spec = gen.build(t) if t is not None else None
        rep.case('large ' + name, nontrivial=True, sample={'stream': name, 'codec': cdc, 'octets': len(data)})
        whole = whole_reference(rep, name, cdc, ts, t, spec, data, n_items)
        if whole is None:
            continue
        def one(kind, chunks):
            if kind == 'K3':
                return check_schedule(rep, name, cdc, ts, t, spec, data, whole, kind, chunks, with_model=False)
            # behind the wrapper the reported positions restart when the cache is dropped (C11, S4): compare the
            # objects and the kinds of events only
            r = run_kind(codec.DEC[cdc], kind, chunks, spec, t)
            got = strip_u(r.tokens)
            if kinds_only(got) != kinds_only(whole.tokens) or r.values != whole.values:
                last = got[-1] if got else 'nothing'
                rep.fail('schedule-' + last.split('@')[0].replace(':', '-') if kinds_only(got) != kinds_only(whole.tokens)
                         else 'schedule-value-differs',
                         '%s %s: under the schedule %s -> %s (%d objects); complete input -> %s (%d objects)' % (
                             name, kind, [len(c) for c in chunks][:12], kinds_only(got)[-6:], len(r.values),
                             kinds_only(whole.tokens)[-6:], len(whole.values)),
                         {'kind': 'schedule', 'stream': name, 'codec': cdc, 'type': ts, 'stream_kind': kind,
                          'chunk_sizes': [len(c) for c in chunks][:40], 'octets': len(data)})
                return False
            rep.count('schedules-' + kind)
            return True
        for size in (len(data), 4096, 1000, 97):
            chunks = [data[i:i + size] for i in range(0, len(data), size)]
            for kind in KINDS:
                one(kind, chunks)
        # cuts around the window boundary
        for cut in (8190, 8191, 8192, 8193, 8194, 8200):
            for kind in KINDS:
                one(kind, [data[:cut], data[cut:]])
        rep.count('large-streams')


def _thorough_streams():
    return [
        ('three-items', 'ber', 'int', '020105' + '0202012c' + '020100' + '0203010001', 4),
        ('long-tag-3', 'ber', '(tag e c 2000000 null)', 'bffa89000205 00'.replace(' ', '') + 'bffa8900020500', 2),
        ('octets-chunked', 'ber', '(str 4)', '2480040161040162000004' + '00', 2),
        ('bits-constructed', 'ber', 'bits', '23800302000f0302040f0000', 1),
        ('seq-optional', 'ber', '(seq (r int) (o bool) (r null))', '30050201050500' + '30080201050101ff0500', 2),
        ('set-indef', 'ber', '(set (r int) (r bool))', '31800101ff0201050000' + '3106020105010100', 2),
        ('der-choice', 'der', '(choice (r int) (r bool))', '0201050101ff020107', 3),
        ('cer-bool', 'cer', 'bool', '0101ff010100', 2),
        ('real', 'ber', 'real', '090380fb05' + '0900' + '090140', 3),
        ('oid', 'ber', 'oid', '06062a864886f70d' + '06012a', 2),
        ('long-length-2', 'ber', None, '0482000161' + '308200030201ff', 2),
    ]


def replay(path):
    d = json.load(open(path))
    print(json.dumps(d, indent=1)[:4000])
    drv = common.Driver()
    _CTX['drv'] = drv
    for f in d.get('failures', [])[:3]:
        r = f.get('replay', {})
        if 'bytes' not in r or 'codec' not in r:
            continue
        t = ty_of(r.get('type'))
        spec = gen.build(t) if t is not None else None
        data = bytes.fromhex(r['bytes'])
        dec = codec.DEC[r['codec']]
        whole = run_whole(dec, data, spec, t)
        print('complete input :', whole.tokens, whole.values[:4])
        if r.get('kind') == 'polls':
            rr, hit = run_polling(dec, data, tuple(r['polls']), spec, t)
            print('with polls     :', rr.tokens, rr.values[:4], 'None answers:', hit)
        elif 'chunks' in r:
            chunks = [bytes.fromhex(c) for c in r['chunks']]
            rr = run_kind(dec, r['stream_kind'], chunks, spec, t, r.get('max_read'))
            print('under schedule :', rr.tokens, rr.values[:4], 'spurious underruns:', rr.spurious)
            print('model          :', model_trace(r['stream_kind'], r['codec'], data, chunks))
    drv.close()
    return 0
