"""C11 — decoding result does not depend on the kind of input object (DESIGN §5 C11).

(A) op histories on the real `CachingStreamWrapper` (over a non-seekable stream double) next to
    `io.BytesIO` over the same octets and next to the Lean model of both (driver op WRAP), read sizes
    straddling multiples of io.DEFAULT_BUFFER_SIZE;
(B) the same with the raw stream still growing (None / short answers) next to a growing seekable stream;
(C) whole decodes of the same octets presented as bytes, BytesIO, OCTET STRING / ANY value, an open
    temp file, a gzip reader, a zip member, a seekable raw stream, a non-seekable raw stream (complete,
    with capped reads, and trickling in through the streaming decoder): identical abstract values,
    remainders and error classes; elements up to 5x the buffer, deep and wide, definite and indefinite;
(D) the stream helpers (readFromStream / peekIntoStream / isEndOfStream) on every kind;
(E) unsupported substrates.
Known finding S4 (`S4-wrapper-renumber`): positions restart from 0 when the wrapper drops its cache."""
import atexit
import gzip
import io
import json
import os
import shutil
import tempfile
import zipfile

from harness import common, gen, codec, engine, streams, sexp_types, wire
from pyasn1 import error
from pyasn1.type import tag
from pyasn1.codec import streaming
from pyasn1.type import univ

B = io.DEFAULT_BUFFER_SIZE
_CTX = {'drv': None, 'dir': None, 'model_large': 0}


def scratch():
    if _CTX['dir'] is None:
        _CTX['dir'] = tempfile.mkdtemp(prefix='verif-c11-')
        atexit.register(shutil.rmtree, _CTX['dir'], True)
    return _CTX['dir']


# ---------------------------------------------------------------------------------------------
# (A) wrapper histories over a complete raw stream

def pattern(n, salt=0):
    return bytes((i * 7 + salt + (i >> 8)) & 0xFF for i in range(n))


def gen_history(rng, n_data, n_ops):
    """ops respecting the precondition: seeks only back to >= mark (and never forward past what was read),
    mark set at the current position.  No absolute seek once a drop has renumbered positions."""
    ops = []
    pos, mark, base, high = 0, 0, 0, 0
    sizes = [0, 1, 1, 2, 2, 3, 7, 100, B - 1, B, B + 1, B // 2, 2 * B - 1, 2 * B + 1, 3 * B]
    for _ in range(n_ops):
        x = rng.random()
        if x < 0.38:
            n = rng.choice(sizes) if rng.random() < 0.6 else rng.randrange(0, 2 * B)
            ops.append(('r', n))
            pos = min(n_data, pos + n)
        elif x < 0.50:
            n = rng.choice(sizes) if rng.random() < 0.6 else rng.randrange(0, 2 * B)
            ops.append(('p', n))
            high = max(high, min(n_data, pos + n))
        elif x < 0.64:
            if pos > mark:
                k = rng.choice([1, 2, pos - mark, rng.randrange(1, pos - mark + 1)])
                k = min(k, pos - mark)
                ops.append(('c', k))
                pos -= k
            else:
                ops.append(('t',))
        elif x < 0.70:
            ops.append(('k',))
            pos = mark
        elif x < 0.76 and base == 0:
            p = rng.randrange(mark, pos + 1)
            ops.append(('s', p))
            pos = p
        elif x < 0.88:
            ops.append(('m',))
            if pos - base > B:
                base = pos
            mark = pos
        elif x < 0.94:
            ops.append(('t',))
        elif x < 0.98:
            ops.append(('g',))
        else:
            ops.append(('a',))
            pos = n_data
        high = max(high, pos)
    return ops


def apply_real(stream, ops, is_wrapper):
    """outputs of an op history on a real stream object (the BytesIO reference keeps its mark in `mk`)"""
    out = []
    mk = [0]
    for op in ops:
        try:
            k = op[0]
            if k == 'r':
                out.append(('b', stream.read(op[1])))
            elif k == 'a':
                out.append(('b', stream.read(-1)))
            elif k == 'p':
                if is_wrapper:
                    out.append(('b', stream.peek(op[1])))
                else:
                    p = stream.tell()
                    out.append(('b', stream.read(op[1])))
                    stream.seek(p)
            elif k == 's':
                out.append(('n', stream.seek(op[1], os.SEEK_SET)))
            elif k == 'c':
                out.append(('n', stream.seek(-op[1], os.SEEK_CUR)))
            elif k == 'k':
                m = stream.markedPosition if is_wrapper else mk[0]
                out.append(('n', stream.seek(m, os.SEEK_SET)))
            elif k == 't':
                out.append(('n', stream.tell()))
            elif k == 'm':
                if is_wrapper:
                    stream.markedPosition = stream.tell()
                else:
                    mk[0] = stream.tell()
                out.append(('u',))
            elif k == 'g':
                out.append(('n', stream.markedPosition if is_wrapper else mk[0]))
        except Exception as e:  # noqa
            out.append(('x', type(e).__name__))
    return out


def fmt_out(o):
    if o[0] == 'b':
        return 'b:' + gen.hexs(o[1]) if o[1] is not None else 'None'
    if o[0] == 'n':
        return 'n:%d' % o[1]
    if o[0] == 'u':
        return 'u'
    return o[1]


def fmt_op(op):
    return '(%s %d)' % op if len(op) == 2 else op[0]


def model_wrap(unit, count, ops):
    ans = _CTX['drv'].ask('WRAP %s %d %s' % (gen.hexs(unit), count, ' '.join(fmt_op(o) for o in ops)))
    if not ans.startswith('ok '):
        raise common.MachineryError('driver WRAP: ' + ans[:200])
    w, r = ans[3:].split(' / ')
    return w.split(), r.split()


def check_history(rep, unit, count, ops, max_read=None):
    data = unit * count
    raw = streams.GrowingStream(seekable=False, max_read=max_read)
    raw.feed(data)
    raw.close_input()
    w = apply_real(streaming.CachingStreamWrapper(raw), ops, True)
    r = apply_real(io.BytesIO(data), ops, False)
    replay = {'kind': 'history', 'unit': unit.hex(), 'count': count, 'ops': [list(o) for o in ops]}
    rep.count('histories')
    rep.count('history-ops', len(ops))
    # the property: the wrapper behaves like a seekable stream over the same octets
    dropped = False
    base = 0
    pos_ref = 0
    for i, (a, b_) in enumerate(zip(w, r)):
        if a != b_:
            only_position = a[0] == 'n' and b_[0] == 'n'
            sig = 'S4-wrapper-renumber' if (only_position and dropped) else 'wrapper-output-differs'
            rep.fail(sig, 'op %d %s of a %d-op history over %d octets: wrapper %s, seekable stream %s' % (
                i, fmt_op(ops[i]), len(ops), len(data), fmt_out(a)[:60], fmt_out(b_)[:60]),
                dict(replay, first_difference=i))
            if sig != 'S4-wrapper-renumber':
                return
            rep.count('S4-observed-history')
            break
        # track drops on the reference side (mark set more than B octets after the current base)
        if ops[i][0] == 'm':
            p = io_pos(r, ops, i)
            if p - base > B:
                base = p
                dropped = True
    if dropped:
        rep.count('histories-with-drop')
    # correspondence with the model: both machines, output by output
    mw, mr = model_wrap(unit, count, ops)
    rep.corr_checked += 1
    if mw != [fmt_out(x) for x in w]:
        rep.disagree('WRAP-wrapper', replay, first_diff(mw, [fmt_out(x) for x in w]), None)
    if mr != [fmt_out(x) for x in r]:
        rep.disagree('WRAP-reference', replay, first_diff(mr, [fmt_out(x) for x in r]), None)


def io_pos(outs, ops, i):
    """position of the reference stream after op i (recomputed from the outputs)"""
    pos = 0
    for j in range(i + 1):
        k = ops[j][0]
        o = outs[j]
        if k in ('r', 'a') and o[0] == 'b':
            pos += len(o[1])
        elif k in ('s', 'c', 'k') and o[0] == 'n':
            pos = o[1]
    return pos


def first_diff(a, b_):
    for i, (x, y) in enumerate(zip(a, b_)):
        if x != y:
            return {'index': i, 'model': x[:80], 'impl': y[:80]}
    return {'lengths': [len(a), len(b_)]}


def histories(rep, rng, n):
    for i in range(n):
        style = rng.random()
        if style < 0.3:
            size = rng.randrange(0, 64)
        elif style < 0.6:
            size = rng.choice([B - 1, B, B + 1, B + 2, 2 * B, 2 * B + 1])
        else:
            size = rng.randrange(B, 5 * B + 100)
        unit = pattern(251, rng.randrange(256))
        count = size // len(unit) + 1
        ops = gen_history(rng, len(unit) * count, rng.randrange(1, 60))
        rep.case('history %d %s' % (count, ' '.join(fmt_op(o) for o in ops)), nontrivial=len(ops) > 3)
        check_history(rep, unit, count, ops, max_read=None)


# ---------------------------------------------------------------------------------------------
# (B) the raw stream still growing: wrapper next to a growing seekable stream

def rfs(stream, n):
    """first answer of readFromStream(stream, n): octets, 'U' (underrun, stream rewound) or the exception class"""
    try:
        x = next(streaming.readFromStream(stream, n))
    except Exception as e:  # noqa
        return 'raise:' + type(e).__name__
    return 'U' if isinstance(x, error.SubstrateUnderrunError) else x


def growing_histories(rep, rng, n):
    """wrapper over a raw stream that is still growing, next to a growing seekable stream fed the same way.
    Raw read()/peek() answers are compared when reads are not capped (a capped read may legitimately come back
    with a different number of octets); readFromStream answers are compared always."""
    for _ in range(n):
        data = pattern(rng.randrange(1, 300), rng.randrange(256))
        mr = rng.choice([None, None, None, 1, 3, 16])
        raw = streams.GrowingStream(seekable=False, max_read=mr)
        ref = streams.GrowingStream(seekable=True, max_read=mr)
        w = streaming.CachingStreamWrapper(raw)
        fed = 0
        trace = []
        mark = 0
        ok = True
        rep.case('growing %d %s %d' % (len(data), mr, rng.randrange(1 << 30)), nontrivial=True)
        for step in range(rng.randrange(5, 60)):
            x = rng.random()
            if x < 0.3 and fed < len(data):
                k = rng.randrange(0, min(40, len(data) - fed) + 1)
                raw.feed(data[fed:fed + k])
                ref.feed(data[fed:fed + k])
                fed += k
                trace.append('feed %d' % k)
                continue
            if x < 0.34 and fed == len(data):
                raw.close_input()
                ref.close_input()
                trace.append('close')
                continue
            pos = ref.tell()
            try:
                if x < 0.5:
                    nn = rng.choice([0, 1, 2, 5, 17, 64])
                    a, b_ = rfs(w, nn), rfs(ref, nn)
                    trace.append('readFromStream %d' % nn)
                elif x < 0.7 and mr is None:
                    nn = rng.choice([0, 1, 2, 5, 17, 64])
                    a, b_ = w.read(nn), ref.read(nn)
                    trace.append('read %d' % nn)
                elif x < 0.8 and mr is None:
                    nn = rng.choice([1, 2, 5, 17])
                    a = w.peek(nn)
                    b_ = ref.read(nn)
                    ref.seek(pos)
                    trace.append('peek %d' % nn)
                elif x < 0.9 and pos > mark:
                    k = rng.randrange(1, pos - mark + 1)
                    a, b_ = w.seek(-k, os.SEEK_CUR), ref.seek(-k, os.SEEK_CUR)
                    trace.append('seek -%d' % k)
                elif x < 0.95:
                    w.markedPosition = w.tell()
                    mark = pos
                    a = b_ = None
                    trace.append('mark')
                else:
                    a, b_ = w.tell(), ref.tell()
                    trace.append('tell')
            except Exception as e:  # noqa
                rep.fail('wrapper-growing-' + type(e).__name__,
                         'wrapper over a growing stream: %s: %r' % (trace[-8:], e),
                         {'kind': 'growing-history', 'data': data.hex(), 'max_read': mr, 'trace': trace})
                ok = False
                break
            if a != b_:
                rep.fail('wrapper-growing-output-differs',
                         '%s: wrapper %r, growing seekable stream %r' % (trace[-8:], a, b_),
                         {'kind': 'growing-history', 'data': data.hex(), 'max_read': mr, 'trace': trace})
                ok = False
                break
        if ok:
            rep.count('growing-histories')


# ---------------------------------------------------------------------------------------------
# (C) whole decodes across substrate kinds

class SeekableRaw(io.RawIOBase):
    """a seekable stream that is not a BytesIO (generic end-of-stream path), complete and closed"""

    def __init__(self, data):
        io.RawIOBase.__init__(self)
        self._b = io.BytesIO(data)

    def readable(self):
        return True

    def seekable(self):
        return True

    def seek(self, *a):
        return self._b.seek(*a)

    def tell(self):
        return self._b.tell()

    def read(self, n=-1):
        return self._b.read(n)


class ContractStream(streams.GrowingStream):
    """GrowingStream whose read(-1) honours RawIOBase.readall: everything up to the end"""

    def read(self, n=-1):
        if n is None or n < 0:
            mr, self.max_read = self.max_read, None
            try:
                return streams.GrowingStream.read(self, n)
            finally:
                self.max_read = mr
        return streams.GrowingStream.read(self, n)


def complete_nonseekable(data, max_read=None):
    s = ContractStream(seekable=False, max_read=max_read)
    s.feed(data)
    s.close_input()
    return s


_FILE_N = [0]


def substrates(data, rng):
    """(name, factory) — each factory returns (substrate, closer)"""
    d = scratch()
    _FILE_N[0] += 1
    base = os.path.join(d, 'in%d' % (_FILE_N[0] % 8))

    def mk_file():
        with open(base + '.bin', 'wb') as fh:
            fh.write(data)
        f = open(base + '.bin', 'rb')
        return f, f.close

    def mk_gzip():
        with gzip.open(base + '.gz', 'wb', compresslevel=1) as fh:
            fh.write(data)
        f = gzip.open(base + '.gz', 'rb')
        return f, f.close

    def mk_zip():
        with zipfile.ZipFile(base + '.zip', 'w') as z:
            z.writestr('member', data)
        z = zipfile.ZipFile(base + '.zip')
        f = z.open('member')

        def close():
            f.close()
            z.close()
        return f, close

    def mk_unbuffered():
        with open(base + '.raw', 'wb') as fh:
            fh.write(data)
        f = open(base + '.raw', 'rb', buffering=0)
        return f, f.close
    def mk_after_header(opener, suffix, header=b'\x30\x03HDR'):
        """a seekable stream the caller has already read a header from: decoding starts where the stream stands"""
        def mk():
            path = base + suffix
            with opener(path, 'wb') as fh:
                fh.write(header + data)
            f = opener(path, 'rb')
            got = f.read(len(header))
            assert got == header

            return f, f.close
        return mk

    def mk_raw_after_header():
        f = SeekableRaw(b'\x05\x00\x05\x00' + data)
        f.read(4)
        return f, (lambda: None)

    def mk_pipe(header, how):
        """a buffered reader over an OS pipe (non-seekable); with a header the caller has consumed first, so that the
        reader's own read-ahead buffer already holds the start of the data"""
        import threading

        def mk():
            r, w = os.pipe()

            def feed():
                try:
                    with os.fdopen(w, 'wb') as fw:
                        fw.write(header + data)
                except (BrokenPipeError, OSError):
                    pass
            th = threading.Thread(target=feed, daemon=True)
            th.start()
            f = os.fdopen(r, 'rb')
            if header:
                if how == 'peek':
                    f.peek(len(header))
                got = f.read(len(header))
                assert got == header

            def close():
                try:
                    f.close()
                finally:
                    th.join(5)
            return f, close
        return mk

    def mk_socket():
        import socket
        import threading
        a, b_ = socket.socketpair()

        def feed():
            try:
                a.sendall(data)
            except OSError:
                pass
            finally:
                a.close()
        th = threading.Thread(target=feed, daemon=True)
        th.start()
        f = b_.makefile('rb')

        def close():
            try:
                f.close()
                b_.close()
            finally:
                th.join(5)
        return f, close
    nothing = lambda: None  # noqa
    mr = rng.choice([1, 7, 1000, B - 1])
    return [
        ('BytesIO', lambda: (io.BytesIO(data), nothing)),
        ('OctetString', lambda: (univ.OctetString(data), nothing)),
        ('Any', lambda: (univ.Any(data), nothing)),
        # values of named types (how every schema module declares X ::= OCTET STRING / ANY) and of tagged / constrained ones
        ('OctetString-subclass', lambda: (_NamedOctets(data), nothing)),
        ('Any-subclass', lambda: (_NamedAny(data), nothing)),
        ('OctetString-tagged', lambda: (univ.OctetString(data).subtype(implicitTag=tag.Tag(tag.tagClassContext, tag.tagFormatSimple, 3)), nothing)),
        ('Any-explicit-subclass-of-subclass', lambda: (_NamedAny2(data).subtype(explicitTag=tag.Tag(tag.tagClassContext, tag.tagFormatSimple, 1)), nothing)),
        ('file', mk_file),
        ('file-unbuffered', mk_unbuffered),
        ('gzip', mk_gzip),
        ('zip', mk_zip),
        ('seekable-raw', lambda: (SeekableRaw(data), nothing)),
        ('file-after-header-read', mk_after_header(open, '.hdr')),
        ('gzip-after-header-read', mk_after_header(lambda p_, m: gzip.open(p_, m, compresslevel=1) if 'w' in m else gzip.open(p_, m), '.hgz')),
        ('seekable-raw-after-header-read', mk_raw_after_header),
        ('nonseekable', lambda: (complete_nonseekable(data), nothing)),
        ('nonseekable-short-reads', lambda: (complete_nonseekable(data, mr), nothing)),
        ('pipe-buffered', mk_pipe(b'', None)),
        ('pipe-buffered-after-header-read', mk_pipe(b'HDR1', 'read')),
        ('pipe-buffered-after-header-peek', mk_pipe(b'\x00\x01\x02\x03\x04\x05\x06', 'peek')),
        ('socket-makefile', mk_socket),
    ]


class _NamedOctets(univ.OctetString):
    pass


class _NamedAny(univ.Any):
    pass


class _NamedAny2(_NamedAny):
    pass


NONSEEKABLE = ('nonseekable', 'nonseekable-short-reads', 'nonseekable-trickle', 'pipe-buffered', 'pipe-buffered-after-header-read',
               'pipe-buffered-after-header-peek', 'socket-makefile')


def one_shot(dec, substrate, spec, t):
    try:
        obj, rest = dec.decode(substrate, asn1Spec=spec)
    except RecursionError:
        return ('err', 'leak:RecursionError')
    except Exception as e:  # noqa
        return ('err', codec.classify(e))
    try:
        if t is not None:
            a = gen.val_sexp(gen.abstract(t, obj))
        else:
            a = '%s|%s' % (obj.__class__.__name__, obj.prettyPrint())
    except Exception as e:  # noqa
        a = 'not-a-value:%s' % e
    if not isinstance(rest, bytes):
        return ('ok', a, 'remainder-is-%s' % type(rest).__name__)
    return ('ok', a, rest.hex())


def trickle(dec, data, spec, t, rng):
    """the octets trickling in through a non-seekable stream, first item + the rest of the stream"""
    raw = ContractStream(seekable=False, max_read=rng.choice([None, 3, 500]))
    cuts = sorted(rng.sample(range(1, len(data)), min(len(data) - 1, rng.randrange(0, 6)))) if len(data) > 1 else []
    chunks = [data[a:b_] for a, b_ in zip([0] + cuts, cuts + [len(data)])]
    if rng.random() < 0.5:
        chunks.append(b'')
    sd = dec.StreamingDecoder(raw, asn1Spec=spec)
    it = iter(sd)
    fed = 0
    for _ in range(len(chunks) + 8):
        try:
            x = next(it)
        except StopIteration:
            return ('err', 'stop-without-object')
        except RecursionError:
            return ('err', 'leak:RecursionError')
        except Exception as e:  # noqa
            return ('err', codec.classify(e))
        if isinstance(x, error.SubstrateUnderrunError) or x is None:
            if x is None:
                return ('err', 'yielded-None')
            if fed < len(chunks):
                raw.feed(chunks[fed])
                fed += 1
                if fed == len(chunks):
                    raw.close_input()
            else:
                return ('err', 'stuck-underrun-after-close')
            continue
        try:
            a = gen.val_sexp(gen.abstract(t, x)) if t is not None else '%s|%s' % (x.__class__.__name__, x.prettyPrint())
        except Exception as e:  # noqa
            a = 'not-a-value:%s' % e
        # the remainder: what the stream still holds once everything has been delivered
        closed = fed == len(chunks)
        while fed < len(chunks):
            raw.feed(chunks[fed])
            fed += 1
        sub = sd._substrate
        rest = sub.read(-1) or b''
        if rest:
            sub.seek(-len(rest), os.SEEK_CUR)
        elif not closed:
            # nothing follows and the end has not been signalled yet: the iterator must wait, then stop
            try:
                x = next(it)
                if not isinstance(x, error.SubstrateUnderrunError):
                    return ('err', 'at-end-open-yielded-%s' % type(x).__name__)
                raw.close_input()
                x = next(it)
                return ('err', 'at-end-closed-yielded-%s' % type(x).__name__)
            except StopIteration:
                pass
            except Exception as e:  # noqa
                return ('err', 'at-end-' + codec.classify(e))
        raw.close_input()
        return ('ok', a, rest.hex())
    return ('err', 'stuck')


def element_starts(data):
    """(start, inside a definite-length constructed element) for every element of the first top-level
    element of `data`, in stream order; tolerant of truncated and damaged input (stops there)"""
    out = []

    def one(i, inside_def):
        out.append((i, inside_def))
        tag, j = wire.read_ident(data, i)
        ln, j = wire.read_len(data, j)
        if ln is None:
            if not tag[1]:
                raise wire.WireError('indefinite primitive')
            while data[j:j + 2] != b'\x00\x00':
                if j >= len(data):
                    raise wire.WireError('eof')
                j = one(j, inside_def)
            return j + 2
        if tag[1]:
            k = j
            while k < j + ln:
                if k >= len(data):
                    raise wire.WireError('eof')
                k = one(k, True)
            return k
        return j + ln
    complete = True
    try:
        one(0, False)
    except (wire.WireError, IndexError, RecursionError):
        complete = False
    return out, complete


def s4_region(data):
    """does a cache drop (mark set more than B octets after the last one) fall inside a definite-length
    constructed element?  -> (bool, drop positions, input is one complete element + tail)"""
    starts, complete = element_starts(data)
    base = 0
    hit = False
    drops = []
    for p, inside in starts:
        if p - base > B:
            base = p
            drops.append(p)
            hit = hit or inside
    return hit, drops, complete


def check_kinds(rep, rng, cdc, ts, t, spec, data, label):
    dec = codec.DEC[cdc]
    ref = one_shot(dec, data, spec, t)
    replay = {'kind': 'decode', 'codec': cdc, 'type': ts, 'bytes': data.hex() if len(data) <= 4096 else None,
              'octets': len(data), 'label': label}
    region = s4_region(data)
    results = []
    for name, mk in substrates(data, rng):
        sub, close = mk()
        try:
            got = one_shot(dec, sub, spec, t)
        finally:
            try:
                close()
            except Exception:  # noqa
                pass
        results.append((name, got))
    results.append(('nonseekable-trickle', trickle(dec, data, spec, t, rng)))
    for name, got in results:
        rep.count('decodes-' + name)
        same = got == ref or (got[0] == 'err' and ref[0] == 'err' and got[1] == ref[1])
        if same:
            continue
        if name in NONSEEKABLE and region[0]:
            rep.count('S4-observed-' + name)
            rep.fail('S4-wrapper-renumber',
                     '%s, %d octets, drop at %s inside a definite-length container: as bytes -> %s, from a %s stream -> %s' % (
                         label, len(data), region[1][:3], short(ref), name, short(got)),
                     dict(replay, substrate=name, drops=region[1][:5]))
            continue
        rep.fail('kind-%s-%s' % (name, got[1].replace(':', '-') if got[0] == 'err' else 'differs'),
                 '%s, %d octets: as bytes -> %s, as %s -> %s' % (label, len(data), short(ref), name, short(got)),
                 dict(replay, substrate=name))
    # the model and the structural signature agree on where S4 applies (framing level)
    if region[2] and ref[0] == 'ok' and (len(data) <= 600 or (len(data) <= 2 * B + 400 and _CTX['model_large'] > 0)):
        drv = _CTX['drv']
        if len(data) > 600:
            _CTX['model_large'] -= 1
        k3 = drv.ask('STREAM K3 %s %s (%d)' % (cdc, gen.hexs(data), len(data)))
        k4 = drv.ask('STREAM K4 %s %s (%d)' % (cdc, gen.hexs(data), len(data)))
        rep.corr_checked += 1
        strip = lambda s: [x.split('@')[0] + ('' if x.startswith('V') else '') for x in s.split()[1:]]  # noqa
        deviates = strip(k3) != strip(k4)
        if deviates != region[0]:
            rep.disagree('STREAM-S4-region', replay, {'model_deviates': deviates, 'k3': k3[-60:], 'k4': k4[-60:]},
                         {'harness_region': region[0], 'drops': region[1][:5]})
        if region[0]:
            rep.count('decodes-in-S4-region')
    return ref


def short(r):
    return tuple(str(x)[:60] for x in r)


# --- inputs

def large_cases(rng, n):
    """(label, codec, type, value): elements 1-5x the buffer, deep and wide"""
    out = []
    for i in range(n):
        size = rng.choice([B - 20, B, B + 1, B + 300, 2 * B, 2 * B + 7, 3 * B, 5 * B])
        shape = rng.choice(['big-string', 'wide', 'wide-small', 'deep', 'record', 'two-level', 'any-after-big'])
        if shape == 'big-string':
            t = ('str', 4)
            v = ('s', pattern(size, i))
        elif shape == 'wide':
            m = rng.choice([50, 100, 1000])
            t = ('seqof', ('str', 4))
            v = ('of', [('s', pattern(m, j)) for j in range(size // m + 1)])
        elif shape == 'wide-small':
            t = ('seqof', ('int',))
            v = ('of', [('i', j * 37 % 100000) for j in range(size // 4)])
        elif shape == 'deep':
            depth = rng.randrange(2, 7)
            t = ('str', 4)
            v = ('s', pattern(size // 2, i))
            for _ in range(depth):
                t = ('seqof', t)
                v = ('of', [v, v] if len(gen.val_sexp(v)) < 6 * size else [v])
        elif shape == 'record':
            t = ('seq', [('r', None, ('str', 4)), ('r', None, ('int',)), ('o', None, ('seqof', ('int',))),
                         ('r', None, ('tag', 'e', 'c', 5, ('str', 4)))])
            v = ('seq', [('s', pattern(size // 2, i)), ('i', 77), ('of', [('i', j) for j in range(50)]),
                         ('s', pattern(size // 2, i + 1))])
        elif shape == 'any-after-big':
            # AnyPayloadDecoder goes back to the mark: right after a cache drop on a non-seekable stream
            t = ('seq', [('r', None, ('str', 4)), ('r', None, ('any',)), ('r', None, ('tag', 'e', 'c', 1, ('any',)))])
            v = ('seq', [('s', pattern(size, i)), ('any', bytes.fromhex('0203010001')), ('any', bytes.fromhex('0101ff'))])
        else:
            t = ('seqof', ('seq', [('r', None, ('int',)), ('r', None, ('str', 4))]))
            v = ('of', [('seq', [('i', j), ('s', pattern(200, j))]) for j in range(size // 200 + 1)])
        mode = rng.choice([('ber', True, 0), ('ber', False, 0), ('ber', True, 1000), ('ber', False, 1000),
                           ('cer', False, 1000), ('der', True, 0)])
        out.append(('%s/%s' % (shape, 'def' if mode[1] else 'indef'), mode, t, v))
    return out


def check_read_size_boundary(rep, rng, quick):
    """elements around MAX_READ_SIZE (the most readFromStream asks of a stream in one call; 128 buffers): the same octets on every
    kind of input, without a guiding type, captured whole by an untagged ANY (which goes back to the mark over everything it has
    read), and as the ANY member of an indefinite-length record"""
    from pyasn1.codec import streaming
    M = streaming.MAX_READ_SIZE
    sizes = (M - 1, M + 1) if quick else (M - 5, M - 1, M, M + 1, M + 100005, 2 * M + 3)
    for total in sizes:
        n = total - 5                       # 04 83 xx xx xx + n octets = `total` octets
        elem = b'\x04\x83' + n.to_bytes(3, 'big') + pattern(n, total % 7)
        any_t = ('any',)
        rec_t = ('seq', [('r', None, ('int',)), ('r', None, ('any',))])
        for label, ts, t, data in (
                ('string', None, None, elem + b'\x02\x01\x07'),
                ('untagged ANY', '(any)', any_t, elem + b'\x02\x01\x07'),
                ('ANY member of an indefinite record', gen.ty_sexp(rec_t), rec_t, b'\x30\x80\x02\x01\x05' + elem + b'\x00\x00'),
                ('untagged ANY, truncated', '(any)', any_t, elem[:-3])):
            rep.case('read-size boundary: %s of %d octets' % (label, total), nontrivial=True)
            rep.count('read-size-boundary')
            check_kinds(rep, rng, 'ber', ts, t, gen.build(t) if t else None, data, 'element of %d octets (MAX_READ_SIZE%+d): %s' % (total, total - M, label))


def decode_cases(rep, rng, n_small, n_large):
    # small generated values, all encoder modes; plus damaged variants of each
    for case in engine.gen_cases(rng, n_small, max_depth=2, allow_any=True):
        if not engine.representable(case):
            continue
        mode = rng.choice([('ber', True, 0), ('ber', False, 0), ('ber', False, 3), ('cer', False, 1000), ('der', True, 0)])
        ie = codec.impl_encode(mode[0], case.t, case.v, mode[1], mode[2], obj=case.fresh_obj())
        if ie[0] != 'ok':
            continue
        ts = gen.ty_sexp(case.t)
        rep.case(ts + ' ' + ie[1].hex(), nontrivial=gen.nontrivial(case.t),
                 sample={'type': ts[:200], 'codec': mode[0], 'octets': len(ie[1])})
        tail = rng.choice([b'', b'', b'\x05\x00', b'\x00\x00', bytes(rng.randrange(256) for _ in range(rng.randrange(1, 6)))])
        check_kinds(rep, rng, mode[0], ts, case.t, case.schema, ie[1] + tail, 'generated+tail')
        # invalid octets: truncated, corrupted
        x = rng.random()
        if len(ie[1]) > 1 and x < 0.5:
            check_kinds(rep, rng, mode[0], ts, case.t, case.schema, ie[1][:rng.randrange(1, len(ie[1]))], 'truncated')
        elif x < 0.8:
            bad = bytearray(ie[1])
            bad[rng.randrange(len(bad))] ^= 1 << rng.randrange(8)
            check_kinds(rep, rng, mode[0], ts, case.t, case.schema, bytes(bad), 'corrupted')
    for label, mode, t, v in large_cases(rng, n_large):
        obj = gen.build_value(t, v)
        ie = codec.impl_encode(mode[0], t, v, mode[1], mode[2], obj=obj)
        if ie[0] != 'ok':
            rep.count('large-encode-refused')
            continue
        ts = gen.ty_sexp(t)
        data = ie[1] + rng.choice([b'', b'\x05\x00', b'\x02\x01\x07'])
        rep.case('large %s %s %d' % (label, ts, len(data)), nontrivial=True,
                 sample={'label': label, 'type': ts[:120], 'codec': mode[0], 'octets': len(data)})
        rep.count('large-%s' % label)
        schema = gen.build(t)
        check_kinds(rep, rng, mode[0], ts, t, schema, data, 'large ' + label)
        # the same octets captured whole by an untagged ANY (the ANY decoder goes back over what it has read)
        any_t = ('any',)
        rep.case('large-as-any %s %s %d' % (label, ts, len(data)), nontrivial=True)
        rep.count('large-as-any')
        check_kinds(rep, rng, mode[0], '(any)', any_t, gen.build(any_t), data, 'large as ANY ' + label)
        if rng.random() < 0.3:
            check_kinds(rep, rng, mode[0], ts, t, schema, data[:len(data) - rng.randrange(1, 40)], 'large truncated ' + label)


# ---------------------------------------------------------------------------------------------
# (D) the stream helpers on every kind, (E) unsupported substrates

def take(genr, n=6):
    out = []
    try:
        for i, x in enumerate(genr):
            if i >= n:
                out.append('...')
                break
            out.append('U' if isinstance(x, error.SubstrateUnderrunError) else x)
    except Exception as e:  # noqa
        out.append('raise:' + ('EndOfStreamError' if isinstance(e, error.EndOfStreamError) else type(e).__name__))
    return out


def helper_script(rng, size):
    ops = []
    for _ in range(rng.randrange(3, 14)):
        x = rng.random()
        n = rng.choice([0, 1, 2, 3, 10, size // 2, size - 1, size, size + 1, B, B + 1, 2 * B])
        if x < 0.4:
            ops.append(('read', max(n, 0)))
        elif x < 0.8:
            ops.append(('peek', max(n, 0)))
        else:
            ops.append(('eos',))
    return ops


def run_helpers(sub, ops):
    s = streaming.asSeekableStream(sub)
    out = []
    for op in ops:
        if op[0] == 'read':
            out.append(take(streaming.readFromStream(s, op[1])))
        elif op[0] == 'peek':
            out.append(take(streaming.peekIntoStream(s, op[1])))
        else:
            out.append(take(streaming.isEndOfStream(s)))
    return out


def check_helpers(rep, rng, n):
    for _ in range(n):
        size = rng.choice([0, 1, 5, 300, B - 1, B, B + 1, 2 * B + 5])
        salt = rng.randrange(256)
        data = pattern(size, salt)
        ops = helper_script(rng, size)
        ref = run_helpers(data, ops)
        rep.case('helpers %d %s' % (size, ops), nontrivial=True)
        for name, mk in substrates(data, rng):
            if name.startswith(('OctetString', 'Any')):
                continue
            sub, close = mk()
            try:
                got = run_helpers(sub, ops)
            except Exception as e:  # noqa
                got = ['raise:' + type(e).__name__]
            finally:
                try:
                    close()
                except Exception:  # noqa
                    pass
            rep.count('helper-scripts-' + name)
            if got != ref:
                i = next((j for j, (a, b_) in enumerate(zip(got, ref)) if a != b_), 0)
                rep.fail('helpers-%s-%s' % (name, ops[i][0] if i < len(ops) else 'x'),
                         '%d octets as %s: %s -> %s, as bytes -> %s' % (
                             size, name, ops[i] if i < len(ops) else ops, str(got[i] if i < len(got) else got)[:80],
                             str(ref[i] if i < len(ref) else ref)[:80]),
                         {'kind': 'helpers', 'size': size, 'salt': salt, 'ops': [list(o) for o in ops], 'substrate': name})


def check_unsupported(rep):
    from pyasn1.codec.ber import decoder
    for obj in (u'abc', 5, None, [5, 0], bytearray(b'\x05\x00'), object()):
        rep.case('unsupported %s' % type(obj).__name__)
        try:
            decoder.decode(obj)
            r = 'accepted'
        except error.UnsupportedSubstrateError:
            r = 'UnsupportedSubstrateError'
        except Exception as e:  # noqa
            r = type(e).__name__
        if r != 'UnsupportedSubstrateError':
            rep.fail('unsupported-substrate-' + r, 'decode(%r) -> %s' % (obj, r), {'kind': 'unsupported', 'object': repr(obj)})


# ---------------------------------------------------------------------------------------------

CORPUS_HISTORIES = [
    # S4 as the model's theorem states it: read B+1, set the mark, ask for the position
    (pattern(251), 40, [('r', B + 1), ('m',), ('t',)]),
    # a peek larger than the buffer, then reads straddling it (tests/codec/test_streaming.py testPeek)
    (pattern(251), 60, [('p', B + 73), ('t',), ('r', 4), ('c', 2), ('r', B), ('k',), ('a',)]),
    (pattern(7), 3, [('r', 6), ('s', 3), ('r', 4), ('t',)]),
]

CORPUS_RAW = [
    # absurd length: MemoryError from files / gzip readers, EndOfStreamError from bytes (repaired)
    ('absurd length', 'ber', None, '0485ffffffffff6162'),
    # no octets at all: the same insufficient-data answer from every kind (an empty OCTET STRING / ANY object included)
    ('empty input', 'ber', None, ''), ('empty input', 'der', None, ''), ('empty input', 'cer', 'int', ''),
    ('one octet', 'ber', None, '30'), ('two octets', 'der', 'int', '0201'),
]

def _definite_around_indefinite(n, tail=b''):
    """a definite-length SEQUENCE { INTEGER 5, OCTET STRING in the constructed indefinite form with one chunk of n octets }:
    the end-of-octets of the inner element lies more than a buffer into the stream, inside a definite-length frame"""
    chunk = b'\x04\x82' + n.to_bytes(2, 'big') + pattern(n, 3)
    inner = b'\x24\x80' + chunk + b'\x00\x00'
    body = b'\x02\x01\x05' + inner
    return (b'\x30\x82' + len(body).to_bytes(2, 'big') + body + tail).hex()


CORPUS_RAW += [('definite frame around an indefinite element ending beyond the buffer (%d)' % n_, 'ber', None, _definite_around_indefinite(n_, tl_))
               for n_, tl_ in ((8152, b''), (8178, b''), (8300, b''), (8300, b'\x05\x00'), (20000, b'\x02\x01\x07'))]
CORPUS_RAW += [('explicit tag (definite) around an indefinite element ending beyond the buffer', 'ber', None,
                (b'\xa3\x82' + (8300 + 8).to_bytes(2, 'big') + b'\x24\x80\x04\x82' + (8300).to_bytes(2, 'big') + pattern(8300, 5) + b'\x00\x00').hex())]

CORPUS_DECODES = [
    # S4 on the real code: a definite SEQUENCE OF of 100-octet strings, 9 KiB, from a non-seekable stream
    ('S4 witness', ('ber', True, 0), ('seqof', ('str', 4)), ('of', [('s', pattern(98, j)) for j in range(92)])),
    # the same in indefinite form decodes on every kind
    ('indefinite 9 KiB', ('ber', False, 0), ('seqof', ('str', 4)), ('of', [('s', pattern(98, j)) for j in range(92)])),
]


def run(rep, tier, seed):
    common.prove(rep)
    rng = common.rng_for(seed, 'C11')
    drv = common.Driver()
    _CTX['drv'] = drv
    quick = tier == 'quick'
    _CTX['model_large'] = 12 if quick else 300
    # read, peek and the markedPosition setter of CachingStreamWrapper are translated from the source on every run
    # (gen/py2lean.py -> GenK.wrapRead / wrapPeek / wrapSetMark) and proved to be the steps of the wrapper model
    # (Props/C11 source_wrapper_*); the translations - and PyLite's transcription of io.BytesIO - are run against the real
    # objects here
    from harness import kernels
    kernels.obligations(rep, ['wrapRead', 'wrapPeek', 'wrapSetMark'])
    kernels.check(rep, drv, seed, 200 if quick else 8000, which=('streamWrapper',))
    rep.rule = ('(A) random op histories (<=60 ops from read n / read(-1) / peek n / seek to >= mark / seek back / seek to mark / '
                'set mark / tell / get mark, sizes straddling multiples of %d) on CachingStreamWrapper vs io.BytesIO vs the model; '
                '(B) the same over a growing raw stream vs a growing seekable stream; (C) one-shot decodes of the same octets as bytes, '
                'BytesIO, OctetString, Any, file, unbuffered file, gzip, zip member, seekable raw, non-seekable raw (complete / capped '
                'reads / trickling through the streaming decoder): generated values of depth<=2 with tails, truncations, bit flips; '
                'large values (1-5x the buffer; big string, wide, deep (<=6), records; definite, indefinite, chunked, CER, DER); '
                '(D) readFromStream/peekIntoStream/isEndOfStream scripts on every kind; (E) unsupported substrates' % B)
    rep.assumptions = ['CPython io / gzip / zipfile and OS files are trusted to be byte streams honouring the io contract',
                       'real pipes and sockets are not exercised; single thread',
                       'the non-seekable double honours RawIOBase: read(-1) returns everything up to the end']
    for unit, count, ops in CORPUS_HISTORIES:
        rep.case('corpus history %s' % (ops,))
        check_history(rep, unit, count, ops)
    for label, mode, t, v in CORPUS_DECODES:
        ie = codec.impl_encode(mode[0], t, v, mode[1], mode[2], obj=gen.build_value(t, v))
        rep.case('corpus decode ' + label)
        check_kinds(rep, rng, mode[0], gen.ty_sexp(t), t, gen.build(t), ie[1] + b'\x05\x00', label)
    for label, cdc, ts, hx in CORPUS_RAW:
        rep.case('corpus raw ' + label)
        check_kinds(rep, rng, cdc, ts, None, None, bytes.fromhex(hx), label)
    check_unsupported(rep)
    check_read_size_boundary(rep, rng, quick)
    histories(rep, rng, 800 if quick else 16000)
    growing_histories(rep, rng, 800 if quick else 16000)
    check_helpers(rep, rng, 100 if quick else 2000)
    decode_cases(rep, rng, 400 if quick else 8000, 100 if quick else 2000)
    rep.extra['driver_requests'] = drv.n
    drv.close()


def replay(path):
    d = json.load(open(path))
    print(json.dumps(d, indent=1)[:5000])
    drv = common.Driver()
    _CTX['drv'] = drv
    for f in d.get('failures', [])[:3]:
        r = f.get('replay', {})
        if r.get('kind') == 'history':
            unit, count = bytes.fromhex(r['unit']), r['count']
            ops = [tuple(o) for o in r['ops']]
            raw = complete_nonseekable(unit * count)
            w = apply_real(streaming.CachingStreamWrapper(raw), ops, True)
            ref = apply_real(io.BytesIO(unit * count), ops, False)
            for i, (a, b_) in enumerate(zip(w, ref)):
                if a != b_:
                    print('op', i, fmt_op(ops[i]), 'wrapper', fmt_out(a)[:80], 'seekable', fmt_out(b_)[:80])
            mw, mr = model_wrap(unit, count, ops)
            print('model wrapper == real wrapper:', mw == [fmt_out(x) for x in w],
                  ' model reference == real BytesIO:', mr == [fmt_out(x) for x in ref])
        elif r.get('kind') == 'decode' and r.get('bytes'):
            t = sexp_types.ty_of_sexp(gen.parse_sexps(r['type'])[0]) if r.get('type') else None
            spec = gen.build(t) if t is not None else None
            data = bytes.fromhex(r['bytes'])
            rng = common.rng_for(0, 'replay')
            dec = codec.DEC[r['codec']]
            print('bytes      ->', short(one_shot(dec, data, spec, t)))
            for name, mk in substrates(data, rng):
                sub, close = mk()
                print('%-24s ->' % name, short(one_shot(dec, sub, spec, t)))
                close()
            print('%-24s ->' % 'nonseekable-trickle', short(trickle(dec, data, spec, t, rng)))
            print('S4 signature (drop inside a definite-length container, drops, complete):', s4_region(data))
        elif r.get('kind') == 'helpers':
            data = pattern(r['size'], r.get('salt', 0))
            ops = [tuple(o) for o in r['ops']]
            print('bytes ->', run_helpers(data, ops))
            for name, mk in substrates(data, common.rng_for(0, 'replay')):
                if name == r.get('substrate'):
                    sub, close = mk()
                    print(name, '->', run_helpers(sub, ops))
                    close()
        else:
            print('(no re-execution for this kind of replay: the recorded trace above is complete)')
    drv.close()
    return 0
