"""C13 — tags on the wire are exactly the type's tags (DESIGN §5 C13)."""
import json

from harness import common, gen, codec, wire, sigs
from pyasn1 import error
from pyasn1.type import tag as ptag
from pyasn1.codec.ber import encoder as ber_encoder
from pyasn1.codec.ber import decoder as ber_decoder

NUMS = [0, 1, 30, 31, 127, 128, 16383, 16384, 2 ** 32, 2 ** 64 + 1, 2 ** 61 - 2, 2 ** 61 - 1, 2 ** 61, 2 ** 63, 2 ** 70 - 1, 2 ** 70, 2 ** 200 + 5]
# numbers that collide under the interpreter's integer hash (mod 2**61 - 1) or under 32/64-bit truncation: a near miss
# that differs from n by one of these must still be refused
COLLIDERS = [2 ** 61 - 1, 2 * (2 ** 61 - 1), 2 ** 32, 2 ** 64, 128, 2 ** 7 * 3]
BASES = [('bool',), ('int',), ('enum',), ('bits',), ('null',), ('oid',), ('real',), ('str', 4), ('str', 12),
         ('str', 22), ('str', 30), ('seq', [('r', None, ('int',))]), ('set', [('r', None, ('null',))]),
         ('seqof', ('bool',)), ('setof', ('int',)),
         ('choice', [('r', None, ('int',)), ('r', None, ('bool',))])]


def tag_stack(rng, depth):
    out = []
    for _ in range(depth):
        out.append((rng.choice('ei'), rng.choice('acp'), rng.choice(NUMS) if rng.random() < 0.7 else rng.randrange(40)))
    return out


def apply_stack(base, stack):
    t = base
    for mode, cls, num in stack:
        if base[0] in ('choice',) and mode == 'i' and t is base:
            mode = 'e'
        t = ('tag', mode, cls, num, t)
    return t


def perturb(rng, t, pos):
    """change class or number of the pos-th tagging (counted from the outside)"""
    chain = []
    x = t
    while x[0] == 'tag':
        chain.append(x)
        x = x[4]
    tg = chain[pos]
    if rng.random() < 0.5:
        cls = rng.choice([c for c in 'acp' if c != tg[2]])
        new = ('tag', tg[1], cls, tg[3], tg[4])
    else:
        num = tg[3] + rng.choice([1, 2, 31, 128] + COLLIDERS) if rng.random() < 0.8 or tg[3] == 0 else tg[3] - 1
        new = ('tag', tg[1], tg[2], num, tg[4])
    # rebuild
    inner = new[4]
    rebuilt = new
    for outer in reversed(chain[:pos]):
        rebuilt = ('tag', outer[1], outer[2], outer[3], rebuilt)
    return rebuilt


def expected_idents(t):
    """identifier (cls, num) sequence outermost -> innermost"""
    return [(c, n) for (c, _, n) in reversed(gen.tags_of(t))]


def walk_idents(b, count):
    out = []
    i = 0
    for _ in range(count):
        (cls, cons, num), i = wire.read_ident(b, i)
        ln, i = wire.read_len(b, i)
        out.append((cls, cons, num))
    return out


def check_alias_classes(rep, rng, n):
    """types the codec tables do not list by type id - the public alias classes (T61String = TeletexString, ISO646String =
    VisibleString) and user subclasses that give themselves a type id: the codecs find them through the base tag, under any
    tag stack; their encodings are those of the parent class under the same stack, and they round-trip"""
    from pyasn1.type import char, univ, tag as ptag_
    from pyasn1.codec.ber import encoder as benc_, decoder as bdec_
    from pyasn1.codec.der import encoder as denc_, decoder as ddec_

    class OwnIdInteger(univ.Integer):
        typeId = univ.Integer.getTypeId()

    class OwnIdOctets(univ.OctetString):
        typeId = univ.OctetString.getTypeId()
    pairs = [(char.T61String, char.TeletexString, 'abc'), (char.ISO646String, char.VisibleString, 'xyz'),
             (OwnIdInteger, univ.Integer, 300), (OwnIdOctets, univ.OctetString, b'\x01\x02')]
    CLS_ = {'a': ptag_.tagClassApplication, 'c': ptag_.tagClassContext, 'p': ptag_.tagClassPrivate}
    for _ in range(n):
        stack = tag_stack(rng, rng.choice([0, 1, 1, 2, 3]))
        for alias, parent, payload in pairs:
            a_t, p_t = alias(), parent()
            for mode, cls, num in stack:
                tg = ptag_.Tag(CLS_[cls], ptag_.tagFormatSimple, num)
                kw = {'explicitTag': tg} if mode == 'e' else {'implicitTag': tg}
                a_t, p_t = a_t.subtype(**kw), p_t.subtype(**kw)
            rep.evaluations += 1
            rep.count('alias-classes')
            case = {'kind': 'alias-class', 'class': alias.__name__, 'stack': [list(x) for x in stack]}
            for ename, em, dm in (('ber', benc_, bdec_), ('der', denc_, ddec_)):
                try:
                    want = em.encode(p_t.clone(payload))
                    got = em.encode(a_t.clone(payload))
                    got2 = em.encode(payload, asn1Spec=a_t)
                    back, rest = dm.decode(got, asn1Spec=a_t)
                    ok = got == want and got2 == want and rest == b'' and back == a_t.clone(payload) and type(back) is type(a_t)
                    what = 'alias %s, value+schema %s, parent %s' % (got.hex(), got2.hex(), want.hex())
                except Exception as ex:  # noqa
                    ok, what = False, repr(ex)
                if not ok:
                    rep.fail('alias-class-' + ename, '%s under %s: %s' % (alias.__name__, stack, what[:200]), dict(case, codec=ename))
                    break


def run(rep, tier, seed):
    common.prove(rep)
    rng = common.rng_for(seed, 'C13')
    drv = common.Driver()
    n_cases = 1200 if tier == 'quick' else 40000
    rep.rule = ('base type x tag stack depth 0..4 over classes {a,c,p} x boundary numbers x {implicit,explicit}; '
                'non-trivial = stack depth >= 1; distinct by (type, value)')
    rep.assumptions = ['text codecs of character strings trusted', 'correspondence covers the cases run only']
    g = gen.Gen(rng, max_depth=1)
    from harness import kernels
    kernels.obligations(rep, ['encodeTag', 'encodeLength', 'wrapTags'])
    kernels.check(rep, drv, seed, 400 if tier == 'quick' else 20000, which=('encodeTag', 'wrapTags', 'decodeTag'))

    # ---- correspondence: identifier octets of single tags, model vs code
    enc = ber_encoder.AbstractItemEncoder()
    for cls in 'uacp':
        for num in NUMS + [2, 29, 32, 255, 256]:
            for fmt in (0, 0x20):
                for ic in (False, True):
                    impl = bytes(enc.encodeTag(ptag.Tag(gen.CLS[cls], fmt, num), ic))
                    ans = drv.ask('TAGENC %s %s %d %d' % (cls, 'c' if fmt else 'p', num, 1 if ic else 0))
                    rep.corr_checked += 1
                    if ans != 'ok ' + impl.hex():
                        rep.disagree('TAGENC', [cls, fmt, num, ic], ans, impl.hex())
                    back = drv.ask('TAGDEC %s' % (impl + b'\x05\x00').hex())
                    want = 'ok %s%s%d 0500' % (cls, 'c' if (fmt or ic) else 'p', num)
                    if back != want:
                        rep.disagree('TAGDEC', impl.hex(), back, want)

    rep.case('alias classes', nontrivial=True)
    check_alias_classes(rep, common.rng_for(seed, 'C13', 'alias'), 60 if tier == 'quick' else 2000)
    for n in range(n_cases):
        base = rng.choice(BASES)
        depth = rng.choice([0, 1, 1, 2, 2, 3, 4])
        stack = tag_stack(rng, depth)
        t = apply_stack(base, stack)
        if depth >= 1 and rng.random() < 0.35:
            # siblings: two members of one record whose stacks differ in one number only (same class and
            # form, so that their identifiers share the leading octet when the numbers are >= 31)
            mode, cls, num = stack[-1]
            other = stack[:-1] + [(mode, cls, num + rng.choice([1, 2, 97]))]
            t = (rng.choice(['seq', 'set']), [('r', None, t), ('r', None, apply_stack(base, other))])
            if rng.random() < 0.5:
                t = ('seqof', t)
            stack = []
            depth = 0
            siblings = True
        else:
            siblings = False
        if not gen.wf(t):
            continue
        v = g.val(t)
        canon = gen.ty_sexp(t) + ' ' + gen.val_sexp(v)
        rep.case(canon, nontrivial=depth >= 1 or siblings, sample={'type': gen.ty_sexp(t), 'value': gen.val_sexp(v)})
        if siblings:
            rep.count('siblings')
        rep.count('depth=%d' % depth)
        rep.count('base=' + base[0])
        replay = {'kind': 'tags', 'type': gen.ty_sexp(t), 'value': gen.val_sexp(v)}
        # --- tag algebra: model tag set == pyasn1 tag set
        try:
            schema = gen.build(t)
        except Exception as e:  # noqa
            rep.fail('build:' + type(e).__name__, 'cannot build type: %s' % e, replay)
            continue
        impl_tags = [(gen.CLS_INV[x.tagClass], bool(x.tagFormat), x.tagId) for x in schema.tagSet.superTags]
        ans = drv.ask('TAGS ' + gen.ty_sexp(t))
        model_tags = [(s[0], s[1] == 'c', int(s[2:])) for s in ans.split()[1:]]
        rep.corr_checked += 1
        if impl_tags != model_tags:
            rep.disagree('TAGS', gen.ty_sexp(t), model_tags, impl_tags)
        # tag algebra laws on the implementation
        want = gen.tags_of(t)
        if impl_tags != want:
            rep.fail('tag-algebra', 'tagSet %r differs from the algebra %r' % (impl_tags, want), replay)
            continue
        # --- identifier octets on the wire, definite and indefinite mode
        for defMode in (True, False):
            r = codec.impl_encode('ber', t, v, defMode, 0)
            if r[0] != 'ok':
                rep.fail('encode-refused:' + str(r[1]), 'encoder refused a valid value', dict(replay, defMode=defMode))
                continue
            b = r[1]
            exp = expected_idents(t)
            if exp:
                try:
                    got = walk_idents(b, len(exp))
                except Exception as e:  # noqa
                    rep.fail('identifier-walk', 'cannot walk identifiers: %s' % e, dict(replay, bytes=b.hex()))
                    continue
                if [(c, n) for c, _, n in got] != exp:
                    rep.fail('identifiers-differ', 'identifier octets %r, type tags %r' % (got, exp),
                             dict(replay, bytes=b.hex(), defMode=defMode))
                    continue
                # constructed bit: explicit wrappers (all but the innermost) and constructed contents only
                for (c, cons, n_) in got[:-1]:
                    if not cons:
                        rep.fail('wrapper-not-constructed', 'explicit wrapper %s%d primitive' % (c, n_),
                                 dict(replay, bytes=b.hex()))
                inner_cons = got[-1][1]
                bk = gen.base_of(t)[0]
                if bk in ('seq', 'set', 'seqof', 'setof', 'choice') and not inner_cons:
                    rep.fail('constructed-bit-missing', 'constructed contents under a primitive identifier',
                             dict(replay, bytes=b.hex()))
                if bk in ('bool', 'int', 'enum', 'null', 'oid', 'real', 'bits', 'str') and inner_cons:
                    rep.fail('constructed-bit-spurious', 'primitive contents under a constructed identifier',
                             dict(replay, bytes=b.hex()))
            # --- accepted by its own type
            d = codec.impl_decode('ber', t, b, schema)
            if d[0] != 'ok' or not gen.val_equiv(t, d[1], v) or d[2] != b'':
                sig = 'E1-stray-eoo' if (not defMode and wire.e1_applies(t, v)) else 'own-type-rejects'
                rep.fail(sig, 'decoding with the encoding type: %r' % (d[:3],), dict(replay, bytes=b.hex(), defMode=defMode))
            # --- the tags on the wire are the type's, however the value reaches the encoder: as a value object of the type, or
            # as a value object of the bare (untagged) base type handed over together with the type
            if defMode and t[0] == 'tag' and gen.base_of(t)[0] not in ('choice', 'any'):
                try:
                    bare_t = gen.base_of(t)
                    bare = gen.build_value(bare_t, v)
                    b_bare = bytes(ber_encoder.encode(bare, asn1Spec=schema))
                    rep.count('bare-value-with-type')
                    if b_bare != b:
                        rep.fail('bare-value-with-type', 'a value object of the untagged base type encoded with asn1Spec=<the tagged type> gives %s, '
                                 'the value object of the type %s' % (b_bare.hex()[:80], b.hex()[:80]), dict(replay, bytes=b_bare.hex()))
                except error.PyAsn1Error:
                    # a refusal emits no identifier octets: not a matter of this property (seen for REAL +-inf, which
                    # Real.clone() cannot take over from another Real object)
                    rep.count('bare-value-with-type-refused')
                except Exception as e:  # noqa
                    rep.fail('bare-value-with-type:' + codec.classify(e), 'encoding a base-type value object under the tagged type: %r' % (e,), replay)
            # --- deriving sibling types from the same type object leaves the tags it stamps on its values alone
            if defMode:
                try:
                    schema.subtype(implicitTag=ptag.Tag(ptag.tagClassPrivate, ptag.tagFormatSimple, 77))
                    schema.subtype(explicitTag=ptag.Tag(ptag.tagClassApplication, ptag.tagFormatConstructed, 78))
                    schema.clone()
                    b2 = bytes(ber_encoder.encode(gen.build_value(t, v, schema)))
                    o3, rest3 = ber_decoder.decode(b, asn1Spec=schema)
                    b3 = bytes(ber_encoder.encode(o3))
                except Exception as e:  # noqa
                    b2 = b3 = repr(e).encode()
                rep.count('after-siblings')
                if b2 != b:
                    rep.fail('tags-after-deriving-siblings', 'a value built from the type object after sibling types were derived '
                             'from it encodes as %s, from a fresh type object %s' % (b2.hex()[:80], b.hex()[:80]),
                             dict(replay, bytes=b.hex(), history='subtype(implicit), subtype(explicit), clone, then clone(value)'))
                elif b3 != b and not sigs.has_constructed_default(t) and not sigs.has_real_default(t):
                    rep.fail('decoded-tags-after-deriving-siblings', 'decoding with the type object after sibling types were derived '
                             'from it and re-encoding gives %s, not the input %s' % (b3.hex()[:80], b.hex()[:80]),
                             dict(replay, bytes=b.hex()))
            # --- strings written in segments (maxChunkSize): the type's tags still head the encoding, the segments carry
            # the universal tag of the string kind, and the type's own decoder accepts it
            if defMode and gen.base_of(t)[0] in ('str', 'bits') and not siblings:
                for dm2 in (True, False):
                    for ch in (1, 3):
                        rc = codec.impl_encode('ber', t, v, dm2, ch)
                        rep.count('chunked-strings')
                        if rc[0] != 'ok':
                            rep.fail('encode-refused:' + str(rc[1]), 'encoder refused a valid value (maxChunkSize=%d)' % ch,
                                     dict(replay, defMode=dm2, maxChunkSize=ch))
                            continue
                        try:
                            gotc = walk_idents(rc[1], len(exp)) if exp else []
                        except Exception:  # noqa
                            gotc = None
                        if exp and (gotc is None or [(c, n_) for c, _, n_ in gotc] != exp):
                            rep.fail('identifiers-differ', 'segmented form: identifier octets %r, type tags %r' % (gotc, exp),
                                     dict(replay, bytes=rc[1].hex(), defMode=dm2, maxChunkSize=ch))
                            continue
                        dc = codec.impl_decode('ber', t, rc[1], schema)
                        if dc[0] != 'ok' or not gen.val_equiv(t, dc[1], v) or dc[2] != b'':
                            sig = 'E1-stray-eoo' if (not dm2 and wire.e1_applies(t, v)) else 'own-type-rejects'
                            rep.fail(sig, 'decoding the segmented form (maxChunkSize=%d) with the encoding type: %r' % (ch, dc[:3]),
                                     dict(replay, bytes=rc[1].hex(), defMode=dm2, maxChunkSize=ch))
            # --- a member declared with this type: a value object of a type whose tags differ (one tagging changed, or
            # outer taggings left out) is refused by the container, or else the declared tags are what goes on the wire;
            # and isSuperTagSetOf is the prefix relation it documents
            if depth >= 1 and defMode and gen.base_of(t)[0] != 'choice':
                others = []
                x = t
                while x[0] == 'tag':
                    x = x[4]
                    others.append(x)                       # outer taggings left out, one more each time
                others += [perturb(rng, t, pos) for pos in range(depth)]
                from pyasn1.type import namedtype as _nt, univ as _univ
                for t2 in others:
                    if not gen.wf(t2) or gen.tags_of(t2) == gen.tags_of(t):
                        continue
                    try:
                        s2 = gen.build(t2)
                        vobj = gen.build_value(t2, v, s2)
                    except Exception:  # noqa
                        continue
                    rep.count('foreign-tag-assignments')
                    own, oth = list(schema.tagSet.superTags), list(s2.tagSet.superTags)
                    want_super = oth[:len(own)] == own
                    if bool(schema.tagSet.isSuperTagSetOf(s2.tagSet)) != want_super:
                        rep.fail('isSuperTagSetOf-differs', 'isSuperTagSetOf(%s, %s) answers %s' % (
                            gen.ty_sexp(t)[:80], gen.ty_sexp(t2)[:80], not want_super), dict(replay, other=gen.ty_sexp(t2)))
                    if want_super:
                        continue
                    for hname, holder in (('seq', _univ.Sequence(componentType=_nt.NamedTypes(_nt.NamedType('x', schema)))),
                                          ('seqof', _univ.SequenceOf(componentType=schema))):
                        try:
                            if hname == 'seq':
                                holder['x'] = vobj
                            else:
                                holder.append(vobj)
                            hb = bytes(ber_encoder.encode(holder))
                        except (error.PyAsn1Error, KeyError, IndexError):
                            continue        # refused (the item protocols turn the refusal into KeyError / IndexError)
                        except Exception as e:  # noqa
                            rep.fail('foreign-tag-leak-' + type(e).__name__, str(e)[:200], dict(replay, other=gen.ty_sexp(t2)))
                            continue
                        inner = hb[2:] if hb[1] < 0x80 else hb[2 + (hb[1] & 0x7f):]
                        try:
                            got2 = walk_idents(inner, len(exp)) if exp else []
                        except Exception:  # noqa
                            got2 = None
                        if got2 is None or [(c, n_) for c, _, n_ in got2] != exp:
                            rep.fail('container-emits-foreign-tags', 'a %s declared with member type %s took a value object of type %s '
                                     'and wrote the identifiers %r instead of %r' % (hname, gen.ty_sexp(t)[:80], gen.ty_sexp(t2)[:80], got2, exp),
                                     dict(replay, other=gen.ty_sexp(t2), bytes=hb.hex(), holder=hname))
            # --- rejected by every single-position perturbation
            if depth >= 1 and defMode:
                for pos in range(depth):
                    t2 = perturb(rng, t, pos)
                    if not gen.wf(t2) or gen.tags_of(t2) == gen.tags_of(t):
                        continue
                    if [(c, n_) for c, _, n_ in gen.tags_of(t2)] == [(c, n_) for c, _, n_ in gen.tags_of(t)]:
                        continue
                    d2 = codec.impl_decode('ber', t2, b)
                    rep.count('perturbations')
                    if d2[0] == 'ok' or d2[0] == 'bad':
                        rep.fail('near-miss-accepted', 'type with different tags accepted the encoding',
                                 dict(replay, bytes=b.hex(), other=gen.ty_sexp(t2)))
                    elif d2[1].startswith('leak'):
                        rep.fail('near-miss-' + d2[1], 'non-library exception', dict(replay, bytes=b.hex(), other=gen.ty_sexp(t2)))
                    md = codec.model_decode(drv, 'ber', t2, b)
                    rep.corr_checked += 1
                    if md[0] == 'ok':
                        rep.disagree('DEC-perturbed', [gen.ty_sexp(t2), b.hex()], md, d2[:2])
    # explicit tagging refuses UNIVERSAL (implementation)
    for base in BASES[:6]:
        try:
            gen.build(('tag', 'e', 'u', 5, base))
            rep.fail('explicit-universal-accepted', 'explicit UNIVERSAL tag accepted', {'type': gen.ty_sexp(base)})
        except Exception as e:  # noqa
            if codec.classify(e) != 'liberr':
                rep.fail('explicit-universal-' + codec.classify(e), 'wrong error class', {'type': gen.ty_sexp(base)})
    drv.close()


def replay(path):
    d = json.load(open(path))
    print(json.dumps(d, indent=1)[:4000])
    return 0
